"""C24 - Relevance pruning is unobservable in results.

Monitor: differential twins + reference model.  Every case is built TWICE in the same process: once normally
(relevance pruning enabled) and once with `openmdao.utils.relevance._no_relevance = True` while the problem is
constructed / set up / used (the flag is read in `Relevance.__init__`, i.e. for every Relevance object the twin
creates).  Class-level wrappers on `Relevance.is_relevant_system` / `Relevance.is_relevant` COUNT every "irrelevant"
answer (= a system or variable that was actually pruned); in the disabled twin both counters must stay 0 (the twin is
verified, not assumed).  The harness components' hook additionally counts linearize / compute calls per component, so
the evidence shows how much work pruning really saved.

Family `totals` (G models, omv/gen/models.py, operated on by omv/gen/c24_kit.py so that there is something to prune:
two independent models merged into one (disjoint dependency cones), optional one-directional link, dead-end branches,
a design variable that influences nothing, a source that is no design variable, a response without design variable):
    outputs after run_model, compute_totals(of, wrt) / compute_totals() on declared design variables + responses
    (indices, aliases, linear constraints, parallel_deriv_color, cache_linear_solution), Driver._compute_totals
    (linear-constraint jacobian first, then the nonlinear one, as ScipyOptimizeDriver does)
  are compared  twin-on == twin-off  and both with R's exact total jacobian (omv/ref/flatmodel.py), across cells
  {fwd, rev} x root linear solver {generated, LinearRunOnce, LinearBlockGS, LinearBlockJac, ScipyKrylov, DirectSolver}.

Family `opt` (strictly convex QP evaluated through a chain of linear components with pre- and post-optimisation
components, linear cycle with NLBGS/Newton + LNBGS/Direct/Krylov, sub-group linear solvers, linear=True constraints,
alias/indices, unused design variable, response without design variable; group_by_pre_opt_post on/off):
    ScipyOptimizeDriver(SLSQP).run_driver(): success flag, design variables, objective and ALL model outputs
    (pre/post/dead-end components included) compared twin-on == twin-off, with the exact optimum of the QP
    (KKT enumeration, omv/ref/qp.py) and with closed-form values of the pre/post components at the final design.

Family `coupled` (one linear ImplicitComponent  M y - N x - c = 0  whose residuals couple its outputs y0,y1,y2 - only the
non-zero blocks are declared as partials - followed by an explicit component; control shape `none` = uncoupled):
    values and totals compared twin-on == twin-off == exact M^-1 N.

Family `arrow` (omv/gen/c24_arrow.py): the TOTAL jacobian consists of diagonal blocks, dense rows and dense columns that
are produced by DIFFERENT components (diag: y = a x^2 + b x + c s, mul: z = sin(x) s + p x, row: g = sum w (u-t)^2 over
design variables and/or intermediate outputs, elementwise chains, a dead end, a component fed by a non-design source;
optional sub-groups with their own linear solver), so that the individual colours of a driver total coloring have
different relevance footprints while sharing source design variables.  driver.declare_coloring() (dynamic; direct /
substitution method; num_full_jacs 1..3) or use_fixed_coloring(Coloring object / file computed by a donor problem),
setup(mode in auto/fwd/rev) - under `auto` an arrowhead pattern yields a BIDIRECTIONAL coloring (fwd and rev solves in
the same compute_totals, primary mode fwd or rev by of-size vs wrt-size); design-variable / constraint indices,
cache_linear_solution, root solver {runonce, lnbgs, lnbj, krylov, direct}.  Call sequence per twin:
    run_model; prob.compute_totals() (computes the dynamic coloring); driver._compute_totals() (coloured, cached
    _TotalJacInfo); prob.compute_totals(of=intermediate/dead-end outputs, wrt=rotated design variables) (uncoloured,
    other relevance sets); new point + run_model; driver._compute_totals() again
  every result compared twin-on == twin-off == closed-form chain rule (NumPy).  Every 4th case is a convex optimisation
  variant: run_driver (SLSQP) with the coloring; the disabled twin's final design must be THE optimum (KKT conditions on
  the closed-form model), the enabled twin must end at the same design, its outputs must be the model values there and
  its totals there must equal the closed form.
  The monitor wraps _TotalJacInfo.compute_totals / *_input_setter and records, per linear solve, the kind of coloring
  in use (uncolored / colored-fwd / colored-rev / bidirectional) and the direction of the solve, so that the evidence
  counts bidirectional colorings actually used, their fwd/rev solves and the systems relevance skipped DURING them.

Family `hist` (omv/gen/c24_hist.py): HISTORIES on ONE Problem object; every step of the history is compared
twin-on == twin-off == closed form (NumPy; units that OpenMDAO differentiates by finite differences are differentiated
in the reference by the same difference formula on the closed-form unit function, so only a bounded round-off separates
the two).  Model: 2..4 branches (own design variable, chain of elementwise components, one-directional cross links, an
optional linear two-component cycle under NLBGS/Newton, a component fed by a non-design source, dead ends, a scalar
`row` response), components analytic / matrix-free / implicit (solve_linear, apply_linear) / with fd or cs partials,
sub-groups nested to depth 2 with their own linear solvers, (sub-)groups with approx_totals(fd|cs), root approx_totals
with or without a driver coloring; fwd / rev.
  class `errpath` - an error path inside a derivative computation, then reuse of the problem: a FAULT is armed (a
    component hook raises AnalysisError / RuntimeError at its n-th call: compute_jacvec_product, apply_linear,
    solve_linear [inside the per-seed linear solve], compute_partials / linearize, a zero dR/dy under a DirectSolver
    [inside the linearization], compute [inside a driver's model run or inside the finite-difference run of an
    approximated group]; or the linear solver of the cycle gets maxiter=2 and err_on_non_converge=True) and one of
    prob.compute_totals() / compute_totals(of, wrt) / driver._compute_totals() / check_totals() / run_driver() (SLSQP;
    the driver re-raises what its callbacks swallowed) is called - optionally after a first successful derivative
    computation; the component sits in the first / a middle / the last seed's cone.  The caller catches the exception,
    disarms the fault (restores the solver options), moves OTHER design variables (or all), and goes on: run_model,
    outputs, compute_totals() / driver._compute_totals() / explicit totals, optionally run_driver (final design must
    be a stationary point of the closed-form model like the disabled twin's) or a third point.
  class `seq` - a sequence of 5..7 derivative requests with DIFFERENT of/wrt on the same problem (two explicit subsets
    around different design variables, their union, the driver's variables through prob.compute_totals() /
    driver._compute_totals() / check_totals(), a repetition; random order; optionally a new point in between) on
    models with approximated units (group approx_totals at depth 1 or 2, components with fd/cs partials, root approx
    with / without coloring): what an approximated unit perturbs is selected by the relevance of a request and has to be
    selected again for the next one.
  Requests never contain a seed without counterpart (dead seeds are a listed mechanism of their own).

Besides values, a solver that reports non-convergence ONLY in the enabled twin is a violation (observable: failure
message, wasted iterations, AnalysisError under err_on_non_converge=True); such failures are classified by the seed that
was active (`dead-seed`: the seed has no counterpart in the jacobian being computed; `live-seed:mixed-stack` /
`live-seed:mixed-stack-sibling` / `live-seed:hollow-group` / `live-seed:uniform-stack`, see _fail_class) so that each mechanism has its own key.
A linear solver's failure report whose last monitored residual is at round-off level (FLOOR_REL / FLOOR_ABS below) is
NOT such an observation: the generators ask for tolerances of 1e-13 .. 1e-15, which double precision does not guarantee;
these reports are counted (`obs:roundoff-floor-failure-reports-not-judged:*`) and not judged.

thorough tier additionally runs a few disabled twins in a subprocess with the documented switch
OPENMDAO_NO_RELEVANCE=1 (omv/kit/c24_child.py) and requires the in-process way of disabling to agree with it.
"""
import copy
import json
import os
import random
import subprocess
import sys

import numpy as np

from omv.core import fingerprint
from omv.kit.gmon import FailureMonitor, exc_key, tree_solvers

PROPERTY = 'C24'
LEVEL = 'exploration'
TECHNIQUE = ('runtime monitoring: differential twins (relevance enabled vs disabled in-process, verified by pruning '
             'counters on Relevance.is_relevant_system/is_relevant) + independent reference (exact total jacobian / '
             'exact QP optimum)')
RULE = ('totals family: two random G specs merged into one model (disjoint cones; optional A->B link) or one spec, '
        'extended with a dead-end branch, a no-effect design variable and a non-design source feeding a response; '
        'cells {fwd,rev} x root linear solver {generated,runonce,lnbgs,lnbj,krylov,direct} x API {explicit of/wrt, '
        'declared desvars/responses with indices/alias/linear/pdc/cache_linear_solution + Driver._compute_totals}; '
        'opt family: random strictly convex QP through linear component chain (optional linear cycle), pre/post '
        'components, SLSQP; coupled family: linear implicit component with random block coupling pattern + explicit '
        'follower x root/sub-group linear solver x mode; arrow family: total jacobian = diagonal blocks + dense rows + '
        'dense columns spread over 2-7 components (shape arrow/diagcol/diagrow/block/random) x total coloring '
        '{dynamic, fixed object, fixed file} x {direct, substitution} x setup mode {auto,fwd,rev} x root linear solver x '
        'sub-groups x indices x cache_linear_solution, call sequence problem totals / driver totals / explicit '
        'uncoloured totals / second point, every 4th case a convex SLSQP run; hist family: histories on one problem '
        '(branch models with cycle / sub-groups to depth 2 / matrix-free, implicit, fd- and cs-approximated components '
        '/ groups with approx_totals) - class errpath: injected fault {jacvec, apply_linear, solve_linear, linearize, '
        'singular dR/dy, compute, linear solver maxiter+err_on_non_converge} x API {compute_totals(), explicit of/wrt, '
        'driver._compute_totals, check_totals, run_driver} x seed position x fwd/rev, then recovery, other design '
        'variables moved, run_model / totals / optional run_driver judged; class seq: 5-7 requests with different '
        'of/wrt (subsets, union, driver variables, repetition) over approximated units.  distinct = fingerprint(model features, solver stack, cell, plan shape); non-trivial = '
        'relevance answered "irrelevant" at least once in the enabled twin (something was really pruned) and all '
        'solvers reported convergence')
MIN_JUDGED = {'quick': 400, 'thorough': 4000}
REQUIRED_COUNTERS = ['obs:hist-errpath-twins', 'obs:hist-seq-twins', 'obs:errpath-fault-raised-in-both-twins',
                     'obs:errpath-fault-inside-per-seed-solve', 'obs:errpath-values-after-fault',
                     'obs:errpath-totals-after-fault', 'obs:errpath-fault-not-in-first-derivative-computation',
                     'cell:errpath-site=jacvec', 'cell:errpath-site=solve_linear', 'cell:errpath-site=apply_linear',
                     'cell:errpath-site=linearize', 'cell:errpath-site=compute', 'cell:errpath-site=ln-maxiter',
                     'cell:errpath-api=problem', 'cell:errpath-api=explicit', 'cell:errpath-api=driver',
                     'cell:errpath-api=check', 'cell:errpath-api=run_driver', 'cell:errpath-seedpos=first',
                     'cell:errpath-seedpos=middle', 'cell:errpath-seedpos=last', 'cell:errpath-mode=fwd',
                     'cell:errpath-mode=rev', 'cell:errpath-moved=others', 'obs:hist-opt-twins',
                     'obs:seq-requests', 'cell:seq-api=explicit', 'cell:seq-api=problem', 'cell:seq-api=driver',
                     'cell:seq-first=explicit', 'cell:seq-first=problem', 'obs:hist-approx-unit:group-fd',
                     'obs:hist-approx-unit:group-cs', 'obs:hist-approx-unit:comp-fd', 'obs:hist-approx-unit:comp-cs',
                     'cell:hist-approx-group-depth=1', 'cell:hist-approx-group-depth=2',
                     'obs:arrow-twins', 'obs:arrow-computes:bidirectional', 'obs:arrow-solves:bidirectional:fwd',
                     'obs:arrow-solves:bidirectional:rev', 'obs:arrow-systems-pruned:bidirectional:rev-solve',
                     'obs:arrow-systems-pruned:bidirectional:fwd-solve', 'obs:bidir-primary=fwd',
                     'obs:arrow-computes:colored-fwd', 'obs:arrow-computes:colored-rev',
                     'obs:arrow-systems-pruned:colored-fwd:fwd-solve', 'obs:arrow-systems-pruned:colored-rev:rev-solve',
                     'obs:arrow-fixed-object', 'obs:arrow-fixed-file', 'obs:arrow-opt-twins',
                     'cell:arrow-direct', 'cell:arrow-substitution',
                     'obs:coupled-twins', 'cell:coupled-shape=none', 'cell:coupled-shape=chain', 'obs:systems-pruned', 'obs:vars-pruned', 'obs:linearize-calls-saved', 'obs:twin-off-verified',
                     'obs:totals-on-vs-off', 'obs:totals-vs-reference', 'obs:values-on-vs-off',
                     'obs:driver-totals', 'obs:lincon-totals', 'obs:declared-totals', 'obs:explicit-totals',
                     'obs:disjoint-cones', 'obs:cyclic-model', 'obs:zero-blocks',
                     'obs:opt-twins', 'obs:opt-vs-exact-optimum', 'obs:opt-compute-calls-saved',
                     'obs:opt-pre-post-grouping', 'obs:opt-linear-constraint', 'obs:opt-cycle',
                     'cell:mode=fwd', 'cell:mode=rev', 'cell:ln=generated', 'cell:ln=runonce', 'cell:ln=lnbgs',
                     'cell:ln=lnbj', 'cell:ln=krylov', 'cell:ln=direct']
ASSUMPTIONS = ['a solver failure reported only by the relevance-enabled twin counts as an observable difference - unless '
               'it is a linear solver whose last monitored residual is at the round-off floor of the admitted systems '
               '(relative <= n*eps*cond = 80*2.2e-16*1e6 ~ 2e-8, or absolute <= 1e-10): the requested tolerances '
               '(1e-13..1e-15) are below what double precision guarantees, so which twin lands above them is an '
               'accident of operation order; such reports are counted, not judged',
               'the relevance-disabled twin is the baseline: `_no_relevance=True` while the twin is built, set up and '
               'used; verified per twin (pruning counters stay 0, model._relevance._active is False)',
               'R (omv/ref/flatmodel.py) is exact (re-validated by complex step per case); cases where the DISABLED '
               'twin disagrees with R are other properties\' territory (C01) and are not judged here',
               'cases where a solver reports non-convergence in the DISABLED twin, or cond(dF/du) >= 1e6, are not judged',
               'arrow family: solver failure reports raised while a dynamic total coloring computes its sparsity are '
               'ignored in both twins (OpenMDAO re-randomises the sub-jacobians at every matrix-vector product there, '
               'an iterative solver cannot converge by construction); optimisation variant: the disabled twin is the '
               'baseline only if it reports success and its final design satisfies the KKT conditions of the '
               'closed-form model to 1e-5; a different exit flag at the same final design is not a result difference',
               'hist family: OpenMDAO\'s finite differences use the documented formulas (forward: (f(x+h)-f(x))/h with '
               'f(x) = the current outputs / residuals, central: (f(x+h)-f(x-h))/2h, absolute step, every input of a '
               'unit that is fed from outside perturbed separately); the reference applies the same formula to the '
               'closed-form unit and allows 10x its round-off bound 4*eps*|f|/h per difference (propagated through '
               'the chain rule); nonlinear solvers are asked for a residual of 1e-10 (a run pruned by relevance cannot '
               'reduce residuals of the systems it skips below the level the last full run converged to); implicit '
               'components are kept out of approximated groups (wrong sign with relevance on and off: not this '
               'property); after a fault the steps of both twins are compared only while neither raises again; a '
               'fault that only the disabled twin reaches (the enabled twin makes fewer calls of the hook) is no '
               'difference; optimisation after a fault: the disabled twin must report success and end at a stationary '
               'point of the closed-form model (projected gradient <= 1e-5), the enabled twin must end at the same '
               'design (1e-4) or at another stationary point (<= 1e-4)',
               'optimizer twins are judged only if the disabled twin reports success and reaches the exact QP optimum '
               'to 5e-7 (validated baseline); no MPI (parallel_deriv_color is declared but has no parallel effect)']
SHARD_TIMEOUT = {'quick': 1500, 'thorough': 5400}

OPTS = dict(p_index=0.45, p_units=0.3, p_chain2=0.25, p_param=0.3, p_matfree=0.12, p_sparse=0.5, p_cycle=0.4,
            p_implicit=0.3, min_comps=2, max_comps=4)
TOL_DIRECT = 1e-10      # twins whose linear stack is direct / run-once only: identical algebra up to round-off
TOL_ITER = 2e-7         # iterative linear solvers (atol=rtol=1e-13, cond < 1e6): both twins within 1e-7 of exact
TOL_REF = 2e-7          # against R (same bound as C01)
TOL_OPT = 1e-6
# family `arrow`, optimisation variant (nonlinear convex problem, SLSQP): the disabled twin's final design is accepted
# as baseline if its KKT residual on the closed-form model is <= ARROW_KKT; with a strong-convexity modulus >= 0.6
# (objective weights >= 0.3) it is then within ~2e-5 of the unique optimum, and an enabled twin that ends further than
# ARROW_TOL_OPT from it is not at the optimum.
ARROW_KKT = 1e-5
ARROW_TOL_OPT = 1e-4


def shards(tier, seed):
    if tier == 'quick':
        n, nt, no, na, nhe, nhs = 16, 3, 4, 8, 8, 6
    else:
        n, nt, no, na, nhe, nhs = 64, 6, 8, 24, 24, 16
    n = int(os.environ.get('OMV_C24_NSHARDS', n))      # development aid (sensitivity runs on a loaded machine)
    out = []
    for i in range(n):
        out.append({'seed': seed * 100000 + i * 1000, 'n_totals': nt, 'n_opt': no, 'n_coupled': 3 * no,
                    'n_arrow': na, 'n_hist_err': nhe, 'n_hist_seq': nhs, 'tier': tier,
                    'child': (tier == 'thorough' and i % 8 == 0)})
    return out


def run_shard(shard, acc):
    for k in range(shard['n_totals']):
        run_case({'kind': 'totals', 'seed': shard['seed'] + k, 'tier': shard.get('tier', 'quick')}, acc)
    for k in range(shard['n_opt']):
        run_case({'kind': 'opt', 'seed': shard['seed'] + 500 + k, 'tier': shard.get('tier', 'quick')}, acc)
    for k in range(shard.get('n_coupled', 0)):
        run_case({'kind': 'coupled', 'seed': shard['seed'] + 700 + k, 'tier': shard.get('tier', 'quick')}, acc)
    for k in range(shard.get('n_arrow', 0)):
        # every 4th case is the optimisation variant (short SLSQP run on a convex problem)
        run_case({'kind': 'arrow', 'seed': shard['seed'] + 800 + k, 'opt': k % 4 == 3,
                  'tier': shard.get('tier', 'quick')}, acc)
    for k in range(shard.get('n_hist_err', 0)):
        # every 4th case ends with an optimisation (SLSQP) after the recovery
        run_case({'kind': 'hist', 'cls': 'errpath', 'seed': shard['seed'] + 400 + k, 'opt': k % 4 == 3,
                  'tier': shard.get('tier', 'quick')}, acc)
    for k in range(shard.get('n_hist_seq', 0)):
        run_case({'kind': 'hist', 'cls': 'seq', 'seed': shard['seed'] + 450 + k, 'opt': False,
                  'tier': shard.get('tier', 'quick')}, acc)
    if shard.get('child'):
        run_case({'kind': 'child', 'seed': shard['seed'] + 900, 'tier': shard.get('tier', 'quick')}, acc)
    nb = sum(v for k, v in acc.skipped.items() if k.startswith('both-twins-raise') or k.startswith('HARNESS'))
    if nb > 0.25 * max(1, acc.evaluations):
        # exceptions common to both twins are not this property's business - but when they dominate, the harness
        # (not OpenMDAO) is the likely culprit: make the run INCONCLUSIVE instead of quietly judging little
        raise RuntimeError('%d of %d cases raised in both twins / failed twin verification: %r'
                           % (nb, acc.evaluations, acc.skipped))


def run_case(case, acc):
    n0 = list(_FLOOR_REPORTS)
    try:
        _run_case(case, acc)
    finally:
        if _FLOOR_REPORTS[0] > n0[0]:
            acc.count('obs:roundoff-floor-failure-reports-not-judged:enabled-twin', _FLOOR_REPORTS[0] - n0[0])
        if _FLOOR_REPORTS[1] > n0[1]:
            acc.count('obs:roundoff-floor-failure-reports-not-judged:disabled-twin', _FLOOR_REPORTS[1] - n0[1])


def _run_case(case, acc):
    if case['kind'] == 'totals':
        _case_totals(case, acc)
    elif case['kind'] == 'opt':
        _case_opt(case, acc)
    elif case['kind'] == 'coupled':
        _case_coupled(case, acc)
    elif case['kind'] == 'arrow':
        _case_arrow(case, acc)
    elif case['kind'] == 'hist':
        _case_hist(case, acc)
    else:
        _case_child(case, acc)


# =====================================================================================================
# monitors
# =====================================================================================================
class WorkBudgetExceeded(Exception):
    """Raised by RelMon when one twin asked Relevance more than `budget` times (a LOGICAL work bound, deterministic):
    nested iterative linear solvers that all run to maxiter for a dead seed multiply their iteration counts."""


WORK_BUDGET = 400000


class RelMon:
    """Counts the 'irrelevant' answers of Relevance (class-level wraps, restored on exit)."""

    def __init__(self, budget=WORK_BUDGET):
        self.sys_pruned = 0
        self.var_pruned = 0
        self.sys_asked = 0
        self.budget = budget
        # total-jacobian context (family `arrow`): which kind of linear solve is in progress
        self.cur = None            # (coloring kind of the _TotalJacInfo, direction of the current solve)
        self.pruned_ctx = {}       # cur -> number of 'irrelevant system' answers
        self.solves_ctx = {}       # cur -> number of linear solves started
        self.tj_runs = {}          # coloring kind -> number of _TotalJacInfo.compute_totals executions
        self.primary = {}          # (coloring kind, primary mode) -> executions

    def __enter__(self):
        from openmdao.utils.relevance import Relevance
        from openmdao.core.total_jac import _TotalJacInfo
        self._tj = _TotalJacInfo
        self._o_tj = {k: _TotalJacInfo.__dict__[k] for k in ('compute_totals', 'single_input_setter',
                                                             'simul_coloring_input_setter')}
        mon0 = self

        def _kind(tj):
            if getattr(tj, 'simul_coloring', None) is None:
                return 'uncolored'
            modes = tuple(getattr(tj, 'modes', ()) or ())
            return 'bidirectional' if len(modes) == 2 else 'colored-' + '+'.join(modes)

        def compute_totals(slf, *a, **kw):
            k = _kind(slf)
            mon0.tj_runs[k] = mon0.tj_runs.get(k, 0) + 1
            pk = (k, getattr(slf, 'mode', None))
            mon0.primary[pk] = mon0.primary.get(pk, 0) + 1
            mon0.cur = None
            try:
                return mon0._o_tj['compute_totals'](slf, *a, **kw)
            finally:
                mon0.cur = None

        def single_input_setter(slf, idx, imeta, mode):
            cur = (_kind(slf), mode)
            if mon0.cur != ('*', cur):          # not reached through simul_coloring_input_setter
                mon0.solves_ctx[cur] = mon0.solves_ctx.get(cur, 0) + 1
            mon0.cur = cur
            return mon0._o_tj['single_input_setter'](slf, idx, imeta, mode)

        def simul_coloring_input_setter(slf, inds, itermeta, mode):
            cur = (_kind(slf), mode)
            mon0.solves_ctx[cur] = mon0.solves_ctx.get(cur, 0) + 1
            mon0.cur = ('*', cur)
            try:
                return mon0._o_tj['simul_coloring_input_setter'](slf, inds, itermeta, mode)
            finally:
                mon0.cur = cur
        _TotalJacInfo.compute_totals = compute_totals
        _TotalJacInfo.single_input_setter = single_input_setter
        _TotalJacInfo.simul_coloring_input_setter = simul_coloring_input_setter
        self._cls = Relevance
        self._o_sys = Relevance.__dict__['is_relevant_system']
        self._o_var = Relevance.__dict__['is_relevant']
        mon = self

        def is_relevant_system(slf, name):
            r = mon._o_sys(slf, name)
            mon.sys_asked += 1
            if not r:
                mon.sys_pruned += 1
                if mon.cur is not None:
                    mon.pruned_ctx[mon.cur] = mon.pruned_ctx.get(mon.cur, 0) + 1
            if mon.sys_asked > mon.budget:
                raise WorkBudgetExceeded('%d relevance queries' % mon.sys_asked)
            return r

        def is_relevant(slf, name):
            r = mon._o_var(slf, name)
            if not r:
                mon.var_pruned += 1
            return r
        is_relevant_system._omv_orig = self._o_sys      # for monitors that must not disturb the pruning counters
        is_relevant._omv_orig = self._o_var
        Relevance.is_relevant_system = is_relevant_system
        Relevance.is_relevant = is_relevant
        return self

    def __exit__(self, *a):
        self._cls.is_relevant_system = self._o_sys
        self._cls.is_relevant = self._o_var
        for k, f in self._o_tj.items():
            setattr(self._tj, k, f)
        return False


# A LINEAR solver's failure report is an observation of non-convergence only if the residual it last monitored
# (Solver._mpi_print, called every iteration whatever iprint is) is above the round-off floor of the systems the
# generators admit: a backward-stable solution of A x = b has |b - A x| <~ n eps |A| |x| <= n eps cond(A) |b|
# = 80 * 2.2e-16 * 1e6 ~ 2e-8 |b| (n <= 80 unknowns, cond < 1e6 guard).  The harness asks the solvers for
# atol = rtol = 1e-13 .. 1e-15, i.e. BELOW what double precision guarantees once |x| >> |b| (e.g. |x| = 150 |b|
# -> |b - A x| ~ 4e-14 > 1e-14) or at 1e-15 even for |x| ~ 5 |b| (SciPy's gmres then stops at its "lucky breakdown"
# with a true residual of 1.1e-15 .. 1.8e-15 and reports failure): whether the last few bits land above or below
# such a tolerance depends on the order of the floating-point operations, which legitimately differs between the
# twins (the pruned twin multiplies fewer blocks; its relative tolerance refers to a smaller initial residual).
# The non-convergence relevance pruning can CAUSE (convergence norm sees entries nobody solves for) leaves residuals
# of the size of the seed / of the transferred derivative values, many orders above this floor.
# Block solvers monitor the true |A x - b| and |A x - b| / |initial residual|.  ScipyKrylov only monitors gmres' own
# recurrence ESTIMATE of |r|/|b|, which drops to 0 at a breakdown even when the system is inconsistent (true residual
# O(1): exactly what a seed entry nobody solves for produces) - useless here.  For ScipyKrylov the monitor therefore
# takes the TRUE residual gmres itself decides on: b is copied when solve() starts, and the last operator application
# of a gmres run is its final `r = b - A x`.
FLOOR_REL = 2e-8
FLOOR_ABS = 1e-10       # |b| is a unit seed or a derivative value >= ~1e-3 in these models; 1e-10 is >= 1e3 * atol
_FLOOR_REPORTS = [0, 0]     # floor-level reports not judged: [relevance-enabled twins, disabled twins]


class SeedFailureMonitor(FailureMonitor):
    """FailureMonitor that also records the derivative seed variable(s) active when a solver reported failure.
    mon.failures: (solver class, message, seeds, mixed, full seeds, in-coloring, irrelevant-only residual, hollow,
                   matrix-free-only)
      mixed = 'below'   : below the failing solver's system there is a group whose linear solver switches relevance
                          off (DirectSolver)
              'sibling' : no such group below, but elsewhere in the model there is one that takes part in the
                          current solve (relevant system for the active seed) - its assembled jacobian / its inner
                          solve produces derivative values for variables that are irrelevant for the active seed,
                          and the transfers carry them into the failing solver's right-hand side
              False     : neither.
      irrelevant-only residual (block solvers only, else None): True if the part of the residual A x - rhs that lives
          in variables RELEVANT for the active seed is <= 1e-8 of the whole residual, i.e. what has not converged are
          only entries of variables relevance declared irrelevant.
      hollow = 'self' / 'below': the failing solver's group / a group below it is relevant for the active seeds as a
          SYSTEM while none of its components is (see report_failure); False: no such group; None: unknown
      matrix-free-only (rev; block solvers with irrelevant-only residual: the unconverged entries; ScipyKrylov: the
          entries of its true final residual that belong to variables irrelevant for the active seeds): True if there
          are such entries and every one is an output read by a relevant matrix-free component
    mon.floor_failures: linear-solver reports whose last monitored residual is at round-off level (see FLOOR_REL)."""

    def __init__(self):
        super().__init__()
        self.floor_failures = []

    def __enter__(self):
        from openmdao.solvers.solver import Solver, LinearSolver, BlockLinearSolver
        self._cls = Solver
        self._orig = Solver.__dict__['report_failure']
        self._orig_print = Solver.__dict__['_mpi_print']
        self._mixed = {}
        self._last = {}
        mon = self

        def _mpi_print(slf, iteration, abs_res, rel_res):
            mon._last[id(slf)] = (float(abs_res), float(rel_res))
            return mon._orig_print(slf, iteration, abs_res, rel_res)

        from openmdao.solvers.linear.scipy_iter_solver import ScipyKrylov
        self._kcls = ScipyKrylov
        self._orig_ksolve = ScipyKrylov.__dict__['solve']
        self._orig_kmatvec = ScipyKrylov.__dict__['_mat_vec']
        self._kb = {}
        self._kax = {}
        self._kmode = {}

        def ksolve(slf, mode, rel_systems=None):
            sys_ = slf._system()
            bvec = sys_._dresiduals if mode == 'fwd' else sys_._doutputs
            mon._kb[id(slf)] = bvec.asarray(True)
            mon._kmode[id(slf)] = mode
            mon._kax.pop(id(slf), None)
            return mon._orig_ksolve(slf, mode, rel_systems)

        def kmatvec(slf, in_arr):
            out = mon._orig_kmatvec(slf, in_arr)
            mon._kax[id(slf)] = np.array(out, copy=True)
            return out

        def _true_residual(slf):
            """(|b - A x|, |b - A x| / |b|) of the solver's last iterate, or None if unknown."""
            if isinstance(slf, ScipyKrylov):
                b, ax = mon._kb.get(id(slf)), mon._kax.get(id(slf))
                if b is None or ax is None or b.shape != ax.shape:
                    return None
                r = float(np.linalg.norm(b - ax))
                nb = float(np.linalg.norm(b))
                return (r, r / nb if nb > 0.0 else np.inf)
            return mon._last.get(id(slf))

        def _rel_off_groups(root):
            from openmdao.core.group import Group
            out = []
            for g in root.system_iter(include_self=True, recurse=True, typ=Group):
                ls = g._linear_solver
                if ls is not None and not ls.use_relevance():
                    out.append(g.pathname)
            return out

        def report_failure(slf, msg):
            seeds = None
            mixed = None
            irr_only = None
            mf_only = None
            try:
                sys_ = slf._system()
                sv = sys_._problem_meta.get('seed_vars')
                seeds = tuple(sorted(sv)) if sv else None
                if 'groups' not in mon._mixed:
                    mon._mixed['groups'] = _rel_off_groups(sys_._problem_meta['model_ref']())
                pre = sys_.pathname + '.' if sys_.pathname else ''
                rel = sys_._relevance
                relsys = getattr(type(rel).is_relevant_system, '_omv_orig', type(rel).is_relevant_system)
                relvar = getattr(type(rel).is_relevant, '_omv_orig', type(rel).is_relevant)
                mixed = False
                for gp in mon._mixed['groups']:
                    if gp != sys_.pathname and gp.startswith(pre):
                        mixed = 'below'
                        break
                if not mixed:
                    for gp in mon._mixed['groups']:
                        if gp and gp != sys_.pathname and not sys_.pathname.startswith(gp + '.') and relsys(rel, gp):
                            mixed = 'sibling'
                            break
                if isinstance(slf, BlockLinearSolver) and slf._rhs_vec is not None:
                    vec = sys_._dresiduals if slf._mode == 'fwd' else sys_._doutputs
                    r = vec.asarray() - slf._rhs_vec
                    rr = 0.0
                    for n in vec._views:
                        if relvar(rel, n):
                            a, b = vec.get_range(n)
                            rr += float(np.sum(np.abs(r[a:b]) ** 2))
                    tot = float(np.sum(np.abs(r) ** 2))
                    irr_only = bool(tot > 0.0 and rr <= 1e-16 * tot)
                    if irr_only and slf._mode == 'rev':
                        mf_only = _read_by_matrix_free(sys_, rel, relsys, [
                            n for n in vec._views
                            if float(np.sum(np.abs(r[slice(*vec.get_range(n))]) ** 2)) > 1e-16 * tot])
                elif isinstance(slf, ScipyKrylov) and mon._kmode.get(id(slf)) == 'rev' and \
                        mon._kb.get(id(slf)) is not None and mon._kax.get(id(slf)) is not None:
                    # gmres minimises the norm of the whole residual, so an inconsistent row (a variable that is
                    # irrelevant for the active seeds: its own diagonal block is pruned, the column of the
                    # matrix-free component that reads it is not) also spoils the relevant rows - the evidence is
                    # the set of irrelevant variables in which the TRUE final residual b - A x is not zero
                    vec = sys_._doutputs
                    bb, ax = mon._kb[id(slf)], mon._kax[id(slf)]
                    if bb.shape == vec.asarray().shape == ax.shape:
                        r = bb - ax
                        rmax = float(np.max(np.abs(r))) if r.size else 0.0
                        irr = [n for n in vec._views if not relvar(rel, n) and
                               float(np.max(np.abs(r[slice(*vec.get_range(n))]), initial=0.0)) > 1e-8 * rmax]
                        if irr and rmax > 0.0:
                            mf_only = _read_by_matrix_free(sys_, rel, relsys, irr)
            except Exception:
                if os.environ.get('OMV_DEBUG'):
                    import traceback
                    traceback.print_exc()
            full = None
            try:
                full = slf._system()._relevance.get_full_seeds()
            except Exception:
                pass
            incol = False
            try:
                # raised while a dynamic total coloring computes its sparsity: the sub-jacobians are re-randomised
                # at every matrix-vector product, an iterative solver cannot converge there (by construction)
                incol = slf._system()._problem_meta.get('coloring_randgen') is not None
            except Exception:
                pass
            hollow = None
            try:
                # white-box evidence for the `hollow-group` mechanism: the failing solver's group (or a group below
                # it) counts as relevant for the active seeds although NONE of its components does - relevance of a
                # group is (forward cone of the fwd seeds) & (backward cone of the rev seeds) on the level of SYSTEMS,
                # one component puts the group into the first set, another one into the second
                from openmdao.core.group import Group as _G
                sys_ = slf._system()
                rel = sys_._relevance
                relsys = getattr(type(rel).is_relevant_system, '_omv_orig', type(rel).is_relevant_system)
                hollow = False
                if rel._active:
                    for g in sys_.system_iter(include_self=True, recurse=True, typ=_G):
                        if g.pathname and relsys(rel, g.pathname) and not any(
                                relsys(rel, c.pathname) for c in g.system_iter(recurse=True)
                                if not isinstance(c, _G)):
                            hollow = 'self' if g is sys_ else 'below'
                            break
            except Exception:
                if os.environ.get('OMV_DEBUG'):
                    import traceback
                    traceback.print_exc()
            last = _true_residual(slf)
            rec = (type(slf).__name__, msg, seeds, mixed, full, incol, irr_only, hollow, mf_only)
            if isinstance(slf, LinearSolver) and last is not None and \
                    (last[1] <= FLOOR_REL or last[0] <= FLOOR_ABS):
                mon.floor_failures.append(rec + (last,))
                try:
                    _FLOOR_REPORTS[0 if slf._system()._relevance._active else 1] += 1
                except Exception:
                    pass
            else:
                mon.failures.append(rec)
            return mon._orig(slf, msg)
        Solver.report_failure = report_failure
        Solver._mpi_print = _mpi_print
        ScipyKrylov.solve = ksolve
        ScipyKrylov._mat_vec = kmatvec
        return self

    def __exit__(self, *a):
        self._cls._mpi_print = self._orig_print
        self._kcls.solve = self._orig_ksolve
        self._kcls._mat_vec = self._orig_kmatvec
        return super().__exit__(*a)


def _read_by_matrix_free(sys_, rel, relsys, names):
    """True if every output in `names` is read by a matrix-free component that is relevant for the active seeds (its
    compute_jacvec_product / apply_linear fills d_inputs of that input - it cannot know that the input is irrelevant
    for the active seeds - and the reverse transfer carries the value into the right-hand side of a solver that skips
    the output's component)."""
    root = sys_._problem_meta['model_ref']()
    readers = {}
    for inp, src in root._conn_global_abs_in2out.items():
        readers.setdefault(src, []).append(inp.rpartition('.')[0])
    if not names:
        return False
    for n in names:
        ok = False
        for cpath in readers.get(n, ()):
            comp = root._get_subsystem(cpath)
            if comp is not None and comp.matrix_free and relsys(rel, cpath):
                ok = True
                break
        if not ok:
            return False
    return True


def _fail_class(failures, src2spec, dep):
    """Classify solver failures that only the relevance-enabled twin reports.
    A failure is a dead-seed failure if every seed active at that moment has NO counterpart among the seeds of the
    other direction of the total-jacobian computation in progress (fwd seed: no response of that computation
    depends on it; rev seed: it depends on none of that computation's design variables) - `dep` is the harness'
    own structural dependency {response: set(design vars)}.
      dead-seed               every failure is a dead-seed failure
      live-seed:mixed-stack   ... otherwise, and below each failing solver there is a group whose linear solver
                              switches relevance off (DirectSolver)
      live-seed:mixed-stack-sibling   ... otherwise, and for each failing solver such a group exists below it or
                              elsewhere in the model (taking part in the solve for the active seed), and - where the
                              monitor can see the residual (block solvers) - what did not converge are only entries
                              of variables that are irrelevant for the active seed
      live-seed:hollow-group  ... otherwise, and every failing solver sits on (or above) a group that is relevant for
                              the active seeds as a system although none of its components is: its linear solver is
                              called with a right-hand side (put there by a matrix-free component that fills d_inputs
                              of an input which is irrelevant for the seed pair) that nothing in the group works on
      live-seed:matrix-free-into-irrelevant-output   ... otherwise, and (rev) what did not converge (block solvers) /
                              the irrelevant part of the final residual (ScipyKrylov) are
                              only entries of outputs that are irrelevant for the active seeds and are read by a
                              relevant matrix-free component (which fills d_inputs of that input; the reverse transfer
                              carries the value into a relevant group - run-once, approximated, ... - next to the
                              skipped component)
      live-seed:uniform-stack neither."""
    def dead(f):
        seeds, full = f[2], f[4]
        if not seeds or not full:
            return False
        ffwd, frev = full
        fw = [src2spec.get(x) for x in ffwd]
        rv = [src2spec.get(x) for x in frev]
        for x in seeds:
            v = src2spec.get(x)
            if v is None:
                return False
            if x in ffwd and x not in frev:
                if any((v in dep.get(o, ())) or o == v for o in rv if o is not None) or None in rv:
                    return False
            elif x in frev:
                if any((w in dep.get(v, ())) or w == v for w in fw if w is not None) or None in fw:
                    return False
            else:
                return False
        return True
    live = [f for f in failures if not dead(f)]
    if not live:
        return 'dead-seed'
    if all(f[3] == 'below' or f[3] is True for f in live):
        return 'live-seed:mixed-stack'
    if all(f[3] and (f[3] != 'sibling' or len(f) < 7 or f[6] is not False) for f in live):
        return 'live-seed:mixed-stack-sibling'
    if all(len(f) > 7 and f[7] for f in live):
        return 'live-seed:hollow-group'
    if all(len(f) > 8 and f[8] for f in live):
        return 'live-seed:matrix-free-into-irrelevant-output'
    return 'live-seed:uniform-stack'


class NoRelevance:
    """`openmdao.utils.relevance._no_relevance = flag` for the duration of the block."""

    def __init__(self, flag):
        self.flag = flag

    def __enter__(self):
        import openmdao.utils.relevance as rel
        self._rel = rel
        self._old = rel._no_relevance
        rel._no_relevance = bool(self.flag)
        return self

    def __exit__(self, *a):
        self._rel._no_relevance = self._old
        return False


class CallLog:
    def __init__(self):
        self.n = {}

    def __call__(self, kind, cname, payload):
        if kind in ('compute', 'linearize', 'apply_nonlinear', 'solve_nonlinear'):
            k = kind + ':' + cname
            self.n[k] = self.n.get(k, 0) + 1

    def total(self, kind):
        return sum(v for k, v in self.n.items() if k.startswith(kind + ':'))


def _relerr(a, b):
    a = np.asarray(a, dtype=float)
    b = np.asarray(b, dtype=float)
    if a.shape != b.shape:
        return np.inf
    if a.size == 0:
        return 0.0
    if not (np.all(np.isfinite(a)) and np.all(np.isfinite(b))):
        return np.inf
    return float(np.max(np.abs(a - b)) / max(1.0, np.max(np.abs(b))))


# =====================================================================================================
# family `totals`
# =====================================================================================================
def _gen_totals_spec(rng):
    from omv.gen import models as G
    from omv.gen import c24_kit as K
    variant = rng.choice(['merge', 'merge', 'merge+link', 'merge+link', 'single'])
    A = G.gen_spec(rng, dict(OPTS))
    if variant == 'single':
        spec = dict(copy.deepcopy(A))
        spec['opts'] = dict(spec['opts'], max_comps=6)
    else:
        B = G.gen_spec(rng, dict(OPTS, max_comps=3))
        spec = K.merge_specs(A, B)
        if variant == 'merge+link':
            K.link_specs(rng, spec)
    what = [w for w in ('dead', 'unused_dv', 'nodv_resp') if rng.random() < 0.65]
    if variant == 'single' and not what:
        what = ['dead', 'nodv_resp']
    K.extend_spec(rng, spec, what=tuple(what))
    K.fix_assembled(spec)
    # the problem's own design variables: drop some sources (they become non-design sources)
    wrt = list(spec['wrt'])
    keep = [w for w in wrt if rng.random() < 0.75]
    if not keep:
        keep = [rng.choice(wrt)]
    if 'ivz_o0' in wrt and 'ivz_o0' not in keep:
        keep.append('ivz_o0')
    spec['wrt'] = keep
    spec['variant'] = variant
    return spec


def _set_lin(spec, kind, gb_kind):
    """copy of spec with the root (and optionally gB) linear solver replaced; None if the combination is illegal."""
    sp = copy.deepcopy(spec)

    def setln(node, k):
        nl = node.get('nl', {}).get('type')
        if k == 'generated':
            return True
        if k == 'runonce':
            if node.get('cyclic') or nl in ('newton', 'broyden', 'nlbgs', 'nlbj'):
                return False
            node['ln'] = {'type': 'runonce'}
        elif k == 'direct':
            node['ln'] = {'type': 'direct', 'assemble_jac': False}
        elif k in ('lnbgs', 'lnbj'):
            if nl == 'broyden':
                return False
            node['ln'] = {'type': k}
        elif k == 'krylov':
            if nl == 'broyden':
                return False
            node['ln'] = {'type': 'krylov'}
        return True
    if not setln(sp['tree'], kind):
        return None
    if gb_kind:
        for ch in sp['tree']['children']:
            if ch.get('group') == 'gB':
                if not setln(ch, gb_kind):
                    return None
    return sp


def _iterative(spec):
    for nl, ln in tree_solvers(spec):
        if ln in ('lnbgs', 'lnbj', 'krylov', 'krylov+lnbgs'):
            return True
    return any(c.get('matfree') for c in spec['comps'])


def _make_plan(rng, spec, fm):
    """How the totals are requested.  JSON-able."""
    of, wrt = list(spec['of']), list(spec['wrt'])
    if rng.random() < 0.45:
        return {'api': 'explicit', 'of': of, 'wrt': wrt}
    scipy_drv = rng.random() < 0.6
    dvs, resps = [], []
    pdc_dv = rng.random() < 0.25
    pdc_rs = rng.random() < 0.25
    for w in wrt:
        n = fm.sizes[w]
        idx = None
        if n > 1 and rng.random() < 0.4:
            idx = sorted(rng.sample(range(n), rng.randint(1, n - 1)))
            if rng.random() < 0.3:
                idx = [i - n for i in idx]
        dvs.append({'name': w, 'idx': idx, 'cache': rng.random() < 0.2, 'pdc': 'dvc' if pdc_dv else None})
    order = list(of)
    rng.shuffle(order)
    for k, o in enumerate(order):
        n = fm.sizes[o]
        if k == 0:
            resps.append({'name': o, 'kind': 'obj', 'idx': [rng.randrange(n)], 'alias': None, 'linear': False,
                          'cache': rng.random() < 0.2, 'pdc': None})
            continue
        lin = scipy_drv and rng.random() < 0.35
        pdc = 'rsc' if pdc_rs else None
        cache = rng.random() < 0.2
        if n >= 2 and rng.random() < 0.3:
            cut = rng.randint(1, n - 1)
            perm = list(range(n))
            rng.shuffle(perm)
            resps.append({'name': o, 'kind': 'con', 'idx': sorted(perm[:cut]), 'alias': None, 'linear': lin,
                          'cache': cache, 'pdc': pdc})
            resps.append({'name': o, 'kind': 'con', 'idx': sorted(perm[cut:]), 'alias': 'al_%s' % o,
                          'linear': scipy_drv and rng.random() < 0.35, 'cache': False, 'pdc': pdc})
        else:
            idx = None
            if n > 1 and rng.random() < 0.4:
                idx = sorted(rng.sample(range(n), rng.randint(1, n - 1)))
            resps.append({'name': o, 'kind': 'con', 'idx': idx, 'alias': None, 'linear': lin, 'cache': cache,
                          'pdc': pdc})
    return {'api': 'declared', 'driver': 'scipy' if scipy_drv else 'base', 'dvs': dvs, 'resps': resps}


def _plan_shape(plan):
    if plan['api'] == 'explicit':
        return ['explicit']
    return ['declared', plan['driver'],
            'dv-idx' if any(d['idx'] for d in plan['dvs']) else '',
            'alias' if any(r['alias'] for r in plan['resps']) else '',
            'linear' if any(r['linear'] for r in plan['resps']) else '',
            'pdc' if any(r['pdc'] for r in plan['resps']) or any(d['pdc'] for d in plan['dvs']) else '',
            'cache' if any(r['cache'] for r in plan['resps']) or any(d['cache'] for d in plan['dvs']) else '']


def _ref_block(fm, u, p, S, oname, oidx, wname, widx):
    J = fm.total(oname, wname, u, p, S)
    if oidx is not None:
        J = J[oidx, :]
    if widx is not None:
        J = J[:, widx]
    return J


def _plan_reference(plan, fm, u, p, S, dep):
    """{label: (reference matrix, boolean mask of structurally non-zero entries)}"""
    out = {}

    def blockrow(rows, cols):
        Js, Ms = [], []
        for (o, oi) in rows:
            jr, mr = [], []
            for (w, wi) in cols:
                B = _ref_block(fm, u, p, S, o, oi, w, wi)
                jr.append(B)
                mr.append(np.full(B.shape, (w in dep.get(o, ())) or o == w))
            Js.append(np.hstack(jr))
            Ms.append(np.hstack(mr))
        return np.vstack(Js), np.vstack(Ms)
    if plan['api'] == 'explicit':
        out['totals'] = blockrow([(o, None) for o in plan['of']], [(w, None) for w in plan['wrt']])
        return out
    cols = [(d['name'], d['idx']) for d in plan['dvs']]
    nl = [r for r in plan['resps'] if r['kind'] == 'obj'] + \
         [r for r in plan['resps'] if r['kind'] == 'con' and not r['linear']]
    lin = [r for r in plan['resps'] if r['kind'] == 'con' and r['linear']]
    out['totals'] = blockrow([(r['name'], r['idx']) for r in nl], cols)
    if plan['driver'] == 'scipy':
        if lin:
            out['driver-lin'] = blockrow([(r['name'], r['idx']) for r in lin], cols)
        out['driver-nl'] = out['totals']
    else:
        out['driver-nl'] = out['totals']
    return out


def _run_totals_twin(spec, mode, plan, norel):
    """Build, run and differentiate one twin.  -> dict(exc, failures, res, mon, calls, active)"""
    from omv.gen import models as G
    import openmdao.api as om
    out = {'exc': None, 'failures': [], 'res': {}, 'calls': None, 'pruned': (0, 0), 'asked': 0, 'active': None}
    log = CallLog()
    prob = None
    with NoRelevance(norel), RelMon() as mon, SeedFailureMonitor() as fmon:
        try:
            prob = G.build(spec, hook=log)
            names = {}
            if plan['api'] == 'declared':
                if plan['driver'] == 'scipy':
                    prob.driver = om.ScipyOptimizeDriver(optimizer='SLSQP', disp=False)
                for d in plan['dvs']:
                    kw = {}
                    if d['idx'] is not None:
                        kw.update(indices=d['idx'], flat_indices=True)
                    if d['cache']:
                        kw['cache_linear_solution'] = True
                    if d['pdc']:
                        kw['parallel_deriv_color'] = d['pdc']
                    prob.model.add_design_var(G.top_name(spec, d['name']), **kw)
                for r in plan['resps']:
                    kw = {}
                    if r['cache']:
                        kw['cache_linear_solution'] = True
                    if r['pdc']:
                        kw['parallel_deriv_color'] = r['pdc']
                    nm = G.top_name(spec, r['name'])
                    if r['kind'] == 'obj':
                        prob.model.add_objective(nm, index=r['idx'][0], flat_indices=True, **kw)
                    else:
                        if r['idx'] is not None:
                            kw.update(indices=r['idx'], flat_indices=True)
                        if r['alias']:
                            kw['alias'] = r['alias']
                        prob.model.add_constraint(nm, upper=1e3, linear=r['linear'], **kw)
                    names[id(r)] = r['alias'] or nm
            prob.setup(mode=mode)
            # block solvers: contraction <= 0.4 per sweep (G) -> 0.4**40 = 1e-16: 40 sweeps are ample (G's default
            # is 200); gmres on <= 40 unknowns needs <= 40 iterations (G's default is 500)
            for g in prob.model.system_iter(include_self=True, recurse=True, typ=om.Group):
                if type(g.linear_solver) in (om.LinearBlockGS, om.LinearBlockJac):
                    g.linear_solver.options['maxiter'] = 40
                elif type(g.linear_solver) is om.ScipyKrylov:
                    g.linear_solver.options['maxiter'] = 60
            prob.run_model()
            out['failures'] = list(fmon.failures)
            seedvars = (plan['of'] + plan['wrt']) if plan['api'] == 'explicit' else \
                [r['name'] for r in plan['resps']] + [d['name'] for d in plan['dvs']]
            out['src2spec'] = {prob.model.get_source(G.top_name(spec, v)): v for v in seedvars}
            vals = []
            for c in spec['comps']:
                if c['kind'] != 'ivc':
                    for o in c['outputs']:
                        vals.append(np.asarray(prob.get_val(G.abs_name(spec, o['name']))).ravel())
            out['res']['values'] = np.concatenate(vals) if vals else np.zeros(0)
            if plan['api'] == 'explicit':
                ofn = [G.top_name(spec, o) for o in plan['of']]
                wrn = [G.top_name(spec, w) for w in plan['wrt']]
                out['res']['totals'] = np.array(prob.compute_totals(of=ofn, wrt=wrn, return_format='array'))
            else:
                dvn = [G.top_name(spec, d['name']) for d in plan['dvs']]
                nl = [r for r in plan['resps'] if r['kind'] == 'obj'] + \
                     [r for r in plan['resps'] if r['kind'] == 'con' and not r['linear']]
                lin = [r for r in plan['resps'] if r['kind'] == 'con' and r['linear']]
                Jd = prob.compute_totals(return_format='dict')
                out['res']['totals'] = np.vstack([np.hstack([np.atleast_2d(Jd[names[id(r)]][w]) for w in dvn])
                                                  for r in nl])
                drv = prob.driver
                if plan['driver'] == 'scipy':
                    # the order ScipyOptimizeDriver.run uses: linear-constraint jacobian first (cached separately)
                    drv._total_jac = None
                    drv._total_jac_linear = None
                    if lin:
                        out['res']['driver-lin'] = np.array(drv._compute_totals(
                            of=[names[id(r)] for r in lin], wrt=dvn, return_format='array'))
                    out['res']['driver-nl'] = np.array(drv._compute_totals(
                        of=[names[id(r)] for r in nl], wrt=dvn, return_format='array'))
                else:
                    out['res']['driver-nl'] = np.array(drv._compute_totals(return_format='array'))
            # the derivative computation must not have disturbed the model state
            vals = []
            for c in spec['comps']:
                if c['kind'] != 'ivc':
                    for o in c['outputs']:
                        vals.append(np.asarray(prob.get_val(G.abs_name(spec, o['name']))).ravel())
            out['res']['values-after'] = np.concatenate(vals) if vals else np.zeros(0)
            out['failures'] = list(fmon.failures)
            try:
                out['active'] = prob.model._relevance._active
            except Exception:
                out['active'] = None
        except Exception as e:
            if os.environ.get('OMV_DEBUG'):
                import traceback
                traceback.print_exc()
            out['exc'] = e
        finally:
            out['pruned'] = (mon.sys_pruned, mon.var_pruned)
            out['asked'] = mon.sys_asked
            out['calls'] = log
            if prob is not None:
                try:
                    prob.cleanup()
                except Exception:
                    pass
    return out


def _dead_seeds(plan, dep, mode):
    """seeds of the chosen direction that have no counterpart at all on the other side (rev: a response that
    depends on no design variable; fwd: a design variable no response depends on)."""
    if plan['api'] == 'explicit':
        of, wrt = plan['of'], plan['wrt']
    else:
        of = [r['name'] for r in plan['resps']]
        wrt = [d['name'] for d in plan['dvs']]
    dead_rev = [o for o in of if not (set(dep.get(o, ())) & set(wrt)) and o not in wrt]
    dead_fwd = [w for w in wrt if not any(w in dep.get(o, ()) or o == w for o in of)]
    if mode == 'rev':
        return dead_rev
    if mode == 'fwd':
        return dead_fwd
    return dead_rev + dead_fwd


def _spec_tags(spec):
    t = [spec.get('variant', '?')]
    info = spec.get('c24', {})
    for k in ('dead', 'unused_dv', 'nodv_resp', 'nodv_feeds_model', 'unused_dv_feeds_dead_end'):
        if info.get(k):
            t.append(k)
    if any(c['kind'] == 'imp' for c in spec['comps']):
        t.append('implicit')
    if any(c.get('matfree') for c in spec['comps']):
        t.append('matfree')
    if spec['params']:
        t.append('auto-ivc')
    return t


def _case_totals(case, acc):
    from omv.gen import c24_kit as K
    from omv.ref.flatmodel import FlatModel
    rng = random.Random(case['seed'])
    spec = _gen_totals_spec(rng)
    fm = FlatModel(spec)
    p = fm.p0()
    u, conv = fm.solve()
    if not conv:
        acc.skip('oracle-newton-not-converged')
        return
    if fm.selfcheck(u, p) > 1e-8:
        acc.skip('oracle-selfcheck-failed')
        return
    S, cond = fm.du_dp(u, p)
    if cond > 1e6:
        acc.skip('ill-conditioned')
        return
    dep = K.cones(spec)
    zero_pairs = sum(1 for o in spec['of'] for w in spec['wrt'] if w not in dep.get(o, ()) and o != w)
    cyclic = any(nl not in ('runonce',) for nl, _ in tree_solvers(spec))
    tags = _spec_tags(spec)
    ncell = 2 if case.get('tier', 'quick') == 'quick' else 4
    kinds = ['generated', 'runonce', 'lnbgs', 'lnbj', 'krylov', 'direct']
    cells = []
    start = rng.randrange(len(kinds))
    for j in range(ncell):
        cells.append((kinds[(start + j * 2 + (case['seed'] % 2)) % len(kinds)], rng.choice(['fwd', 'rev']),
                      rng.choice([None, None, 'lnbgs', 'lnbj', 'direct', 'krylov', 'runonce'])))
    for kind, mode, gbk in cells:
        sp = _set_lin(spec, kind, gbk if spec.get('merged') else None)
        if sp is None:
            sp = _set_lin(spec, 'lnbgs' if kind == 'runonce' else 'generated', None)
            kind = 'lnbgs' if kind == 'runonce' else 'generated'
            gbk = None
            if sp is None:
                sp = copy.deepcopy(spec)
                kind = 'generated'
        plan = _make_plan(rng, sp, fm)
        ccase = dict(case, cell=[kind, mode, gbk], plan=_plan_shape(plan))
        _judge_totals_cell(acc, sp, fm, u, p, S, cond, dep, kind, mode, gbk, plan, ccase, tags, zero_pairs, cyclic)


def _judge_totals_cell(acc, sp, fm, u, p, S, cond, dep, kind, mode, gbk, plan, ccase, tags, zero_pairs, cyclic):
    def K(what):
        if what.startswith('solver-fails-only-with-relevance'):
            # mechanism = which seeds exist; the solver type is the observable
            w = what.split(':')
            return '%s:solver-fails-only-with-relevance:totals:%s:mode=%s' % (':'.join(w[2:]), w[1], mode)
        if ':DEADSEED:' in what:
            lab, _, obs = what.partition(':DEADSEED:')
            return 'dead-seed:%s-totals:%s:ln=%s:mode=%s' % (obs, lab.replace('wrong-', ''), kind, mode)
        if live_fc[0] and what.startswith('wrong-'):
            # a solver reported (real, not round-off level) non-convergence for a live seed only in the enabled twin:
            # wrong totals are the consequence of that failure (e.g. ScipyKrylov leaves its last Krylov vector in the
            # solution vector when gmres fails) - same mechanism, keyed under the failure class
            return '%s:wrong-totals-after-solver-failure:totals:%s:mode=%s' % (live_fc[0], live_fc[1], mode)
        return 'totals:%s:ln=%s:mode=%s:api=%s' % (what, kind, mode, plan['api'] if plan['api'] == 'explicit'
                                                    else 'declared-' + plan['driver'])
    live_fc = [None, None]
    on = _run_totals_twin(sp, mode, plan, norel=False)
    off = _run_totals_twin(sp, mode, plan, norel=True)
    # ---- the disabled twin must really be disabled ------------------------------------------------------
    if off['pruned'] != (0, 0) or (off['exc'] is None and off['active'] not in (False,)):
        acc.skip('HARNESS-disabled-twin-still-prunes')
        return
    acc.count('obs:twin-off-verified')
    if isinstance(on['exc'], WorkBudgetExceeded):
        acc.skip('work-budget-exceeded (nested iterative solvers looping to maxiter)')
        return
    if off['exc'] is not None and on['exc'] is not None:
        # not a relevance matter: both twins reject / fail the same way
        same = type(off['exc']) is type(on['exc'])
        acc.skip('both-twins-raise' if same else 'both-twins-raise-differently')
        if os.environ.get('OMV_DEBUG'):
            print('both raise', ccase, repr(on['exc'])[:300], file=sys.stderr)
        return
    if off['exc'] is not None:
        acc.skip('only-disabled-twin-raises')
        return
    if on['exc'] is not None:
        e = on['exc']
        acc.viol(K(exc_key('raises-only-with-relevance', e)), '%s: %s' % (type(e).__name__, str(e)[:300]), ccase)
        return
    if off['failures']:
        acc.skip('solver-nonconvergence')
        return
    ref = _plan_reference(plan, fm, u, p, S, dep)
    tol = TOL_ITER if _iterative(sp) else TOL_DIRECT
    bad = []
    if on['failures']:
        # every solver converged without pruning, but reports non-convergence with pruning: observable (message,
        # wasted iterations, AnalysisError under err_on_non_converge=True)
        kinds_f = sorted(set(f[0] for f in on['failures']))
        fc = _fail_class(on['failures'], on.get('src2spec', {}), dep)
        bad.append(('solver-fails-only-with-relevance:%s' % '+'.join(kinds_f), fc, float(len(on['failures']))))
        if fc.startswith('live-seed'):
            live_fc[:] = [fc, '+'.join(kinds_f)]
        if fc != 'dead-seed' and os.environ.get('OMV_DEBUG'):
            print('LIVE-SEED failure', fc, ccase, on['failures'][:3], file=sys.stderr)
    # baseline sanity: the disabled twin must agree with R, otherwise this is not C24's case
    for lab, (Jr, mask) in ref.items():
        if _relerr(off['res'][lab], Jr) > TOL_REF:
            acc.skip('baseline-differs-from-reference')
            if os.environ.get('OMV_DEBUG'):
                print('baseline differs', ccase, lab, _relerr(off['res'][lab], Jr), file=sys.stderr)
            return
    e = _relerr(on['res']['values'], off['res']['values'])
    acc.count('obs:values-on-vs-off')
    if e > 1e-12:
        bad.append(('values-after-run_model', 'outputs', e))
    e = max(_relerr(on['res']['values-after'], on['res']['values']),
            _relerr(on['res']['values-after'], off['res']['values-after']))
    if e > 1e-12:
        bad.append(('values-after-compute_totals', 'outputs', e))
    for lab, (Jr, mask) in ref.items():
        Jon, Joff = on['res'][lab], off['res'][lab]
        acc.count('obs:totals-on-vs-off')
        acc.count('obs:totals-vs-reference')
        if lab == 'driver-lin':
            acc.count('obs:lincon-totals')
        elif lab == 'driver-nl':
            acc.count('obs:driver-totals')
        elif plan['api'] == 'explicit':
            acc.count('obs:explicit-totals')
        else:
            acc.count('obs:declared-totals')
        e1 = _relerr(Jon, Joff)
        e2 = _relerr(Jon, Jr)
        if e1 > tol or e2 > TOL_REF:
            Ja = np.asarray(Jon, dtype=float)
            if Ja.shape == Jr.shape:
                nonfin = ~np.isfinite(Ja)
                with np.errstate(invalid='ignore'):
                    D = nonfin | (np.abs(Ja - Jr) > TOL_REF * max(1.0, np.max(np.abs(Jr))))
                    D |= np.abs(Ja - Joff) > tol * max(1.0, np.max(np.abs(Joff)))
                # rows / columns of seeds without any counterpart in THIS jacobian (structurally zero)
                deadmask = np.zeros(mask.shape, dtype=bool)
                deadmask[~mask.any(axis=1), :] = True
                deadmask[:, ~mask.any(axis=0)] = True
                if D.any() and not (D & ~deadmask).any():
                    where = 'DEADSEED:' + ('nonfinite' if not (D & ~nonfin).any() else 'wrong')
                else:
                    where = []
                    if np.any(D & mask):
                        where.append('dependent-entries')
                    if np.any(D & ~mask):
                        where.append('structurally-zero-entries')
                    if nonfin.any():
                        where.append('nonfinite')
                    where = '+'.join(where) or 'entries'
            else:
                where = 'shape'
            bad.append(('wrong-' + lab, where, max(e1, e2)))
    acc.count('cell:mode=%s' % mode)
    acc.count('cell:ln=%s' % kind)
    if gbk:
        acc.count('cell:gB-ln=%s' % gbk)
    ps, pv = on['pruned']
    acc.count('obs:systems-pruned', ps)
    acc.count('obs:vars-pruned', pv)
    acc.count('obs:relevance-system-queries', on['asked'])
    saved = max(0, off['calls'].total('linearize') - on['calls'].total('linearize'))
    acc.count('obs:linearize-calls-saved', saved)
    acc.count('obs:linearize-calls-disabled-twin', off['calls'].total('linearize'))
    if zero_pairs:
        acc.count('obs:zero-blocks', zero_pairs)
    if sp.get('merged'):
        acc.count('obs:disjoint-cones')
    if sp.get('linked'):
        acc.count('obs:linked-cones')
    if cyclic:
        acc.count('obs:cyclic-model')
    for t in tags:
        acc.count('feat:' + t)
    if bad:
        first = True
        for what, where, e in bad[:4]:
            if what.startswith('solver-fails'):
                msg = ('%d solver failure report(s) with relevance enabled, none with relevance disabled: %s'
                       % (int(e), on['failures'][0][1][:160]))
            else:
                msg = ('%s differs between relevance-enabled twin and disabled twin / exact jacobian: rel err '
                       '%.3e (cond %.1e, %d systems pruned)' % (what, e, cond, ps))
            acc.viol(K('%s:%s' % (what, where)), msg, ccase, new_case=first)
            first = False
    else:
        acc.ok(fingerprint([tags, tree_solvers(sp), kind, mode, gbk, _plan_shape(plan)]),
               nontrivial=(ps + pv) > 0,
               sample={'seed': ccase['seed'], 'cell': [kind, mode, gbk], 'plan': _plan_shape(plan), 'tags': tags,
                       'solvers': tree_solvers(sp), 'systems_pruned': ps, 'vars_pruned': pv,
                       'linearize_calls_saved': saved, 'structurally_zero_blocks': zero_pairs})


# =====================================================================================================
# family `opt`
# =====================================================================================================
def _opt_closed_form(s, xa, xb):
    """pre/post/dead-end outputs and responses at the design (xa, xb): own NumPy algebra."""
    from omv.gen import c24_kit as K
    Tz, tz = K.opt_linear_map(s)
    x = np.concatenate([xa, xb])
    z = Tz @ x + tz
    ma = np.asarray(s['Aa']).shape[0]
    pq = np.asarray(s['P'], float) @ np.asarray(s['q'], float) + np.asarray(s['p0'], float)
    xt = np.concatenate([s['xt_a'], s['xt_b']])
    Q = np.asarray(s['Q'], float)
    f = 0.5 * s['rho'] * (x - xt) @ (x - xt) + 0.5 * z @ Q @ z + np.asarray(s['c']) @ z + np.asarray(s['w']) @ pq
    h = np.sin(f) + np.asarray(s['S'], float) @ z
    out = {'pq': pq, 'ua': z[:ma], 'ub': z[ma:], 'f': np.array([f]), 'h': h, 'h2': np.asarray(s['T'], float) @ h,
           'g1': np.asarray(s['C1'], float) @ z[:ma] + s['d1'],
           'g2': np.asarray(s['C2'], float) @ z[ma:] + s['d2'],
           'g3': np.asarray(s['C3'], float) @ z + np.asarray(s['E'], float) @ pq + s['d3'],
           'r0': np.asarray(s['R'], float) @ np.asarray(s['q'], float)}
    return out


def _run_opt_twin(s, norel):
    from omv.gen import c24_kit as K
    out = {'exc': None, 'failures': [], 'res': {}, 'calls': None, 'pruned': (0, 0), 'success': None, 'active': None}
    log = CallLog()
    prob = None
    with NoRelevance(norel), RelMon() as mon, SeedFailureMonitor() as fmon:
        try:
            prob = K.build_opt(s, hook=log)
            prob.setup(mode=s['mode'])
            r = prob.run_driver()
            out['success'] = bool(getattr(r, 'success', not r))
            out['failures'] = list(fmon.failures)
            names = ['xa', 'xb', 'xz', 'pq', 'ua', 'ub', 'f', 'g1', 'g2', 'g3', 'h', 'h2', 'r0']
            if s['with_dead']:
                names.append('dz')
            if s['cycle']:
                names.append('wb')
            for n in names:
                out['res'][n] = np.array(prob.get_val(n)).ravel()
            out['iters'] = int(prob.driver.iter_count)
            out['active'] = prob.model._relevance._active
            out['src2spec'] = {prob.model.get_source(v): v for v in ('xa', 'xb', 'xz', 'f', 'g1', 'g2', 'g3', 'r0')}
            out['pre'] = sorted(prob.model._pre_components or [])
            out['post'] = sorted(prob.model._post_components or [])
        except Exception as e:
            if os.environ.get('OMV_DEBUG'):
                import traceback
                traceback.print_exc()
            out['exc'] = e
        finally:
            out['pruned'] = (mon.sys_pruned, mon.var_pruned)
            out['calls'] = log
            if prob is not None:
                try:
                    prob.cleanup()
                except Exception:
                    pass
    return out


def _opt_tags(s):
    t = ['mode=' + s['mode'], 'root=' + s['root_ln'], 'sub=' + s['sub_ln']]
    if s['cycle']:
        t.append('cycle:%s+%s' % (s['cyc_nl'], s['cyc_ln']))
    for k in ('pre_opt_post', 'lin_g1', 'lin_g3', 'alias_g2', 'pdc', 'with_xz', 'with_r0', 'with_dead', 'bounds',
              'sparse_decl'):
        if s[k]:
            t.append(k)
    if s['g1_indices'] is not None:
        t.append('g1-indices')
    return t


def _case_opt(case, acc):
    from omv.gen import c24_kit as K
    nr = np.random.default_rng(case['seed'])
    s = K.finish_opt_spec(nr, K.gen_opt_spec(nr))
    ref = K.opt_reference(s)
    if ref is None:
        acc.skip('qp-infeasible')
        return
    if max(ref['kkt']) > 1e-9:
        acc.skip('oracle-kkt-not-certified')
        return
    tags = _opt_tags(s)

    def KEY(what):
        if what.startswith('SOLVERFAIL|'):
            w = what.split('|')
            return '%s:solver-fails-only-with-relevance:opt:%s' % (w[1], w[2])
        return 'opt:%s:%s' % (what, 'pre_opt_post' if s['pre_opt_post'] else 'no-grouping')
    on = _run_opt_twin(s, norel=False)
    off = _run_opt_twin(s, norel=True)
    if off['pruned'] != (0, 0) or (off['exc'] is None and off['active'] is not False):
        acc.skip('HARNESS-disabled-twin-still-prunes')
        return
    acc.count('obs:twin-off-verified')
    if isinstance(on['exc'], WorkBudgetExceeded):
        acc.skip('work-budget-exceeded (nested iterative solvers looping to maxiter)')
        return
    if off['exc'] is not None and on['exc'] is not None:
        acc.skip('both-twins-raise')
        if os.environ.get('OMV_DEBUG'):
            print('both raise', case, repr(on['exc'])[:300], file=sys.stderr)
        return
    if off['exc'] is not None:
        acc.skip('only-disabled-twin-raises')
        return
    if on['exc'] is not None:
        e = on['exc']
        acc.viol(KEY(exc_key('raises-only-with-relevance', e)), '%s: %s' % (type(e).__name__, str(e)[:300]), case)
        return
    if off['failures']:
        acc.skip('solver-nonconvergence')
        return
    if not off['success']:
        acc.skip('baseline-optimizer-failed')
        return
    xs = ref['x']
    xoff = np.concatenate([off['res']['xa'], off['res']['xb']])
    if _relerr(xoff, xs) > 5e-7:
        acc.skip('baseline-optimizer-inexact')
        return
    cf = _opt_closed_form(s, off['res']['xa'], off['res']['xb'])
    for n, v in cf.items():
        if _relerr(off['res'][n], v) > 1e-9:
            acc.skip('baseline-state-inconsistent')
            if os.environ.get('OMV_DEBUG'):
                print('baseline inconsistent', case, n, off['res'][n], v, file=sys.stderr)
            return
    acc.count('obs:opt-twins')
    acc.count('obs:opt-vs-exact-optimum')
    bad = []
    if on['failures']:
        kinds_f = sorted(set(f[0] for f in on['failures']))
        dep_o = {'f': {'xa', 'xb'}, 'g1': {'xa'}, 'g2': {'xb'}, 'g3': {'xa', 'xb'}, 'r0': set()}
        fc = _fail_class(on['failures'], on.get('src2spec', {}), dep_o)
        bad.append(('SOLVERFAIL|%s|%s' % (fc, '+'.join(kinds_f)),
            '%d solver failure report(s) with relevance enabled, none with relevance disabled: %s'
            % (len(on['failures']), on['failures'][0][1][:160])))
    if not on['success']:
        bad.append(('success-flag', 'optimizer reports failure only with relevance enabled'))
    xon = np.concatenate([on['res']['xa'], on['res']['xb']])
    e = _relerr(xon, xoff)
    e2 = _relerr(xon, xs)
    if e > TOL_OPT and e2 > TOL_OPT:
        bad.append(('design-vars', 'optimum differs: |on-off| %.2e, |on-exact| %.2e (off-exact %.1e)'
                    % (e, e2, _relerr(xoff, xs))))
    e = abs(on['res']['f'][0] - off['res']['f'][0]) / max(1.0, abs(off['res']['f'][0]))
    if e > TOL_OPT and abs(on['res']['f'][0] - ref['f']) / max(1.0, abs(ref['f'])) > TOL_OPT:
        bad.append(('objective', 'objective differs: rel %.2e' % e))
    e = _relerr(on['res']['xz'], off['res']['xz'])
    if e > TOL_OPT:
        bad.append(('no-effect-design-var', 'design variable without influence moved differently: %.2e' % e))
    # every output of the enabled twin must be the model's value at ITS final design (pre/post/dead-end included)
    cfon = _opt_closed_form(s, on['res']['xa'], on['res']['xb'])
    for n, v in cfon.items():
        e = _relerr(on['res'][n], v)
        if e > 1e-9:
            grp = {'pq': 'pre-component', 'h': 'post-component', 'h2': 'post-component', 'r0': 'pre-component'}.get(
                n, 'iterated-component')
            bad.append(('stale-output-%s' % grp, 'output %s is not the value at the final design: rel %.2e' % (n, e)))
    if s['with_dead']:
        dz = np.asarray(s['D1'], float) @ on['res']['xz'] + np.asarray(s['D2'], float) @ on['res']['ua']
        e = _relerr(on['res']['dz'], dz)
        if e > 1e-9:
            bad.append(('stale-output-dead-end', 'dead-end output dz not consistent with final design: %.2e' % e))
    ps, pv = on['pruned']
    acc.count('obs:systems-pruned', ps)
    acc.count('obs:vars-pruned', pv)
    saved = max(0, off['calls'].total('compute') - on['calls'].total('compute'))
    acc.count('obs:opt-compute-calls-saved', saved)
    acc.count('obs:linearize-calls-saved', max(0, off['calls'].total('linearize') - on['calls'].total('linearize')))
    if s['pre_opt_post']:
        acc.count('obs:opt-pre-post-grouping')
        if on['pre']:
            acc.count('obs:opt-pre-components', len(on['pre']))
        if on['post']:
            acc.count('obs:opt-post-components', len(on['post']))
    if s['lin_g1'] or s['lin_g3']:
        acc.count('obs:opt-linear-constraint')
    if s['cycle']:
        acc.count('obs:opt-cycle')
    acc.count('cell:opt-mode=%s' % s['mode'])
    acc.count('cell:opt-root-ln=%s' % s['root_ln'])
    acc.count('cell:opt-sub-ln=%s' % s['sub_ln'])
    if on['iters'] != off['iters']:
        acc.count('obs:opt-iteration-count-differs')
    if bad:
        first = True
        for what, msg in bad[:4]:
            acc.viol(KEY(what), msg + ' [%s]' % ','.join(tags), case, new_case=first)
            first = False
    else:
        acc.ok(fingerprint(tags), nontrivial=(ps + pv + saved) > 0,
               sample={'seed': case['seed'], 'kind': 'opt', 'tags': tags, 'systems_pruned': ps, 'vars_pruned': pv,
                       'compute_calls_saved': saved, 'iters': on['iters'], 'pre': on['pre'], 'post': on['post']})


# =====================================================================================================
# family `coupled`: implicit component whose residuals couple its outputs
# =====================================================================================================
def _run_coupled_twin(s, norel):
    from omv.gen import c24_kit as K
    out = {'exc': None, 'failures': [], 'res': {}, 'calls': None, 'pruned': (0, 0), 'active': None}
    log = CallLog()
    prob = None
    with NoRelevance(norel), RelMon() as mon, SeedFailureMonitor() as fmon:
        try:
            prob = K.build_coupled(s, hook=log)
            prob.setup(mode=s['mode'])
            prob.run_model()
            out['res']['values'] = np.concatenate([np.array(prob.get_val(n)).ravel() for n in ('y0', 'y1', 'y2', 'z')])
            out['res']['totals'] = np.array(prob.compute_totals(of=s['of'], wrt=s['wrt'], return_format='array'))
            out['failures'] = list(fmon.failures)
            out['active'] = prob.model._relevance._active
            out['src2spec'] = {prob.model.get_source(v): v for v in s['of'] + s['wrt']}
        except Exception as e:
            if os.environ.get('OMV_DEBUG'):
                import traceback
                traceback.print_exc()
            out['exc'] = e
        finally:
            out['pruned'] = (mon.sys_pruned, mon.var_pruned)
            out['calls'] = log
            if prob is not None:
                try:
                    prob.cleanup()
                except Exception:
                    pass
    return out


def _case_coupled(case, acc):
    from omv.gen import c24_kit as K
    nr = np.random.default_rng(case['seed'])
    s = K.gen_coupled_spec(nr)
    ref = K.coupled_reference(s)
    if ref['cond'] > 1e4:
        acc.skip('ill-conditioned')
        return
    tags = ['shape=' + s['shape'], 'root=' + s['root_ln'], 'grp=' + (s['grp_ln'] if s['in_group'] else '-'),
            'mode=' + s['mode'], 'declared' if s['declared'] else 'explicit', 'one-ivc' if s['one_ivc'] else 'two-ivc']

    fam = 'uncoupled-implicit' if s['shape'] == 'none' else 'coupled-implicit-outputs'

    def KEY(what):
        return '%s:%s:mode=%s' % (fam, what, s['mode'])
    on = _run_coupled_twin(s, norel=False)
    off = _run_coupled_twin(s, norel=True)
    if off['pruned'] != (0, 0) or (off['exc'] is None and off['active'] is not False):
        acc.skip('HARNESS-disabled-twin-still-prunes')
        return
    acc.count('obs:twin-off-verified')
    if isinstance(on['exc'], WorkBudgetExceeded):
        acc.skip('work-budget-exceeded (nested iterative solvers looping to maxiter)')
        return
    if off['exc'] is not None and on['exc'] is not None:
        acc.skip('both-twins-raise')
        return
    if off['exc'] is not None:
        acc.skip('only-disabled-twin-raises')
        return
    if on['exc'] is not None:
        e = on['exc']
        acc.viol(KEY(exc_key('raises-only-with-relevance', e)), '%s: %s' % (type(e).__name__, str(e)[:300]), case)
        return
    if off['failures']:
        acc.skip('solver-nonconvergence')
        return
    Jr = ref['J']
    vr = np.concatenate([ref['vals'][n] for n in ('y0', 'y1', 'y2', 'z')])
    if _relerr(off['res']['totals'], Jr) > TOL_REF or _relerr(off['res']['values'], vr) > 1e-9:
        acc.skip('baseline-differs-from-reference')
        return
    acc.count('obs:coupled-twins')
    bad = []
    if on['failures']:
        kinds_f = sorted(set(f[0] for f in on['failures']))
        # own dependency: nonzero blocks of the exact jacobian M^-1 N (and of C M^-1 N)
        sizes = {'y0': s['ny'][0], 'y1': s['ny'][1], 'y2': s['ny'][2], 'z': 2, 'x1': s['nx'][0], 'x2': s['nx'][1]}
        dep_c = {}
        r0 = 0
        for o in s['of']:
            c0 = 0
            dep_c[o] = set()
            for w in s['wrt']:
                if np.any(np.abs(Jr[r0:r0 + sizes[o], c0:c0 + sizes[w]]) > 1e-14):
                    dep_c[o].add(w)
                c0 += sizes[w]
            r0 += sizes[o]
        fc = _fail_class(on['failures'], on.get('src2spec', {}), dep_c)
        bad.append(('SOLVERFAIL|%s|%s' % (fc, '+'.join(kinds_f)),
                    '%d solver failure report(s) only with relevance enabled: %s'
                    % (len(on['failures']), on['failures'][0][1][:160])))
        if fc != 'dead-seed' and fam.startswith('uncoupled') and os.environ.get('OMV_DEBUG'):
            print('LIVE-SEED failure', fc, case, tags, on['failures'][:2], s['of'], s['wrt'], file=sys.stderr)
    if _relerr(on['res']['values'], off['res']['values']) > 1e-12:
        bad.append(('wrong-values', 'outputs differ between twins'))
    e1 = _relerr(on['res']['totals'], off['res']['totals'])
    e2 = _relerr(on['res']['totals'], Jr)
    if e1 > TOL_ITER or e2 > TOL_REF:
        bad.append(('wrong-totals', 'totals with relevance differ from disabled twin (%.2e) / exact M^-1 N (%.2e)'
                    % (e1, e2)))
    ps, pv = on['pruned']
    acc.count('obs:systems-pruned', ps)
    acc.count('obs:vars-pruned', pv)
    acc.count('cell:coupled-ln=%s' % s['root_ln'])
    acc.count('cell:coupled-mode=%s' % s['mode'])
    acc.count('cell:coupled-shape=%s' % s['shape'])
    if bad:
        first = True
        for what, msg in bad:
            if what.startswith('SOLVERFAIL'):
                w = what.split('|')
                if fam.startswith('uncoupled'):
                    key = '%s:solver-fails-only-with-relevance:uncoupled-implicit:%s' % (w[1], w[2])
                elif w[1] == 'dead-seed':
                    # every failing seed has no counterpart in this jacobian (e.g. a `random` pattern in which the
                    # seeded output does not depend on the design variable at all): the dead-seed mechanism, not
                    # the coupling of the outputs
                    key = 'dead-seed:solver-fails-only-with-relevance:coupled-implicit:%s' % w[2]
                else:
                    key = '%s:solver-fails-only-with-relevance:%s' % (fam, w[2])
            else:
                key = KEY(what)
            acc.viol(key, msg + ' [%s]' % ','.join(tags), case, new_case=first)
            first = False
    else:
        acc.ok(fingerprint(tags + [sorted(s['M']), sorted(s['N']), s['of'], s['wrt']]), nontrivial=(ps + pv) > 0,
               sample={'seed': case['seed'], 'kind': 'coupled', 'tags': tags, 'systems_pruned': ps,
                       'vars_pruned': pv})


# =====================================================================================================
# family `arrow`: driver total colorings (forward / reverse / bidirectional) over components with different
# relevance footprints (omv/gen/c24_arrow.py)
# =====================================================================================================
def _arrow_blocks(Jd, rows, cols):
    """assemble a dense matrix from a return_format='dict' result; rows/cols: lists of names"""
    return np.vstack([np.hstack([np.atleast_2d(np.asarray(Jd[r][c], dtype=float)) for c in cols]) for r in rows])


def _arrow_explicit_plan(s):
    """explicit of/wrt request that is NOT the driver's (no coloring; different relevance sets: the dead end and
    consumed intermediate outputs become responses).  Declared design-variable indices also apply to explicit wrt
    (documented behaviour); responses that carry indices are left out."""
    declared = {r['name']: r for r in s['resps']}
    of = []
    for c in s['comps']:
        if c['kind'] == 'par':
            continue
        o = c['out']
        if o in declared and declared[o]['idx'] is not None:
            continue
        if c['dead'] or o not in declared or c['kind'] == 'row' or len(of) < 2:
            of.append(o)
    # no dead seeds in this family: only design variables that some chosen output depends on, and vice versa
    from omv.gen import c24_arrow as A
    dep = A.arrow_deps(s)
    wrt = [d for d in s['dvs'] if any(d['name'] in dep[o] for o in of)]
    of = [o for o in of if any(d['name'] in dep[o] for d in wrt)]
    if len(wrt) > 1:
        wrt = wrt[1:] + wrt[:1]
    return [{'name': o, 'idx': None} for o in of], wrt


def _run_arrow_twin(s, norel):
    import contextlib
    import io
    from omv.gen import c24_arrow as A
    out = {'exc': None, 'failures': [], 'res': {}, 'calls': None, 'pruned': (0, 0), 'active': None, 'mon': None,
           'coloring': None, 'success': None}
    log = CallLog()
    prob = None
    with NoRelevance(norel), RelMon() as mon, SeedFailureMonitor() as fmon:
        try:
            colobj = None
            dkw = dict(num_full_jacs=s['num_full_jacs'], direct=s['direct'], show_summary=False, show_sparsity=False)
            if s['coloring'].startswith('fixed'):
                # a donor problem computes the coloring (same relevance setting as the twin); the twin proper uses
                # it as a fixed coloring (Coloring object / file)
                donor = A.build_arrow(s)
                donor.driver.declare_coloring(**dkw)
                donor.setup(mode=s['mode'])
                A.set_point(donor, s, 1)
                donor.run_model()
                donor.compute_totals()
                colobj = donor.driver._coloring_info.coloring
                if colobj is not None and s['coloring'] == 'fixed-file':
                    fname = os.path.abspath('c24_arrow_coloring_%d.pkl' % int(bool(norel)))
                    colobj.save(fname)
                    colobj = fname
                donor.cleanup()
            # the donor's solves are not part of the observation
            mon.cur, mon.pruned_ctx, mon.solves_ctx, mon.tj_runs, mon.primary = None, {}, {}, {}, {}
            pre = (mon.sys_pruned, mon.var_pruned)
            prob = A.build_arrow(s, hook=log)
            if colobj is None:
                prob.driver.declare_coloring(**dkw)
                out['coloring'] = 'dynamic'
            else:
                prob.driver.use_fixed_coloring(colobj)
                out['coloring'] = s['coloring']
            with contextlib.redirect_stdout(io.StringIO()):
                prob.setup(mode=s['mode'])
                A.set_point(prob, s, 0)
                names_r = [r['name'] for r in s['resps'] if r['kind'] == 'obj'] + \
                    [r['name'] for r in s['resps'] if r['kind'] == 'con']
                names_d = [d['name'] for d in s['dvs']]
                allout = [c['out'] for c in s['comps']]
                if s['opt']:
                    r = prob.run_driver()
                    out['success'] = bool(getattr(r, 'success', not r))
                    out['iters'] = int(prob.driver.iter_count)
                    for n in names_d + allout:
                        out['res']['val:' + n] = np.array(prob.get_val(n)).ravel()
                    out['res']['totals-at-optimum'] = _arrow_blocks(prob.compute_totals(return_format='dict'),
                                                                    names_r, names_d)
                else:
                    prob.run_model()
                    out['res']['values'] = np.concatenate([np.array(prob.get_val(n)).ravel() for n in allout])
                    out['res']['totals-problem'] = _arrow_blocks(prob.compute_totals(return_format='dict'),
                                                                 names_r, names_d)
                    out['res']['totals-driver'] = _arrow_blocks(prob.driver._compute_totals(return_format='dict'),
                                                                names_r, names_d)
                    eof, ewrt = _arrow_explicit_plan(s)
                    if eof:
                        Jd = prob.compute_totals(of=[o['name'] for o in eof], wrt=[w['name'] for w in ewrt],
                                                 return_format='dict')
                        out['res']['totals-explicit'] = _arrow_blocks(Jd, [o['name'] for o in eof],
                                                                      [w['name'] for w in ewrt])
                    A.set_point(prob, s, 1)
                    prob.run_model()
                    out['res']['totals-driver-2nd-point'] = _arrow_blocks(
                        prob.driver._compute_totals(return_format='dict'), names_r, names_d)
                    out['res']['values-after'] = np.concatenate([np.array(prob.get_val(n)).ravel() for n in allout])
            out['failures'] = [f for f in fmon.failures if not f[5]]
            out['sparsity-failures'] = sum(1 for f in fmon.failures if f[5])
            out['src2spec'] = {prob.model.get_source(n): n for n in allout + names_d}
            out['active'] = prob.model._relevance._active
            col = prob.driver._coloring_info.coloring
            out['colmodes'] = tuple(col.modes()) if col is not None else ()
            out['pruned'] = (mon.sys_pruned - pre[0], mon.var_pruned - pre[1])
        except Exception as e:
            if os.environ.get('OMV_DEBUG'):
                import traceback
                traceback.print_exc()
            out['exc'] = e
            out['pruned'] = (mon.sys_pruned, mon.var_pruned)
        finally:
            out['mon'] = {'pruned_ctx': dict(mon.pruned_ctx), 'solves_ctx': dict(mon.solves_ctx),
                          'tj_runs': dict(mon.tj_runs), 'primary': dict(mon.primary)}
            out['calls'] = log
            if prob is not None:
                try:
                    prob.cleanup()
                except Exception:
                    pass
    return out


def _case_arrow(case, acc):
    from omv.gen import c24_arrow as A
    rng = random.Random(case['seed'])
    s = A.gen_arrow_spec(rng, opt=bool(case.get('opt')))
    tags = A.arrow_tags(s)
    iterative = s['root_ln'] in ('lnbgs', 'lnbj', 'krylov') or \
        (s['groups'] and any(g in ('lnbgs', 'krylov') for g in s['grp_ln']))
    tol = TOL_ITER if iterative else TOL_DIRECT
    on = _run_arrow_twin(s, norel=False)
    off = _run_arrow_twin(s, norel=True)
    if off['pruned'] != (0, 0) or (off['exc'] is None and off['active'] is not False):
        acc.skip('HARNESS-disabled-twin-still-prunes')
        return
    acc.count('obs:twin-off-verified')
    runs = on['mon']['tj_runs']
    ckind = 'bidirectional' if runs.get('bidirectional') else \
        ('+'.join(sorted(k for k in runs if k.startswith('colored-'))) or 'none')

    def KEY(what):
        if what.startswith('SOLVERFAIL|'):
            w = what.split('|')
            return '%s:solver-fails-only-with-relevance:arrow:%s' % (w[1], w[2])
        return 'arrow:%s:coloring=%s:mode=%s' % (what, ckind, s['mode'])
    if isinstance(on['exc'], WorkBudgetExceeded):
        acc.skip('work-budget-exceeded (nested iterative solvers looping to maxiter)')
        return
    if off['exc'] is not None and on['exc'] is not None:
        acc.skip('both-twins-raise' if type(off['exc']) is type(on['exc']) else 'both-twins-raise-differently')
        if os.environ.get('OMV_DEBUG'):
            print('both raise', case, tags, repr(on['exc'])[:300], file=sys.stderr)
        return
    if off['exc'] is not None:
        acc.skip('only-disabled-twin-raises')
        return
    if on['exc'] is not None:
        e = on['exc']
        acc.viol(KEY(exc_key('raises-only-with-relevance', e)), '%s: %s [%s]' % (type(e).__name__, str(e)[:300],
                                                                               ','.join(tags)), case)
        return
    if off['failures']:
        acc.skip('solver-nonconvergence')
        return
    bad = []
    names_r = [r for r in s['resps'] if r['kind'] == 'obj'] + [r for r in s['resps'] if r['kind'] == 'con']
    if on['failures']:
        kinds_f = sorted(set(f[0] for f in on['failures']))
        dep_a = A.arrow_deps(s)
        fc = _fail_class(on['failures'], on.get('src2spec', {}), dep_a)
        bad.append(('SOLVERFAIL|%s|%s' % (fc, '+'.join(kinds_f)), '',
                    '%d solver failure report(s) with relevance enabled, none with relevance disabled: %s'
                    % (len(on['failures']), on['failures'][0][1][:160])))
    if s['opt']:
        if not off['success']:
            acc.skip('baseline-optimizer-failed')
            return

        def zof(res):
            return np.concatenate([res['val:' + d['name']][d['idx'] if d['idx'] is not None else
                                                           slice(None)] for d in s['dvs']])

        def final_point(res):
            pt = {k: np.array(v, float) for k, v in s['points'][0].items()}
            for d in s['dvs']:
                pt[d['name']] = res['val:' + d['name']]
            return pt
        zoff = zof(off['res'])
        # baseline: the disabled twin's final design must be THE optimum (KKT on the closed-form model; the problem
        # is convex with a strictly convex objective)
        kres, kviol = A.arrow_kkt(s, final_point(off['res']))
        if kres > ARROW_KKT or kviol > 1e-7:
            acc.skip('baseline-optimizer-inexact')
            if os.environ.get('OMV_DEBUG'):
                print('baseline optimum not certified', case, kres, kviol, file=sys.stderr)
            return
        # closed-form totals at each twin's own final design
        def own_ref(res):
            vals, jac = A.arrow_eval(s, final_point(res))
            return vals, A.arrow_totals(s, jac, names_r, s['dvs'])
        voff, Joff_ref = own_ref(off['res'])
        if _relerr(off['res']['totals-at-optimum'], Joff_ref) > TOL_REF or \
                any(_relerr(off['res']['val:' + c['out']], voff[c['out']]) > 1e-9 for c in s['comps']):
            acc.skip('baseline-differs-from-reference')
            return
        acc.count('obs:arrow-opt-twins')
        acc.count('obs:opt-vs-exact-optimum')
        zon = zof(on['res'])
        e = _relerr(zon, zoff)
        kon, von_ = A.arrow_kkt(s, final_point(on['res']))
        if e > ARROW_TOL_OPT:
            bad.append(('design-vars', '', 'final design differs from the disabled twin\'s (certified optimum): rel '
                        '%.2e; KKT residual on the closed-form model %.2e, constraint violation %.2e (%s)'
                        % (e, kon, von_, 'success' if on['success'] else 'optimizer reports failure')))
        elif not on['success']:
            # same point, different exit flag: termination criterion at round-off level, not a result difference
            acc.count('obs:arrow-opt-exit-flag-differs-at-same-optimum')
        von, Jon_ref = own_ref(on['res'])
        for c in s['comps']:
            e = _relerr(on['res']['val:' + c['out']], von[c['out']])
            if e > 1e-9:
                bad.append(('stale-output', '', 'output %s is not the value at the final design: rel %.2e'
                            % (c['out'], e)))
                break
        acc.count('obs:totals-on-vs-off')
        acc.count('obs:totals-vs-reference')
        e = _relerr(on['res']['totals-at-optimum'], Jon_ref)
        if e > TOL_REF:
            bad.append(('wrong-totals-at-optimum', '', 'totals at the final design differ from the closed form: '
                        'rel %.2e' % e))
        if on.get('iters') != off.get('iters'):
            acc.count('obs:opt-iteration-count-differs')
    else:
        refs = {}
        v0, jac0 = A.arrow_eval(s, s['points'][0])
        v1, jac1 = A.arrow_eval(s, s['points'][1])
        J0 = A.arrow_totals(s, jac0, names_r, s['dvs'])
        refs['totals-problem'] = J0
        refs['totals-driver'] = J0
        eof, ewrt = _arrow_explicit_plan(s)
        if eof:
            refs['totals-explicit'] = A.arrow_totals(s, jac0, eof, ewrt)
        refs['totals-driver-2nd-point'] = A.arrow_totals(s, jac1, names_r, s['dvs'])
        vref = np.concatenate([v0[c['out']] for c in s['comps']])
        vref1 = np.concatenate([v1[c['out']] for c in s['comps']])
        if _relerr(off['res']['values'], vref) > 1e-9 or _relerr(off['res']['values-after'], vref1) > 1e-9:
            acc.skip('baseline-differs-from-reference')
            return
        for lab, Jr in refs.items():
            if _relerr(off['res'][lab], Jr) > TOL_REF:
                acc.skip('baseline-differs-from-reference')
                if os.environ.get('OMV_DEBUG'):
                    print('baseline differs', case, tags, lab, _relerr(off['res'][lab], Jr), file=sys.stderr)
                return
        acc.count('obs:values-on-vs-off')
        if _relerr(on['res']['values'], off['res']['values']) > 1e-12 or \
                _relerr(on['res']['values-after'], off['res']['values-after']) > 1e-12:
            bad.append(('values', 'outputs', 'outputs differ between twins'))
        for lab, Jr in refs.items():
            Jon, Joff = on['res'][lab], off['res'][lab]
            acc.count('obs:totals-on-vs-off')
            acc.count('obs:totals-vs-reference')
            e1, e2 = _relerr(Jon, Joff), _relerr(Jon, Jr)
            if e1 > tol or e2 > TOL_REF:
                Ja = np.asarray(Jon, dtype=float)
                if Ja.shape == Jr.shape:
                    with np.errstate(invalid='ignore'):
                        D = ~np.isfinite(Ja) | (np.abs(Ja - Jr) > TOL_REF * max(1.0, np.max(np.abs(Jr))))
                    mask = Jr != 0.0
                    where = '+'.join(w for w, m in (('dependent-entries', np.any(D & mask)),
                                                    ('zero-entries', np.any(D & ~mask))) if m) or 'entries'
                else:
                    where = 'shape'
                bad.append(('wrong-' + lab, where, '%s differs between relevance-enabled twin and disabled twin '
                            '(rel %.2e) / closed-form jacobian (rel %.2e)' % (lab, e1, e2)))
    # ---- what was observed ---------------------------------------------------------------------------
    acc.count('obs:arrow-twins')
    ps, pv = on['pruned']
    acc.count('obs:systems-pruned', ps)
    acc.count('obs:vars-pruned', pv)
    acc.count('obs:linearize-calls-saved', max(0, off['calls'].total('linearize') - on['calls'].total('linearize')))
    m = on['mon']
    for k, v in m['tj_runs'].items():
        acc.count('obs:arrow-computes:%s' % k, v)
    for (k, pm), v in m['primary'].items():
        if k == 'bidirectional':
            acc.count('obs:bidir-primary=%s' % pm, v)
    for (k, md), v in m['solves_ctx'].items():
        acc.count('obs:arrow-solves:%s:%s' % (k, md), v)
    for (k, md), v in m['pruned_ctx'].items():
        acc.count('obs:arrow-systems-pruned:%s:%s-solve' % (k, md), v)
    if m['tj_runs'].get('bidirectional') != off['mon']['tj_runs'].get('bidirectional'):
        acc.count('obs:arrow-twins-colored-differently')
    if on['coloring'] != 'dynamic':
        acc.count('obs:arrow-fixed-coloring')
        acc.count('obs:arrow-%s' % on['coloring'])
    elif s['coloring'] != 'dynamic' or not on.get('colmodes'):
        acc.count('obs:arrow-coloring-deactivated')
    acc.count('cell:arrow-mode=%s' % s['mode'])
    acc.count('cell:arrow-root-ln=%s' % s['root_ln'])
    acc.count('cell:arrow-shape=%s' % s['shape'])
    acc.count('cell:arrow-%s' % ('direct' if s['direct'] else 'substitution'))
    if bad:
        first = True
        for what, where, msg in bad[:4]:
            acc.viol(KEY(what + (':' + where if where else '')), msg + ' [%s; %d systems pruned, colorings used: %s]'
                     % (','.join(tags), ps, sorted(m['tj_runs'])), case, new_case=first)
            first = False
    else:
        colored = any(k != 'uncolored' for k in m['tj_runs'])
        acc.ok(fingerprint(tags), nontrivial=(ps + pv) > 0 and colored,
               sample={'seed': case['seed'], 'kind': 'arrow', 'tags': tags, 'systems_pruned': ps,
                       'coloring_modes': list(on.get('colmodes', ())),
                       'computes': {k: v for k, v in m['tj_runs'].items()},
                       'pruned_by_solve_kind': {'%s:%s' % k: v for k, v in m['pruned_ctx'].items()}})


# =====================================================================================================
# family `hist`: histories on one Problem object (omv/gen/c24_hist.py)
# =====================================================================================================
HIST_TOL_VAL = 1e-9         # outputs: explicit formulas; cycle (|k m| < 0.5, cond <= 2) by NLBGS/Newton to a residual <= 1e-10
HIST_TOL_EXACT = 1e-9       # totals, direct / run-once stacks


def _run_hist_twin(s, steps, norel):
    import contextlib
    import io
    from omv.gen import c24_hist as H
    out = {'exc': None, 'steps': None, 'nfail': None, 'pruned': (0, 0), 'active': None, 'calls': None,
           'failures': []}
    log = CallLog()
    prob = None
    with NoRelevance(norel), RelMon() as mon, SeedFailureMonitor() as fmon:
        try:
            prob = H.build_hist(s, hook=log)
            with contextlib.redirect_stdout(io.StringIO()):
                prob.setup(mode=s['mode'])
                out['steps'], out['nfail'] = H.run_history(prob, s, steps, fmon)
            out['failures'] = list(fmon.failures)
            out['active'] = prob.model._relevance._active
            names = [c['out'] for c in s['comps']] + list(s['xs'])
            out['src2spec'] = {prob.model.get_source(n): n for n in names}
        except Exception as e:
            if os.environ.get('OMV_DEBUG'):
                import traceback
                traceback.print_exc()
            out['exc'] = e
        finally:
            out['pruned'] = (mon.sys_pruned, mon.var_pruned)
            out['calls'] = log
            if prob is not None:
                try:
                    prob.cleanup()
                except Exception:
                    pass
    return out


def _hist_units(s):
    from omv.gen import c24_hist as H
    u = set()
    for g in H.iter_groups(s):
        if g.get('approx'):
            u.add(('root-' if not g['name'] else 'group-') + g['approx']['method'])
    for c in s['comps']:
        if c['kind'] == 'el' and c['impl'] in ('fd', 'cs'):
            u.add('comp-' + ('fd+cs' if c.get('mix') else c['impl']))
    return sorted(u)


def _case_hist(case, acc):
    from omv.gen import c24_hist as H
    rng = random.Random(case['seed'])
    cls = case['cls']
    s = H.gen_hist_spec(rng, cls, opt=bool(case.get('opt')))
    steps, info = H.gen_history(rng, s)
    tags = H.hist_tags(s)
    units = _hist_units(s)
    iterative = any(g['ln'] in ('lnbgs', 'lnbj', 'krylov') for g in H.iter_groups(s))
    tol_pair = TOL_ITER if iterative else HIST_TOL_EXACT
    v0, _, _ = H.hist_eval(s, s['points'][0])
    if max(float(np.max(np.abs(v))) for v in v0.values()) > 100.0:
        acc.skip('ill-scaled')
        return
    on = _run_hist_twin(s, steps, norel=False)
    off = _run_hist_twin(s, steps, norel=True)
    if off['pruned'] != (0, 0) or (off['exc'] is None and off['active'] is not False):
        acc.skip('HARNESS-disabled-twin-still-prunes')
        return
    acc.count('obs:twin-off-verified')
    if isinstance(on['exc'], WorkBudgetExceeded):
        acc.skip('work-budget-exceeded (nested iterative solvers looping to maxiter)')
        return

    fault_ctx = ['before-fault']

    def KEY(what):
        if cls == 'seq':
            # mechanism = which level approximates (component partials / group semi-totals / root totals); the
            # methods are in the message (tags)
            lev = sorted(set(u.split('-')[0] for u in units))
            return 'seq:%s:approx=%s:mode=%s' % (what, '+'.join(lev) or 'none', s['mode'])
        return 'errpath:%s:%s:mode=%s' % (what, fault_ctx[0], s['mode'])
    if off['exc'] is not None and on['exc'] is not None:
        acc.skip('both-twins-raise' if type(off['exc']) is type(on['exc']) else 'both-twins-raise-differently')
        if os.environ.get('OMV_DEBUG'):
            print('both raise (setup)', case, tags, repr(on['exc'])[:300], file=sys.stderr)
        return
    if off['exc'] is not None:
        acc.skip('only-disabled-twin-raises')
        return
    if on['exc'] is not None:
        e = on['exc']
        acc.viol(KEY(exc_key('raises-only-with-relevance', e)), '%s: %s [%s]' % (type(e).__name__, str(e)[:300],
                                                                               ','.join(tags)), case)
        return
    bad = []            # (what, message)
    pt = {'on': {k: np.array(v, float) for k, v in s['points'][0].items()},
          'off': {k: np.array(v, float) for k, v in s['points'][0].items()}}
    stop = None
    n_tot = 0
    after_fault = False
    dep = H.hist_deps(s)
    judged_steps = 0
    for i, st in enumerate(steps):
        a, b = on['steps'][i], off['steps'][i]
        op = st['op']
        ea = a['exc'] if isinstance(a, dict) and 'exc' in a else None
        eb = b['exc'] if isinstance(b, dict) and 'exc' in b else None
        if st.get('fault'):
            fault_ctx[0] = 'fault=%s:in=%s' % (info['site'], info['api'])
            after_fault = True
            acc.count('cell:errpath-site=%s' % info['site'])
            acc.count('cell:errpath-api=%s' % info['api'])
            acc.count('cell:errpath-seedpos=%s' % info['seedpos'])
            acc.count('cell:errpath-exc=%s' % info['exc'])
            acc.count('cell:errpath-mode=%s' % s['mode'])
            if isinstance(ea, WorkBudgetExceeded) or isinstance(eb, WorkBudgetExceeded):
                stop = 'work-budget-exceeded (nested iterative solvers looping to maxiter)'
                break
            if ea is not None and eb is not None:
                acc.count('obs:errpath-fault-raised-in-both-twins')
                if info['site'] in ('ln-maxiter', 'jacvec', 'solve_linear', 'apply_linear') and \
                        info['api'] != 'run_driver':
                    acc.count('obs:errpath-fault-inside-per-seed-solve')
            elif eb is not None:
                # the enabled twin never reached the n-th call of the hook (it makes fewer calls): no fault there
                acc.count('obs:errpath-fault-only-in-disabled-twin')
            elif ea is not None:
                bad.append((exc_key('fault-step-raises-only-with-relevance', ea),
                            'the step with the injected fault raises only with relevance enabled: %r' % (ea,)))
                stop = 'viol'
                break
            else:
                acc.count('obs:errpath-fault-not-triggered')
                if op == 'run_driver':
                    for tw, r in (('on', a), ('off', b)):
                        for x, v in r['driver']['x'].items():
                            pt[tw][x] = np.array(v, float)
            continue
        if isinstance(ea, WorkBudgetExceeded) or isinstance(eb, WorkBudgetExceeded):
            stop = 'work-budget-exceeded (nested iterative solvers looping to maxiter)'
            break
        if ea is not None and eb is not None:
            stop = 'both-twins-raise' if type(ea) is type(eb) else 'both-twins-raise-differently'
            if os.environ.get('OMV_DEBUG'):
                print('both raise', case, tags, st, repr(ea)[:300], file=sys.stderr)
            break
        if eb is not None:
            stop = 'only-disabled-twin-raises'
            break
        if ea is not None:
            bad.append((exc_key('raises-only-with-relevance:%s' % (st.get('api') or op), ea),
                        'step %d (%s) raises only with relevance enabled: %s: %s' % (i, st.get('api') or op,
                                                                                   type(ea).__name__, str(ea)[:200])))
            stop = 'viol'
            break
        if a is None and b is None and op in ('values', 'totals', 'run_driver'):
            break
        if off['nfail'][i]:
            stop = 'solver-nonconvergence'
            break
        step_fc = None
        if on['nfail'][i]:
            fl = on['failures'][sum(on['nfail'][:i]):sum(on['nfail'][:i + 1])]
            fc = _fail_class(fl, on.get('src2spec', {}), dep)
            if fc.startswith('live-seed'):
                step_fc = (fc, '+'.join(sorted(set(f[0] for f in fl))))
            bad.append(('SOLVERFAIL|%s|%s' % (fc, '+'.join(sorted(set(f[0] for f in fl)))),
                        '%d solver failure report(s) in step %d (%s) with relevance enabled, none with relevance '
                        'disabled: %s' % (len(fl), i, st.get('api') or op, fl[0][1][:160])))
        if op == 'point':
            for tw in ('on', 'off'):
                for n, v in s['points'][st['k']].items():
                    if st['only'] is None or n in st['only']:
                        pt[tw][n] = np.array(v, float)
        elif op == 'values':
            ref_on, _, _ = H.hist_eval(s, pt['on'])
            ref_off, _, _ = H.hist_eval(s, pt['off'])
            eoff = max(_relerr(b['values'][n], ref_off[n]) for n in ref_off)
            if eoff > HIST_TOL_VAL:
                stop = 'baseline-differs-from-reference'
                if os.environ.get('OMV_DEBUG'):
                    print('baseline values differ', case, tags, i, eoff, file=sys.stderr)
                break
            acc.count('obs:values-on-vs-off')
            judged_steps += 1
            if after_fault:
                acc.count('obs:errpath-values-after-fault')
            worst = [(n, _relerr(a['values'][n], ref_on[n])) for n in ref_on]
            worst = [(n, e) for n, e in worst if e > HIST_TOL_VAL]
            if worst and s.get('cycle'):
                # the cycle is solved to an ABSOLUTE residual <= 1e-10 (cond <= 2), from a start that differs between
                # the twins after a fault; variables downstream of it carry that error times the downstream gains (safety factor 25)
                worst = [(n, e) for n, e in worst
                         if np.max(np.abs(np.asarray(a['values'][n], float) - np.asarray(ref_on[n], float))) > 5e-9]
            if worst:
                n, e = max(worst, key=lambda t: t[1])
                bad.append(('stale-outputs-after-run_model', 'step %d: %d variable(s) are not the model\'s values at '
                            'the current point (worst %s: rel %.2e); the disabled twin is right'
                            % (i, len(worst), n, e)))
        elif op == 'totals':
            n_tot += 1
            wn = [w['name'] for w in st['wrt']]
            _, jon, nzon = H.hist_eval(s, pt['on'], total_wrt=wn)
            _, joff, nzoff = H.hist_eval(s, pt['off'], total_wrt=wn)
            Jr_on = H.hist_totals(s, jon, st['of'], st['wrt'])
            Jr_off = H.hist_totals(s, joff, st['of'], st['wrt'])
            # per-row allowance for the round-off of finite differences (noise bound of the reference model)
            rows = np.concatenate([np.full(len(o['idx']) if o['idx'] is not None else s['sizes'][o['name']],
                                           max(nzon[o['name']], nzoff[o['name']])) for o in st['of']])[:, None]
            Ja, Jb = np.asarray(a['J'], float), np.asarray(b['J'], float)
            if Ja.shape != Jr_on.shape or Jb.shape != Jr_off.shape:
                if Jb.shape != Jr_off.shape:
                    stop = 'baseline-differs-from-reference'
                    break
                bad.append(('wrong-totals-%s:shape' % st['api'], 'step %d: shape %s, expected %s'
                            % (i, Ja.shape, Jr_on.shape)))
                continue
            with np.errstate(invalid='ignore'):
                Eoff = np.abs(Jb - Jr_off) - 10.0 * rows
            if not np.all(np.isfinite(Jb)) or np.max(Eoff) > TOL_REF * max(1.0, np.max(np.abs(Jr_off))):
                stop = 'baseline-differs-from-reference'
                if os.environ.get('OMV_DEBUG'):
                    print('baseline totals differ', case, tags, i, st['api'], np.max(Eoff), file=sys.stderr)
                break
            acc.count('obs:totals-on-vs-off')
            acc.count('obs:totals-vs-reference')
            judged_steps += 1
            if cls == 'seq':
                acc.count('obs:seq-requests')
                acc.count('cell:seq-api=%s' % st['api'])
            elif after_fault:
                acc.count('obs:errpath-totals-after-fault')
            with np.errstate(invalid='ignore'):
                Eon = np.abs(Ja - Jr_on) - 10.0 * rows
                Epair = np.abs(Ja - Jb) - 20.0 * rows
            same_pt = all(np.array_equal(pt['on'][x], pt['off'][x]) for x in s['xs'])
            wrong = (not np.all(np.isfinite(Ja))) or np.max(Eon) > TOL_REF * max(1.0, np.max(np.abs(Jr_on))) or \
                (same_pt and np.max(Epair) > tol_pair * max(1.0, np.max(np.abs(Jb))))
            if wrong:
                with np.errstate(invalid='ignore'):
                    D = ~np.isfinite(Ja) | (Eon > TOL_REF * max(1.0, np.max(np.abs(Jr_on))))
                mask = Jr_on != 0.0
                where = '+'.join(w for w, mm in (('dependent-entries', np.any(D & mask)),
                                                 ('zero-entries', np.any(D & ~mask))) if mm) or 'entries'
                pos = 'first-request' if n_tot == 1 else 'later-request'
                what = 'wrong-totals-%s:%s' % (st['api'], where)
                if cls == 'seq':
                    what += ':' + pos
                if step_fc is not None:
                    # a solver reported (real, not round-off level) non-convergence for a live seed in this very
                    # step, only in the enabled twin: the wrong totals are the consequence of that failure (a failed
                    # gmres leaves its last iterate in the solution vector) - keyed under the failure class
                    what = 'AFTERFAIL|%s|%s' % step_fc
                bad.append((what, 'step %d: totals (%s, of=%s wrt=%s) differ from the closed form (max abs %.3e) / '
                            'the disabled twin (max abs %.3e)' % (i, st['api'], [o['name'] for o in st['of']], wn,
                                                                  float(np.nanmax(np.abs(Ja - Jr_on))),
                                                                  float(np.nanmax(np.abs(Ja - Jb))))))
        elif op == 'run_driver':
            da, db = a['driver'], b['driver']
            for tw, r in (('on', da), ('off', db)):
                for x, v in r['x'].items():
                    pt[tw][x] = np.array(v, float)

            def stationarity(p):
                _, jx, _ = H.hist_eval(s, p, exact_all=True)
                obj = [r for r in s['resps'] if r['kind'] == 'obj'][0]
                g = H.hist_totals(s, jx, [obj], s['dvs'])[0]
                z = np.concatenate([np.asarray(p[d['name']])[d['idx'] if d['idx'] is not None else slice(None)]
                                    for d in s['dvs']])
                free = ~(((z >= 3.0 - 1e-7) & (g < 0)) | ((z <= -3.0 + 1e-7) & (g > 0)))
                return float(np.max(np.abs(g[free]))) if free.any() else 0.0, z
            goff, zoff = stationarity(pt['off'])
            if not db['success'] or goff > 1e-5:
                stop = 'baseline-optimizer-not-certified'
                if os.environ.get('OMV_DEBUG'):
                    print('baseline optimizer', case, db['success'], goff, db['iters'], file=sys.stderr)
                break
            acc.count('obs:hist-opt-twins')
            acc.count('obs:opt-vs-exact-optimum')
            judged_steps += 1
            gon, zon = stationarity(pt['on'])
            if _relerr(zon, zoff) > 1e-4:
                if gon <= 1e-4:
                    acc.count('obs:hist-opt-other-stationary-point')
                else:
                    bad.append(('optimizer-result', 'step %d: final design differs from the disabled twin\'s (a '
                                'stationary point of the closed-form model): rel %.2e; gradient of the closed-form '
                                'objective there %.2e (%s)' % (i, _relerr(zon, zoff), gon,
                                                               'success' if da['success'] else 'reports failure')))
    # ---- what was observed ---------------------------------------------------------------------------
    if stop and stop != 'viol' and not bad:
        if judged_steps == 0:
            acc.skip(stop)
            return
        # the history was cut short (by something that is not this property's matter); the steps before are judged
        acc.count('obs:hist-truncated:%s' % stop.split(' ')[0])
    acc.count('obs:hist-twins')
    acc.count('obs:hist-%s-twins' % cls)
    ps, pv = on['pruned']
    acc.count('obs:systems-pruned', ps)
    acc.count('obs:vars-pruned', pv)
    acc.count('obs:linearize-calls-saved', max(0, off['calls'].total('linearize') - on['calls'].total('linearize')))
    acc.count('cell:hist-mode=%s' % s['mode'])
    acc.count('cell:hist-root-ln=%s' % s['root']['ln'])
    for u in units:
        acc.count('obs:hist-approx-unit:%s' % u)
    for g in H.iter_groups(s):
        if g.get('approx') and g['name']:
            acc.count('cell:hist-approx-group-depth=%d' % (2 if g['name'] == 'gaa' else 1))
    if s['cycle']:
        acc.count('obs:hist-cycle')
    if cls == 'seq':
        acc.count('cell:seq-first=%s' % info['first'])
    else:
        acc.count('cell:errpath-moved=%s' % info['moved'])
        if info.get('warmup'):
            acc.count('obs:errpath-fault-not-in-first-derivative-computation')
    if bad:
        first = True
        for what, msg in bad[:4]:
            if what.startswith('SOLVERFAIL|'):
                w = what.split('|')
                key = '%s:solver-fails-only-with-relevance:hist-%s:%s' % (w[1], cls, w[2])
            elif what.startswith('AFTERFAIL|'):
                w = what.split('|')
                key = '%s:wrong-totals-after-solver-failure:hist-%s:%s' % (w[1], cls, w[2])
            else:
                key = KEY(what)
            acc.viol(key, msg + ' [%s; %s; %d systems pruned]' % (','.join(tags), json.dumps(info, sort_keys=True), ps),
                     case, new_case=first)
            first = False
    else:
        acc.ok(fingerprint([tags, sorted(info.items()), [(st['op'], st.get('api')) for st in steps]]),
               nontrivial=(ps + pv) > 0 and judged_steps > 0,
               sample={'seed': case['seed'], 'kind': 'hist', 'cls': cls, 'tags': tags, 'info': info,
                       'steps': [st.get('api') or st['op'] for st in steps], 'systems_pruned': ps})


# =====================================================================================================
# thorough: twins in a subprocess with the documented switch OPENMDAO_NO_RELEVANCE=1
# =====================================================================================================
def _case_child(case, acc):
    _case_child_totals(case, acc)
    _case_child_hist(case, acc)


def _case_child_totals(case, acc):
    """The in-process disabled twin and a process started with OPENMDAO_NO_RELEVANCE=1 must give the same totals
    (validates the harness' way of disabling relevance against the documented switch) and the enabled twin must
    agree with both."""
    rng = random.Random(case['seed'])
    for k in range(3):
        seed = case['seed'] + k
        spec = _gen_totals_spec(random.Random(seed))
        mode = rng.choice(['fwd', 'rev'])
        plan = {'api': 'explicit', 'of': list(spec['of']), 'wrt': list(spec['wrt'])}
        env = dict(os.environ, OPENMDAO_NO_RELEVANCE='1')
        try:
            p = subprocess.run([sys.executable, '-m', 'omv.kit.c24_child'], input=json.dumps(
                {'seed': seed, 'mode': mode}).encode(), env=env, stdout=subprocess.PIPE, stderr=subprocess.PIPE,
                timeout=600)
            line = [ln for ln in p.stdout.decode().splitlines() if ln.startswith('C24-CHILD ')]
            if not line:
                acc.skip('child-failed')
                continue
            r = json.loads(line[-1][len('C24-CHILD '):])
        except subprocess.TimeoutExpired:
            acc.skip('child-timeout')
            continue
        on = _run_totals_twin(spec, mode, plan, norel=False)
        off = _run_totals_twin(spec, mode, plan, norel=True)
        if r.get('exc') or on['exc'] is not None or off['exc'] is not None:
            if bool(r.get('exc')) == (on['exc'] is not None) == (off['exc'] is not None):
                acc.skip('both-twins-raise')
            elif on['exc'] is not None and not r.get('exc'):
                acc.viol('child:raises-only-with-relevance', repr(on['exc'])[:300], dict(case, sub=k))
            else:
                acc.skip('child-exception-mismatch')
            continue
        if r['failures'] or on['failures'] or off['failures']:
            acc.skip('solver-nonconvergence')
            continue
        if not r['env_flag'] or r['pruned'] != [0, 0]:
            acc.skip('HARNESS-child-not-disabled')
            continue
        acc.count('obs:child-twins')
        Jc = np.array(r['totals'])
        tol = TOL_ITER if _iterative(spec) else TOL_DIRECT
        if _relerr(off['res']['totals'], Jc) > tol:
            # the two ways of disabling relevance disagree: the in-process twin is not a valid baseline
            acc.skip('HARNESS-inprocess-twin-differs-from-env-switch')
            continue
        e = _relerr(on['res']['totals'], Jc)
        if e > tol:
            acc.viol('child:wrong-totals:mode=%s' % mode,
                     'totals with relevance differ from a process run with OPENMDAO_NO_RELEVANCE=1: %.3e' % e,
                     dict(case, sub=k))
        else:
            acc.ok(fingerprint(['child', tree_solvers(spec), mode]), nontrivial=sum(on['pruned']) > 0)


def _case_child_hist(case, acc):
    """A whole history of family `hist` in a process started with OPENMDAO_NO_RELEVANCE=1: the in-process disabled twin
    must agree with it step by step (validates the harness' way of disabling relevance for histories too), and so must
    the enabled twin."""
    from omv.gen import c24_hist as H
    for k, cls in enumerate(('errpath', 'seq')):
        seed = case['seed'] + 10 + k
        rng = random.Random(seed)
        s = H.gen_hist_spec(rng, cls, opt=False)
        steps, info = H.gen_history(rng, s)
        env = dict(os.environ, OPENMDAO_NO_RELEVANCE='1')
        try:
            p = subprocess.run([sys.executable, '-m', 'omv.kit.c24_child'], input=json.dumps(
                {'kind': 'hist', 'cls': cls, 'seed': seed, 'opt': False}).encode(), env=env,
                stdout=subprocess.PIPE, stderr=subprocess.PIPE, timeout=600)
            line = [ln for ln in p.stdout.decode().splitlines() if ln.startswith('C24-CHILD ')]
            if not line:
                acc.skip('child-failed')
                continue
            r = json.loads(line[-1][len('C24-CHILD '):])
        except subprocess.TimeoutExpired:
            acc.skip('child-timeout')
            continue
        on = _run_hist_twin(s, steps, norel=False)
        off = _run_hist_twin(s, steps, norel=True)
        if r.get('exc') or on['exc'] is not None or off['exc'] is not None:
            acc.skip('both-twins-raise' if (r.get('exc') and on['exc'] is not None) else 'child-exception-mismatch')
            continue
        if not r['env_flag'] or r['pruned'] != [0, 0]:
            acc.skip('HARNESS-child-not-disabled')
            continue
        if any(r['nfail']) or any(on['nfail']) or any(off['nfail']):
            pass        # failure reports of the armed linear solver belong to the fault step
        iterative = any(g['ln'] in ('lnbgs', 'lnbj', 'krylov') for g in H.iter_groups(s))
        fd = bool(_hist_units(s))
        tol = 1e-6 if fd else (TOL_ITER if iterative else HIST_TOL_EXACT)

        def diff(a, c):
            """largest relative difference between an in-process step result and the child's (inf: different kinds
            of result, e.g. exception vs value)"""
            if a is None and c is None:
                return 0.0
            if not isinstance(a, dict) or not isinstance(c, dict):
                return np.inf
            if 'exc' in a or 'exc' in c:
                return 0.0 if ('exc' in a and 'exc' in c and type(a['exc']).__name__ == c['exc']) else np.inf
            if 'values' in a and 'values' in c:
                return max(_relerr(a['values'][n], np.asarray(c['values'][n])) for n in a['values'])
            if 'J' in a and 'J' in c:
                return _relerr(a['J'], np.asarray(c['J']))
            if 'driver' in a and 'driver' in c:
                return max(_relerr(a['driver']['x'][n], np.asarray(c['driver']['x'][n])) for n in a['driver']['x'])
            return np.inf
        cs = r['steps'] + [None] * (len(steps) - len(r['steps']))
        doff = [diff(off['steps'][i], cs[i]) for i in range(len(steps)) if steps[i]['op'] != 'disarm']
        if max(doff) > tol:
            acc.skip('HARNESS-inprocess-twin-differs-from-env-switch')
            continue
        acc.count('obs:child-hist-twins')
        don = [(i, diff(on['steps'][i], cs[i])) for i in range(len(steps)) if steps[i]['op'] != 'disarm']
        worst = max(don, key=lambda t: t[1])
        if worst[1] > tol:
            st = steps[worst[0]]
            acc.viol('child:hist-%s:%s' % (cls, st.get('api') or st['op']),
                     'step %d (%s) with relevance differs from a process run with OPENMDAO_NO_RELEVANCE=1: %.3e %r'
                     % (worst[0], st.get('api') or st['op'], worst[1], info), dict(case, sub='hist-%d' % k))
        else:
            acc.ok(fingerprint(['child-hist', H.hist_tags(s), sorted(info.items())]), nontrivial=sum(on['pruned']) > 0)


def coverage_extra(tier, agg):
    c = agg['counters']
    return {'pruning_observed': {'systems_pruned': c.get('obs:systems-pruned', 0),
                                 'variables_pruned': c.get('obs:vars-pruned', 0),
                                 'linearize_calls_saved': c.get('obs:linearize-calls-saved', 0),
                                 'optimizer_compute_calls_saved': c.get('obs:opt-compute-calls-saved', 0)}}
