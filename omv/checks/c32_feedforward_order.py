"""C32 - Feed-forward models are fully solved by one ordered pass.

Monitor: execution-trace checker + residual invariant.  Harness components log the entry of every
evaluation (compute / solve_nonlinear / apply_nonlinear) to an event log.  The specs are built with the
children of every group added in a RANDOM order and `auto_order=True` on every group.

Acyclic specs (default run-once solvers):
  * trace order - the first execution of a component must come after the first execution of each of its
    data predecessors; the predecessor relation is taken from the SPEC (connections), never from
    OpenMDAO's graph;
  * exactly one execution per component in one run_model;
  * residuals - after ONE run_model, `run_apply_nonlinear` must leave ||residuals|| <= 1e-12 * scale;
  * values - all outputs equal R's (omv/ref/flatmodel.py) converged values.
Partially cyclic specs (iterative solvers on the cyclic groups): per group, with the group-level dependency
graph and its strongly connected components computed by the harness (own Tarjan in omv/gen/models.py):
  * members of one SCC appear in the trace in their DECLARED relative order (order of add_subsystem);
  * an SCC never starts before an SCC it depends on.
"""
import random

import numpy as np

from omv.core import fingerprint
from omv.kit.gmon import FailureMonitor, exc_key, tree_solvers

PROPERTY = 'C32'
LEVEL = 'exploration'
TECHNIQUE = ('runtime monitoring: execution-trace checker (component-entry event log vs the spec dependency graph '
             'and its SCCs) + residual/value invariant after one run_model')
RULE = ('random model specs (DAGs and partially cyclic graphs, nested groups, connect/promote wiring, auto-IVC '
        'parameters) whose subsystems are added in random order with auto_order=True; distinct = fingerprint of '
        '(tree with declared order, edges, solver types); non-trivial = the declared order of at least one group '
        'violates a data dependency (so OpenMDAO really had to reorder)')
MIN_JUDGED = {'quick': 300, 'thorough': 6000}
REQUIRED_COUNTERS = ['obs:trace-edge-checks', 'obs:residual-checks', 'obs:value-checks', 'obs:reordered-groups',
                     'obs:scc-order-checks', 'obs:acyclic-models', 'obs:cyclic-models', 'obs:nested-groups',
                     'obs:judged-after-second-setup', 'obs:judged-after-connections-added-between-setups']
ASSUMPTIONS = ['the predecessor relation is the spec connection graph; R (omv/ref/flatmodel.py) gives the exact values',
               'cyclic specs: only ordering is judged (values are C01/C04 territory), and only when setup succeeds',
               'Problem option allow_post_setup_reorder is left at its default (True)']
SHARD_TIMEOUT = {'quick': 900, 'thorough': 3600}

OPTS_ACYCLIC = dict(p_shuffle=1.0, solver_mix='runonce', p_cycle=0.0, p_index=0.4, p_units=0.3, p_param=0.4,
                    p_matfree=0.0, p_sparse=0.2, p_group=0.7, max_comps=7, min_comps=3, p_implicit=0.25)
OPTS_CYCLIC = dict(p_shuffle=1.0, p_cycle=1.0, p_index=0.3, p_units=0.3, p_param=0.3, p_matfree=0.0,
                   p_sparse=0.2, p_group=0.7, max_comps=7, min_comps=3, p_implicit=0.25)


def shards(tier, seed):
    n = 16 if tier == 'quick' else 64
    per = 40 if tier == 'quick' else 200
    return [{'seed': seed * 100000 + i * 1000, 'n': per} for i in range(n)]


def run_shard(shard, acc):
    for k in range(shard['n']):
        run_case({'seed': shard['seed'] + k}, acc)


def _groups(spec):
    """yield (gpath tuple, node) for every group node of the tree."""
    out = []

    def walk(node, gpath):
        out.append((gpath, node))
        for ch in node['children']:
            if 'group' in ch and 'comp' not in ch:
                walk(ch, gpath + (ch['group'],))
    walk(spec['tree'], ())
    return out


def _child_of(path, gpath):
    """name of the child of group `gpath` that contains the component with absolute path `path`."""
    p = path.split('.')
    if tuple(p[:len(gpath)]) != gpath or len(p) <= len(gpath):
        return None
    return p[len(gpath)]


def run_case(case, acc):
    from omv.gen import models as G
    from omv.ref.flatmodel import FlatModel
    rng = random.Random(case['seed'])
    cyclic_case = rng.random() < 0.4
    spec = G.gen_spec(rng, dict(OPTS_CYCLIC if cyclic_case else OPTS_ACYCLIC))
    if rng.random() < 0.15:
        # control: declared order kept as generated (already consistent); auto_order still on
        pass
    edges, owner = G.comp_graph(spec)
    kinds = {c['name']: c['kind'] for c in spec['comps']}
    cedges = sorted((a, b) for a, b in edges if kinds[a] != 'ivc' and kinds[b] != 'ivc' and a != b)
    all_edges = sorted((a, b) for a, b in edges if a != b)
    names = [c['name'] for c in spec['comps'] if c['kind'] != 'ivc']
    comp_sccs = G.sccs(names, set(cedges))
    really_cyclic = any(len(s) > 1 for s in comp_sccs)
    runonce = not cyclic_case      # every group has the default run-once solvers (and the spec is acyclic)
    trace = []

    def hook(kind, cname, inputs):
        if kind in ('compute', 'solve_nonlinear', 'apply_nonlinear'):
            trace.append((kind, cname))

    fp = fingerprint([spec['tree'], cedges, tree_solvers(spec)])
    with FailureMonitor() as fmon:
        try:
            resetup = case['seed'] % 3 == 0
            # history with a connection set that grows between the two setups: some explicit connect() calls are
            # only issued after the first setup/run (the groups persist, anything they remember about the first
            # setup's connections must not be used for the second ordering)
            grow = resetup and case['seed'] % 2 == 0
            defer = None
            if grow:
                cand = [cn['tgt'] for cn in spec['conns'] if cn['how'] == 'connect']
                rg = random.Random(case['seed'] * 31 + 7)
                defer = set(t for t in cand if rg.random() < 0.5) or set(cand[:1])
                if not defer:
                    grow = False
            prob = G.build(spec, hook=hook, defer=defer)
            if resetup:
                # history: the judged run is the one after a SECOND setup of the same problem object (the
                # groups persist across setups; positions recorded by the first reordering must not be taken
                # for the declared ones)
                try:
                    prob.setup()
                    prob.final_setup()
                    prob.run_model()
                except Exception:
                    if not grow:
                        raise
                    # the partially connected model of the first phase is not the judged one
                    acc.count('obs:first-phase-of-growing-history-raised')
                for thunk in prob._omv_deferred:
                    thunk()
                fmon.clear()
                prob.setup()
                prob.final_setup()
                acc.count('obs:judged-after-second-setup')
                if grow:
                    acc.count('obs:judged-after-connections-added-between-setups')
            else:
                prob.setup()
                prob.final_setup()
            del trace[:]
            prob.run_model()
        except Exception as e:
            acc.viol(exc_key('setup-or-run:%s' % ('cyclic' if really_cyclic else 'acyclic'), e),
                     '%s: %s' % (type(e).__name__, str(e)[:300]), case)
            return
        run_trace = list(trace)
        failures = list(fmon.failures)
        bad = []
        first = {}
        nexec = {}
        for i, (kind, c) in enumerate(run_trace):
            first.setdefault(c, i)
            nexec[c] = nexec.get(c, 0) + 1
        missing = [n for n in names if n not in first]
        if missing:
            bad.append(('component-never-executed', 'components %s never executed in run_model' % missing))
        # ---- per group: declared order, observed order, SCC rules -------------------------------------
        reordered = 0
        nested = 0
        for gpath, node in _groups(spec):
            if gpath:
                nested += 1
            declared = [ch['comp'] if 'comp' in ch else ch['group'] for ch in node['children']]
            # skip ivc children (never traced)
            mem = {}
            for n in names:
                ch = _child_of(spec['path'][n], gpath)
                if ch is not None:
                    mem.setdefault(ch, []).append(n)
            kids = [d for d in declared if d in mem]
            if len(kids) < 2:
                continue
            # the group-level dependency graph includes the independent-variable components (a child that
            # only supplies an IndepVarComp output to another child is still its predecessor, and can close a
            # cycle between two children); only children with traced components can be observed
            ge_all = set()
            for a, b in all_edges:
                ca, cb = _child_of(spec['path'][a], gpath), _child_of(spec['path'][b], gpath)
                if ca is not None and cb is not None and ca != cb:
                    ge_all.add((ca, cb))
            gs_all = G.sccs(declared, ge_all)
            scc_of = {}
            for k, s in enumerate(gs_all):
                for m in s:
                    scc_of[m] = k
            gs = [[m for m in s if m in mem] for s in gs_all]
            ge = set((a, b) for a, b in ge_all if a in mem and b in mem)
            dpos = {k: i for i, k in enumerate(kids)}
            if any(scc_of[a] != scc_of[b] and dpos[a] > dpos[b] for a, b in ge):
                reordered += 1
            if missing:
                continue
            fpos = {k: min(first[m] for m in mem[k]) for k in kids}
            lpos = {k: max(i for i, (_, c) in enumerate(run_trace) if c in mem[k]) for k in kids}
            for s in gs:
                if len(s) > 1:
                    acc.count('obs:scc-order-checks')
                    obs = sorted(s, key=lambda k: fpos[k])
                    dec = sorted(s, key=lambda k: dpos[k])
                    if obs != dec:
                        bad.append(('cycle-members-reordered', 'group %r: members of a cycle run in order %s, '
                                    'declared %s' % ('.'.join(gpath), obs, dec)))
            for a, b in sorted(ge):
                if scc_of[a] != scc_of[b]:
                    acc.count('obs:scc-order-checks')
                    if not fpos[a] < fpos[b]:
                        bad.append(('successor-scc-before-predecessor', 'group %r: child %s (depends on %s) starts '
                                    'first' % ('.'.join(gpath), b, a)))
                    elif runonce and not lpos[a] < fpos[b]:
                        bad.append(('predecessor-child-not-finished', 'group %r: child %s starts before its '
                                    'predecessor %s has finished' % ('.'.join(gpath), b, a)))
        if reordered:
            acc.count('obs:reordered-groups', reordered)
        if nested:
            acc.count('obs:nested-groups')
        if runonce and not missing:
            acc.count('obs:acyclic-models')
            # ---- component-level trace order (spec edges) ----------------------------------------------
            for a, b in cedges:
                acc.count('obs:trace-edge-checks')
                if not first[a] < first[b]:
                    bad.append(('executed-before-predecessor', '%s executed before its data predecessor %s' % (b, a)))
            multi = sorted(c for c, n in nexec.items() if n != 1)
            if multi:
                bad.append(('executed-more-than-once', 'components %s executed %s times in one run-once pass' %
                            (multi, [nexec[c] for c in multi])))
            # ---- residuals after one pass ----------------------------------------------------------------
            try:
                prob.model.run_apply_nonlinear()
                res = prob.model._residuals.asarray()
                out = prob.model._outputs.asarray()
                acc.count('obs:residual-checks')
                scale = max(1.0, float(np.max(np.abs(out), initial=0.0)))
                rn = float(np.max(np.abs(res), initial=0.0))
                if not rn <= 1e-12 * scale:
                    bad.append(('nonzero-residual-after-one-pass', 'max |residual| = %.3e after one run_model' % rn))
                # ---- values vs R ---------------------------------------------------------------------------
                fm = FlatModel(spec)
                p = fm.p0()
                u, conv = fm.solve(p)
                if conv:
                    worst, wname = 0.0, None
                    for n in fm.state_names:
                        got = np.asarray(prob.get_val(G.abs_name(spec, n)), dtype=float).ravel()
                        ref = fm.value(n, u, p).ravel()
                        e = float(np.max(np.abs(got - ref) / np.maximum(1.0, np.abs(ref)), initial=0.0)) \
                            if got.shape == ref.shape else np.inf
                        if not e <= worst:
                            worst, wname = e, n
                    acc.count('obs:value-checks')
                    if not worst <= 1e-9:
                        bad.append(('values-differ-from-reference', 'output %s differs from the reference by %.3e '
                                    '(rel) after one run_model' % (wname, worst)))
            except Exception as e:
                bad.append((exc_key('post-run', e), '%s: %s' % (type(e).__name__, str(e)[:200])))
        elif really_cyclic:
            acc.count('obs:cyclic-models')
        else:
            acc.count('obs:acyclic-with-iterative-solvers')
    try:
        prob.cleanup()
    except Exception:
        pass
    if really_cyclic and failures and not bad:
        # ordering was judged; a non-converged loop does not matter for ordering
        pass
    tag = 'cyclic' if really_cyclic else ('acyclic' if runonce else 'acyclic-iterative')
    if resetup:
        tag += ':after-second-setup'
    if grow:
        tag += ':connections-added-between-setups'
    if bad:
        firstv = True
        seen = set()
        for k, what in bad:
            if k in seen:
                continue
            seen.add(k)
            acc.viol('%s:%s' % (tag, k), what, case, new_case=firstv)
            firstv = False
    else:
        acc.ok(fp, nontrivial=reordered > 0,
               sample={'seed': case['seed'], 'kind': tag, 'tree': spec['tree'], 'edges': cedges,
                       'trace': [c for _, c in run_trace][:30]} if case['seed'] % 97 == 0 else None)
