"""C14 - ExecComp evaluates its expressions and their exact partials.

Monitor: for every generated ExecComp (random well-defined expressions over the function table read
from `openmdao.components.exec_comp._expr_dict` at run time x shapes x options) a one-component problem
is built (IndepVarComp -> ExecComp) and taken through a history of 2-5 steps (set inputs, run_model,
compute_totals), optionally setting the problem up again in between; at every step what the component
exposes (outputs before and after the linearization, its own linearized sub-jacobians, total
derivatives in fwd or rev mode) is compared with the very same expression strings evaluated by the
harness in a plain NumPy namespace and with the complex-step derivative of that harness evaluation.
The first linearization - where ExecComp detects the sparsity of its jacobian and caches a coloring -
is at a structurally special point (exact zeros in some/all entries, ones = ExecComp's default values,
equal entries, integers) followed by generic points, or at a generic point with the special one later.
"""
import numpy as np

from omv.core import fingerprint
from omv.gen import exprs as X
from omv.gen.compkit import conv, UNIT_CONV, dense_subjac, worst, EPS

PROPERTY = 'C14'
LEVEL = 'exploration'
TECHNIQUE = 'runtime monitoring: ExecComp outputs / partials / totals vs harness NumPy evaluation + complex step'
RULE = ('random expression trees (depth <= 4) over every callable of exec_comp._expr_dict plus operators, '
        'indexing, transposes and broadcasting, 1-3 expressions per component over <= 4 inputs of shape '
        '(), (1,), (n<=6,), (r,c<=4) incl. column/row matrices; user functions registered with '
        'ExecComp.register; options has_diag_partials x do_coloring x shape_by_conn/copy_shape x '
        'component shape/units x per-variable units (source in other units) x constants x '
        'force_alloc_complex x fwd/rev; plus a sweep with one expression per table function; every case is a '
        'history of 2-5 (set inputs, run_model, compute_totals) steps over 2-4 points: 70% start or continue '
        'at a special point (zeros in random entries / one whole variable / everywhere, all ones, equal '
        'entries, small integers, mixtures) with 1-3 generic points after (or one before) it, 30% come back '
        'to an earlier point, 20% call setup again before a later step (half of them switching fwd<->rev); '
        'every point is resampled until every function argument is >= 0.2 away from singularities, kinks '
        'and branch switches; distinct = distinct (expressions, declarations, options, classes of the '
        'visited points); non-trivial = the case was built, ran and was compared at >= 1 point')
LEVEL_TEXT = ('sampled expressions/options; every table function is exercised alone and inside compound '
              'expressions; no exhaustiveness claim')
ASSUMPTIONS = [
    'NumPy/SciPy evaluation of the expression string is the reference; abs/arctan2 mean their '
    'complex-step-safe continuations',
    'tolerance = 4 x spread of the harness result when each intermediate is perturbed by 1e-13 relative '
    '(4 draws) + 64 ulp of the largest entry: derived from the conditioning of the expression, not tuned',
    'ExecComp detects the sparsity of its jacobian once, at the first linearization after a setup, from 3 '
    'sweeps at inputs perturbed by 1e-9 relative (exact zeros: 1e-9 absolute) with tolerance 1e-25 of the '
    'largest entry (documented declare_coloring defaults).  With dynamic coloring the derivatives at a '
    'point are therefore judged only if every nonzero of the reference jacobian there is >= 1e-20 of the '
    'largest entry of the reference jacobian summed over 3 harness-drawn points of that 1e-9 neighbourhood '
    'of every first-linearization point so far (entries that vanish identically near that point - branch '
    'switches of min/max/abs - or only to third order, e.g. d(x**4)/dx at x = 0, are not demanded)',
    'a complex-step linearization may leave Re f(x+ih) in the outputs and complex-step derivatives have '
    'an O(h^2) truncation error: outputs re-read after compute_totals and all derivatives get an absolute '
    'slack of 1e-70 (h = 1e-40, higher derivatives <= 1e10); it matters only where the exact value is 0',
    'log1p means the accurate one (numpy.log1p of the real part); numpy\'s complex log1p, log|1+z|, has an '
    'absolute error of one roundoff',
    'an output used by a later expression of the same ExecComp is not generated (setup rejects it)',
]
MIN_JUDGED = {'quick': 300, 'thorough': 5000}
REQUIRED_COUNTERS = ['obs:output', 'obs:partials', 'obs:totals-fwd', 'obs:totals-rev', 'obs:coloring-used',
                     'obs:later-point', 'obs:output-after-linearize', 'obs:first-lin-at-zeros',
                     'obs:first-lin-at-ones', 'obs:later-point-at-zeros', 'obs:resetup', 'obs:revisit',
                     'obs:dynamic-sparsity-later-point-judged',
                     'obs:dynamic-sparsity-later-point-judged-after-first-lin-at-zeros', 'cell:diag', 'cell:nocoloring', 'cell:shape_by_conn',
                     'cell:copy_shape', 'cell:units', 'cell:comp-units', 'cell:comp-shape', 'cell:constants',
                     'cell:multi-expr', 'cell:force_alloc_complex', 'obs:table-sweep']
SHARD_TIMEOUT = {'quick': 900, 'thorough': 3600}

NOISE_DRAWS = 4
H = 1e-40
# a complex-step linearization may leave Re f(x + ih) = f(x) - h^2 f''(x)/2 in the outputs, and the
# complex-step derivative Im f(x + ih)/h = f'(x) - h^2 f'''(x)/6 has a truncation error (visible only where
# the exact value is 0, e.g. d(log1p(x)**2)/dx at x = 0): h = 1e-40 (the documented
# ExecComp.complex_stepsize, also the harness' step) and |f''|, |f'''| <= 1e10 for the guarded expressions
# (magnitudes <= 1e4, arguments >= 0.2 away from singularities)
CS_RESIDUE = 1e-70


def register_extras():
    """Register the harness' user functions (idempotent per process)."""
    import openmdao.api as om
    from openmdao.components.exec_comp import _expr_dict
    for name, f in X.REGISTERED.items():
        if name not in _expr_dict:
            om.ExecComp.register(name, f, complex_safe=True)


def table_names():
    from openmdao.components.exec_comp import _expr_dict
    out = []
    for k, v in _expr_dict.items():
        if k in ('np', 'numpy'):
            continue
        out.append(k)
    return sorted(out)


# ----------------------------------------------------------------------------------------------
# spec generation
# ----------------------------------------------------------------------------------------------
LEN_UNITS = ['m', 'cm', 'km', 's', 'N', 'kg']


def _decl_shape(shape):
    return (1,) if tuple(shape) == () else tuple(shape)


SPECIAL_KINDS = ['zeros-some', 'zeros-some', 'zeros-some', 'zeros-var', 'zeros-all', 'ones', 'equal',
                 'integers', 'mixed']
# what ExecComp documents for its internal sparsity detection (declare_coloring defaults): inputs are
# perturbed by 1e-9 relative (exact zeros by 1e-9 absolute) and entries below 1e-25 of the largest one
# are structural zeros
SPARSITY_PERTURB = 1e-9
SPARSITY_TOL = 1e-25
SPARSITY_MARGIN = 1e5     # the harness' own neighbourhood draws differ from ExecComp's by far less


def _draw_point(rng, spec, kind):
    """One candidate input point of the given kind (component units)."""
    names = list(spec['inputs'])
    zvar = names[int(rng.integers(len(names)))]
    common = round(float(rng.uniform(-2.0, 2.0)), 6)
    pt = {}
    for n, meta in spec['inputs'].items():
        shp = tuple(meta['shape'])
        g = np.round(rng.uniform(-2.0, 2.0, size=shp), 6)
        if kind == 'zeros-all':
            v = np.zeros(shp)
        elif kind == 'zeros-var':
            v = np.zeros(shp) if n == zvar else g
        elif kind == 'zeros-some':
            v = np.where(rng.random(size=shp) < 0.5, 0.0, g)
        elif kind == 'ones':
            v = np.ones(shp)
        elif kind == 'equal':
            v = np.full(shp, common if rng.random() < 0.5 else round(float(rng.uniform(-2.0, 2.0)), 6))
        elif kind == 'integers':
            v = rng.integers(-2, 3, size=shp).astype(float)
        elif kind == 'mixed':
            sel = rng.integers(0, 4, size=shp)
            v = np.choose(sel, [np.zeros(shp), np.ones(shp), -np.ones(shp), g])
        else:
            v = g
        pt[n] = np.asarray(v, dtype=float).reshape(shp)
    if kind == 'zeros-some' and not any(np.any(v == 0.0) for v in pt.values()):
        v = pt[zvar].reshape(-1).copy()
        v[int(rng.integers(v.size))] = 0.0
        pt[zvar] = v.reshape(pt[zvar].shape)
    return pt


def _sample_point(rng, spec, kind, tries=60):
    """A point of the given kind at which every function argument is inside its guarded domain."""
    if kind in ('zeros-all', 'ones'):
        tries = 1
    elif kind != 'generic':
        tries = 12
    for _t in range(tries):
        pt = _draw_point(rng, spec, kind)
        try:
            X.evaluate(spec['exprs'], _env(spec, pt, None), mode='guarded')
        except X.DomainGuard:
            continue
        except (ValueError, TypeError, IndexError, ZeroDivisionError, OverflowError) as e:
            raise X.HarnessError('generated expression is malformed: %s: %r' % (spec['exprs'], e))
        return {k: v.tolist() for k, v in pt.items()}
    return None


def _sample_points(rng, spec, npoints=2, tries=60):
    pts = []
    for _ in range(npoints):
        pt = _sample_point(rng, spec, 'generic', tries)
        if pt is None:
            return None
        pts.append(pt)
    return pts


def make_plan(rng, spec):
    """The history of the case: which points are visited in which order, where the model is set up
    again.  The first linearization (where ExecComp detects its sparsity) is at a structurally special
    point (exact zeros, ones = ExecComp's default values, equal entries, integers) or at a generic one
    with the special point visited later.  Returns False when no generic point exists."""
    r = rng.random()
    if r < 0.3:
        kinds = ['generic', 'generic']
    else:
        ngen = int(X_pick(rng, [1, 1, 2, 3]))
        if rng.random() < 0.7:
            kinds = ['special'] + ['generic'] * ngen
        else:
            kinds = ['generic', 'special'] + ['generic'] * (ngen - 1)
    points, labels = [], []
    for k in kinds:
        pt = None
        if k == 'special':
            for _ in range(3):
                k = str(X_pick(rng, SPECIAL_KINDS))
                pt = _sample_point(rng, spec, k)
                if pt is not None:
                    break
        if pt is None:
            k = 'generic'
            pt = _sample_point(rng, spec, 'generic')
            if pt is None:
                return False
        points.append(pt)
        labels.append(k)
    steps = [{'pt': i} for i in range(len(points))]
    if rng.random() < 0.3:
        steps.append({'pt': int(rng.integers(len(points) - 1))})      # come back to an earlier point
    if rng.random() < 0.2:
        st = steps[int(rng.integers(1, len(steps)))]
        st['resetup'] = True
        if rng.random() < 0.5:
            st['mode'] = 'rev' if spec['setup']['mode'] == 'fwd' else 'fwd'
    spec['points'] = points
    spec['kinds'] = labels
    spec['steps'] = steps
    return True


def _env(spec, pt, step):
    """Namespace of variable values for one evaluation (component units); step=(name, k) adds i*H."""
    env = {}
    for n, meta in spec['inputs'].items():
        shp = tuple(meta['shape'])
        v = np.array(pt[n], dtype=float).reshape(shp)
        if step is not None:
            v = v.astype(complex)
            if step[0] == n:
                v.reshape(-1)[step[1]] += 1j * H
        if shp == ():
            v = complex(v) if step is not None else float(v)
        env[n] = v
    for n, val in spec['consts'].items():
        env[n] = float(val) if np.ndim(val) == 0 else np.array(val, dtype=float)
    return env


def make_spec(rng, names, origin='expr', fn=None, depth=None):
    """Generate one ExecComp description (JSON-able)."""
    diag = origin == 'expr' and rng.random() < 0.25
    arr_shape = None
    if diag:
        arr_shape = tuple(X_pick(rng, [(2,), (3,), (4,), (5,), (2, 2), (2, 3), (3, 1)]))
    g = X.ExprGen(rng, names, diag=diag, arr_shape=arr_shape)
    exprs, outputs = [], {}
    if origin == 'expr':
        nex = int(X_pick(rng, [1, 1, 2, 2, 3]))
        for i in range(nex):
            depth_i = int(X_pick(rng, [1, 2, 2, 3, 3, 4])) if depth is None else depth
            if diag:
                shape = X_pick(rng, [arr_shape, arr_shape, arr_shape, arr_shape, (1,), (1,), ()])
                if tuple(shape) in ((1,), ()) and rng.random() < 0.5:
                    # scalar output that does not depend on array inputs
                    g.no_array = True
            else:
                shape = X_pick(rng, [(1,), (1,), (), (2,), (3,), (4,), (5,), (6,), (2, 2), (2, 3), (3, 2), (3, 1), (1, 4)])
            e = g.expr(tuple(shape), depth_i)
            g.no_array = False
            name = 'y%d' % i
            exprs.append('%s = %s' % (name, e))
            outputs[name] = list(_decl_shape(shape))
    else:
        e, shape = single_function_expr(rng, g, fn)
        exprs.append('y0 = %s' % e)
        outputs['y0'] = list(_decl_shape(shape))
    if not g.inputs:
        # constant-only expression: give it an input so that there is something to differentiate
        v = g.var((1,))
        exprs[0] = exprs[0] + ' + 0.5*%s' % v
    spec = {'origin': origin if fn is None else 'fn=%s' % fn, 'exprs': exprs, 'outputs': outputs,
            'funcs': sorted(g.used), 'features': sorted(g.features),
            'consts': {k: (v if np.ndim(v) == 0 else np.asarray(v).tolist()) for k, v in g.consts.items()}}
    # ---- declarations / options
    opts = {'has_diag_partials': bool(diag), 'do_coloring': bool(rng.random() < 0.75),
            'shape': None, 'units': None}
    shapes = [tuple(s) for s in g.inputs.values()] + [tuple(s) for s in outputs.values()]
    same_shape = len(set(shapes)) == 1 and shapes[0] != () and not g.consts
    r = rng.random()
    comp_shape = same_shape and r < 0.3
    if comp_shape:
        opts['shape'] = list(shapes[0])
    comp_units = rng.random() < 0.12
    if comp_units:
        opts['units'] = str(X_pick(rng, ['m', 's', 'N']))
    inputs = {}
    sbc_names = []
    for n, shp in g.inputs.items():
        meta = {'shape': list(shp), 'units': None, 'src_units': None}
        if comp_shape:
            meta['decl'] = 'compshape'
        elif shp == ():
            meta['decl'] = 'shape'
        elif shp == (1,):
            meta['decl'] = str(X_pick(rng, ['default', 'default', 'val', 'shape', 'sbc']))
        else:
            meta['decl'] = str(X_pick(rng, ['val', 'val', 'shape', 'sbc']))
        if meta['decl'] == 'sbc':
            sbc_names.append(n)
        if comp_units:
            meta['units'] = opts['units']
        elif rng.random() < 0.3:
            meta['units'] = str(X_pick(rng, LEN_UNITS))
        if meta['units'] is not None:
            cands = [a for (a, b) in UNIT_CONV if b == meta['units'] and UNIT_CONV[(a, b)][1] == 0.0]
            meta['src_units'] = str(X_pick(rng, cands)) if cands and rng.random() < 0.6 else meta['units']
        inputs[n] = meta
    spec['inputs'] = inputs
    out_decl = {}
    for n, shp in outputs.items():
        shp = tuple(shp)
        d = {'units': None}
        if comp_shape:
            d['decl'] = 'compshape'
        else:
            cands = ['val', 'shape']
            if shp == (1,):
                cands += ['default', 'default']
            same = [i for i, s in g.inputs.items() if _decl_shape(s) == shp and s != ()]
            if same:
                cands += ['copy_shape', 'copy_shape']
            d['decl'] = str(X_pick(rng, cands))
            if d['decl'] == 'copy_shape':
                d['copy_from'] = str(X_pick(rng, same))
        if comp_units:
            d['units'] = opts['units']
        elif rng.random() < 0.2:
            d['units'] = str(X_pick(rng, LEN_UNITS))
        out_decl[n] = d
    spec['out_decl'] = out_decl
    spec['opts'] = opts
    spec['setup'] = {'force_alloc_complex': bool(rng.random() < 0.4),
                     'mode': str(X_pick(rng, ['fwd', 'rev']))}
    if not make_plan(rng, spec):
        return None
    return spec


def X_pick(rng, seq):
    return seq[int(rng.integers(len(seq)))]


def single_function_expr(rng, g, fn):
    """One expression whose only function is `fn` (the table sweep)."""
    n = int(X_pick(rng, [2, 3, 4]))
    vec = (n,)
    shape = X_pick(rng, [(1,), vec, vec, (2, 2)])
    g.used.add(fn)
    if fn in X.UNARY_FREE:
        return '%s(%s)' % (fn, g.var(shape)), shape
    if fn in X.UNARY_RESTRICTED:
        a = g.var(shape)
        return '%s(%s)' % (fn, g._adapt(fn, a)), shape
    if fn in ('maximum', 'minimum', 'fmax', 'fmin'):
        return '%s(%s, %s)' % (fn, g.new_input(shape), g.new_input(shape)), shape
    if fn == 'power':
        return 'power((%s)**2 + 0.5, %s)' % (g.new_input(shape), g.new_input(shape)), shape
    if fn in ('arctan2', 'omv_hyp'):
        return '%s(%s, %s)' % (fn, g.new_input(shape), g.new_input(shape)), shape
    if fn in ('isinf', 'isnan'):
        a = g.new_input(shape)
        return '(2.0 - %s(%s)) * %s' % (fn, a, a), shape
    if fn in ('sum', 'prod', 'max', 'min'):
        shp = X_pick(rng, [vec, (2, 2), (2, 3)])
        return '%s(%s) * %s' % (fn, g.new_input(shp), g.new_input((1,))), (1,)
    if fn in ('dot', 'matmul'):
        k = rng.random()
        if k < 0.4:
            return '%s(%s, %s)' % (fn, g.new_input((n, 3)), g.new_input((3,))), (n,)
        if k < 0.7:
            return '%s(%s, %s)' % (fn, g.new_input((2, n)), g.new_input((n, 2))), (2, 2)
        return '%s(%s, %s)' % (fn, g.new_input(vec), g.new_input(vec)), (1,)
    if fn == 'inner':
        return 'inner(%s, %s)' % (g.new_input(vec), g.new_input(vec)), (1,)
    if fn == 'outer':
        return 'outer(%s, %s)' % (g.new_input((2,)), g.new_input((3,))), (2, 3)
    if fn == 'kron':
        return 'kron(%s, %s)' % (g.new_input((2,)), g.new_input((3,))), (6,)
    if fn == 'tensordot':
        return 'tensordot(%s, %s)' % (g.new_input((2, 3)), g.new_input((2, 3))), (1,)
    if fn == 'diff':
        return 'diff(%s)' % g.new_input((n + 1,)), (n,)
    if fn == 'linspace':
        return 'linspace(%s[0], %s[1], %d)' % (g.new_input((2,)), 'x0', n), (n,)
    if fn == 'arange':
        return 'arange(1, %d) * %s' % (n + 1, g.new_input(vec)), vec
    if fn in ('ones', 'zeros'):
        return '(%s(%d) + 0.5) * %s' % (fn, n, g.new_input(vec)), vec
    if fn in ('e', 'pi'):
        return '%s * %s' % (fn, g.new_input(shape)), shape
    raise KeyError(fn)


# ----------------------------------------------------------------------------------------------
# reference
# ----------------------------------------------------------------------------------------------
def _shaped(spec, vals):
    return {o: np.broadcast_to(np.asarray(vals[o]), tuple(spec['outputs'][o])).copy() for o in spec['outputs']}


def _cs_jac(spec, pt, mode='plain', amp=0.0, rng=None):
    """Complex-step Jacobian of the harness evaluation of the expressions at pt."""
    onames = list(spec['outputs'])
    inames = list(spec['inputs'])
    sizes = {n: int(np.prod(spec['inputs'][n]['shape'], dtype=int)) for n in inames}
    osz = {o: int(np.prod(spec['outputs'][o], dtype=int)) for o in onames}
    J = {(o, i): np.zeros((osz[o], sizes[i])) for o in onames for i in inames}
    for i in inames:
        for k in range(sizes[i]):
            res = _shaped(spec, X.evaluate(spec['exprs'], _env(spec, pt, (i, k)), mode, amp, rng))
            for o in onames:
                J[o, i][:, k] = np.imag(res[o]).reshape(-1) / H
    return J


def reference(spec, pt, seed):
    """Outputs, complex-step Jacobian and their noise spreads, all in component units."""
    exprs = spec['exprs']
    onames = list(spec['outputs'])
    plain = _shaped(spec, X.evaluate(exprs, _env(spec, pt, None), 'plain'))
    guard = _shaped(spec, X.evaluate(exprs, _env(spec, pt, None), 'guarded'))
    for o in onames:
        if np.iscomplexobj(plain[o]) or not np.allclose(plain[o], guard[o], rtol=1e-14, atol=0):
            raise X.HarnessError('guarded evaluation disagrees with plain evaluation for %s' % exprs)
    J0 = _cs_jac(spec, pt)
    rng = np.random.default_rng(seed)
    Do = {o: np.zeros(plain[o].shape) for o in onames}
    DJ = {k: np.zeros(v.shape) for k, v in J0.items()}
    for _ in range(NOISE_DRAWS):
        res = _shaped(spec, X.evaluate(exprs, _env(spec, pt, None), 'noisy', X.AMP, rng))
        for o in onames:
            Do[o] = np.maximum(Do[o], np.abs(np.real(res[o]) - plain[o]))
        Jn = _cs_jac(spec, pt, 'noisy', X.AMP, rng)
        for k in J0:
            DJ[k] = np.maximum(DJ[k], np.abs(Jn[k] - J0[k]))
    return plain, J0, Do, DJ


def required_nonzeros(spec, pt, seed):
    """Entries of the Jacobian that do not vanish in the 1e-9 neighbourhood of pt by a wide margin:
    what a sparsity detection at pt (ExecComp: 3 sweeps at inputs perturbed by 1e-9 relative, exact zeros
    by 1e-9 absolute, tolerance 1e-25 of the largest accumulated entry) has to find.  The harness uses
    its own draws and keeps a factor 1e5 between its threshold and the documented tolerance."""
    rng = np.random.default_rng(seed)
    M = None
    for _ in range(3):
        q = {}
        for n in spec['inputs']:
            v = np.array(pt[n], dtype=float)
            off = np.where(v == 0.0, 1.0, v) * SPARSITY_PERTURB
            q[n] = v + off * rng.random(size=v.shape)
        J = _cs_jac(spec, q)
        M = {k: np.abs(v) for k, v in J.items()} if M is None else {k: M[k] + np.abs(J[k]) for k in M}
    mx = max([float(v.max()) for v in M.values() if v.size] or [0.0])
    if not np.isfinite(mx) or mx == 0.0:
        return {k: np.zeros(v.shape, dtype=bool) for k, v in M.items()}
    return {k: v > SPARSITY_TOL * SPARSITY_MARGIN * mx for k, v in M.items()}


def point_class(pt):
    """Structural class of an input point, by its values (used in mechanism keys and counters)."""
    vals = [np.asarray(v, dtype=float).reshape(-1) for v in pt.values()]
    allv = np.concatenate(vals) if vals else np.zeros(0)
    if allv.size and np.any(allv == 0.0):
        return 'zeros'
    if allv.size and np.all(allv == 1.0):
        return 'ones'
    if allv.size and np.all(allv == np.round(allv)):
        return 'integers'
    if any(v.size > 1 for v in vals) and all(np.all(v == v[0]) for v in vals if v.size):
        return 'equal'
    return 'generic'


def _tol(ref, spread, extra_scale=0.0):
    scale = max(float(np.max(np.abs(ref))) if np.size(ref) else 0.0, extra_scale)
    return 4.0 * spread + 64 * EPS * max(scale, 1e-300)


# ----------------------------------------------------------------------------------------------
# build and judge
# ----------------------------------------------------------------------------------------------
def build(spec):
    import openmdao.api as om
    prob = om.Problem()
    ivc = prob.model.add_subsystem('ivc', om.IndepVarComp())
    kwargs = {}
    for n, m in spec['inputs'].items():
        shp = tuple(m['shape'])
        ivc.add_output(n, val=np.ones(shp), units=m['src_units'])
        d = m['decl']
        if d == 'default':
            kw = None
        elif d == 'val':
            kw = {'val': np.ones(shp)}
        elif d == 'shape':
            kw = {'shape': shp}
        elif d == 'sbc':
            kw = {'shape_by_conn': True}
        else:  # compshape
            kw = None
        if m['units'] is not None and spec['opts']['units'] is None:
            kw = dict(kw or {})
            kw['units'] = m['units']
        if kw is not None:
            if set(kw) == {'val'} :
                kwargs[n] = kw['val']
            else:
                kwargs[n] = kw
    for n, d in spec['out_decl'].items():
        shp = tuple(spec['outputs'][n])
        if d['decl'] == 'default' or d['decl'] == 'compshape':
            kw = None
        elif d['decl'] == 'val':
            kw = {'val': np.zeros(shp)}
        elif d['decl'] == 'shape':
            kw = {'shape': shp}
        else:
            kw = {'copy_shape': d['copy_from']}
        if d['units'] is not None and spec['opts']['units'] is None:
            kw = dict(kw or {})
            kw['units'] = d['units']
        if kw is not None:
            kwargs[n] = kw['val'] if set(kw) == {'val'} else kw
    for n, v in spec['consts'].items():
        kwargs[n] = {'val': (float(v) if np.ndim(v) == 0 else np.array(v, dtype=float)), 'constant': True}
    o = spec['opts']
    copts = {}
    if o['has_diag_partials']:
        copts['has_diag_partials'] = True
    if not o['do_coloring']:
        copts['do_coloring'] = False
    if o['shape'] is not None:
        copts['shape'] = tuple(o['shape'])
    if o['units'] is not None:
        copts['units'] = o['units']
    comp = om.ExecComp(list(spec['exprs']), **kwargs, **copts)
    prob.model.add_subsystem('c', comp)
    for n in spec['inputs']:
        prob.model.connect('ivc.' + n, 'c.' + n)
    prob.setup(force_alloc_complex=spec['setup']['force_alloc_complex'], mode=spec['setup']['mode'])
    return prob, comp


def _kind(shape):
    return 'scalar' if int(np.prod(shape, dtype=int)) == 1 else 'array'


def _set_and_run(prob, spec, pt):
    for n, m in spec['inputs'].items():
        fac, off = conv(m['src_units'], m['units'])
        v = np.array(pt[n], dtype=float).reshape(tuple(m['shape']))
        prob.set_val('ivc.' + n, v / fac - off)
    prob.run_model()


def judge(spec, acc, seed=0):
    case = spec
    origin = spec['origin']
    points = spec['points']
    steps = spec.get('steps') or [{'pt': i} for i in range(len(points))]
    fp = fingerprint({'spec': {k: spec[k] for k in ('exprs', 'inputs', 'out_decl', 'opts', 'setup', 'consts')},
                      'plan': [point_class(points[st['pt']]) + ('/resetup' if st.get('resetup') else '')
                               for st in steps]})
    onames = list(spec['outputs'])
    inames = list(spec['inputs'])
    for f in spec['funcs']:
        acc.count('fn:' + f)
    # -- references first (a DomainGuard here means a replayed/edited case left the domain)
    refs = []
    try:
        for pi, pt in enumerate(points):
            refs.append(reference(spec, pt, seed * 7919 + pi))
    except X.DomainGuard:
        acc.skip('domain-guard')
        return
    classes = [point_class(pt) for pt in points]
    diag = spec['opts']['has_diag_partials']
    tot_in = sum(int(np.prod(m['shape'], dtype=int)) for m in spec['inputs'].values())
    tot_out = sum(int(np.prod(shp, dtype=int)) for shp in spec['outputs'].values())
    state = {'bad': False}

    def viol(key, what):
        acc.viol(key, what, case, fp=fp, new_case=not state['bad'])
        state['bad'] = True

    try:
        prob, comp = build(spec)
    except Exception as e:  # setup of a legal ExecComp must not fail
        viol('%s:%s:setup-raises:%s' % (origin, 'diag' if diag else 'plain', type(e).__name__),
             'setup raised %s: %s' % (type(e).__name__, str(e)[:300]))
        return
    try:
        compared_any = False
        mode = spec['setup']['mode']
        anchors = []           # required sparsity of every point that was the first linearization after a setup
        need_anchor = True
        resetup_done = False
        seen = set()
        prev_nzpat = None
        first_class = classes[steps[0]['pt']]
        for si, st in enumerate(steps):
            pi = st['pt']
            pt = points[pi]
            plain, J0, Do, DJ = refs[pi]
            # ---- mechanism tag of this step: where in the history it sits
            if si == 0:
                tag = '' if classes[pi] == 'generic' else ':at-' + classes[pi]
            else:
                tag = ':later-point'
                if first_class != 'generic':
                    tag += ':first-lin-at-' + first_class
                if classes[pi] != 'generic':
                    tag += ':at-' + classes[pi]
            if st.get('resetup'):
                try:
                    mode = st.get('mode', mode)
                    prob.setup(force_alloc_complex=spec['setup']['force_alloc_complex'], mode=mode)
                except Exception as e:
                    viol('%s:%s:re-setup-raises:%s' % (origin, 'diag' if diag else 'plain', type(e).__name__),
                         'second setup raised %s: %s' % (type(e).__name__, str(e)[:300]))
                    return
                resetup_done = True
                need_anchor = True
                acc.count('obs:resetup')
                if 'mode' in st:
                    acc.count('obs:resetup-mode-flip')
            if resetup_done:
                tag += ':after-resetup'
            if pi in seen:
                tag += ':revisit'
                acc.count('obs:revisit')
            seen.add(pi)
            try:
                _set_and_run(prob, spec, pt)
            except Exception as e:
                viol('%s:%s:run-raises:%s%s' % (origin, 'diag' if diag else 'plain', type(e).__name__, tag),
                     'run_model raised %s: %s' % (type(e).__name__, str(e)[:300]))
                return
            # inputs as seen by the component (unit conversion rounding enters the tolerance scale)
            for n, m in spec['inputs'].items():
                got = np.asarray(prob.get_val('c.' + n)).reshape(-1)
                want = np.array(pt[n], dtype=float).reshape(-1)
                if got.shape != want.shape or not np.allclose(got, want, rtol=1e-12, atol=1e-13):
                    raise X.HarnessError('input %s not delivered: %s vs %s' % (n, got, want))
            unit_slack = 8 * EPS   # the connection's unit conversion perturbs inputs by a few ulp
            cell = 'diag' if diag else ('colored' if comp._coloring_info.coloring is not None else 'dense')

            # ---- outputs (read once after run_model and once more after the linearization)
            def judge_outputs(cell, what, counter, slack=0.0):
                for o in onames:
                    got = np.asarray(prob.get_val('c.' + o))
                    acc.count(counter)
                    ref = plain[o]
                    if got.shape != ref.shape:
                        viol('%s:%s:output-shape' % (origin, cell), '%s has shape %s, expected %s for %s'
                             % (o, got.shape, ref.shape, spec['exprs']))
                        continue
                    # sensitivity to the unit-conversion rounding of the inputs: |J| |x| ulp
                    sens = sum(np.abs(J0[o, i]) @ np.abs(np.array(pt[i], dtype=float).reshape(-1))
                               for i in inames).reshape(ref.shape) * unit_slack
                    tol = _tol(ref, Do[o]) + sens + slack
                    if not np.all(np.isfinite(got)) or np.any(np.abs(got - ref) > tol):
                        viol('%s:%s:%s%s' % (origin, cell, what, tag),
                             '%s %s of %s: %s (tol %.3g)' % (what, o, spec['exprs'], worst(got, ref),
                                                             float(np.max(tol))))

            judge_outputs(cell, 'output', 'obs:output')
            # ---- derivatives
            try:
                tot = prob.compute_totals(of=['c.' + o for o in onames], wrt=['ivc.' + i for i in inames],
                                          return_format='flat_dict')
            except Exception as e:
                viol('%s:%s:compute_totals-raises:%s%s' % (origin, cell, type(e).__name__, tag),
                     'compute_totals raised %s: %s' % (type(e).__name__, str(e)[:300]))
                return
            colored = comp._coloring_info.coloring is not None
            cell = 'diag' if diag else ('colored' if colored else 'dense')
            judge_outputs(cell, 'output-after-linearize', 'obs:output-after-linearize', slack=CS_RESIDUE)
            if colored:
                acc.count('obs:coloring-used')
            if si > 0:
                acc.count('obs:later-point')
            if si == 0 and classes[pi] != 'generic':
                acc.count('obs:first-lin-at-' + classes[pi])
            if si > 0 and classes[pi] != 'generic':
                acc.count('obs:later-point-at-' + classes[pi])
            # ExecComp detects the sparsity of its jacobian at the first linearization after a setup
            if need_anchor:
                anchors.append(required_nonzeros(spec, pt, seed * 7919 + 1000 + si))
                need_anchor = False
            nzpat = tuple(np.packbits(J0[k] != 0).tobytes() for k in sorted(J0))
            if si > 0 and nzpat != prev_nzpat:
                acc.count('obs:jacobian-pattern-differs-from-previous-point')
            prev_nzpat = nzpat
            judge_derivs = True
            dyn = colored or (spec['opts']['do_coloring'] and not diag and tot_in > 1 and tot_out > 1)
            if dyn:
                # only entries that a sparsity detection at the anchor point(s) is bound to find may be
                # nonzero here (entries that vanish in the whole 1e-9 neighbourhood of the anchor, or are
                # within 1e5 of the sparsity tolerance there, are left unjudged)
                for R in anchors:
                    if any(np.any((J0[k] != 0) & ~R[k]) for k in J0):
                        judge_derivs = False
                        acc.count('guard:nonzero-outside-sparsity-required-at-first-linearization')
                        break
            if si > 0 and state['bad']:
                # an earlier point already failed: a second report of the same mechanism adds nothing
                judge_derivs = False
            if not judge_derivs:
                continue
            if dyn and si > 0:
                acc.count('obs:dynamic-sparsity-later-point-judged')
                if first_class == 'zeros':
                    acc.count('obs:dynamic-sparsity-later-point-judged-after-first-lin-at-zeros')
            for o in onames:
                for i in inames:
                    ref = J0[o, i]
                    m = spec['inputs'][i]
                    fac, _ = conv(m['src_units'], m['units'])
                    okind = 'of-%s-wrt-%s' % (_kind(spec['outputs'][o]), _kind(m['shape']))
                    # second-derivative sensitivity to input rounding is covered by the spread; add a
                    # relative slack for the unit-conversion factor itself
                    tolp = _tol(ref, DJ[o, i], extra_scale=0.0) + 16 * EPS * np.abs(ref) + CS_RESIDUE
                    # totals
                    got = np.asarray(tot['c.' + o, 'ivc.' + i])
                    acc.count('obs:totals-' + mode)
                    reft = ref * fac
                    tolt = tolp * abs(fac) + 64 * EPS * np.abs(reft)
                    if got.shape != reft.shape or not np.all(np.isfinite(got)) or \
                            np.any(np.abs(got - reft) > tolt):
                        viol('%s:%s:%s:totals-%s%s' % (origin, cell, okind, mode, tag),
                             'd%s/d%s (%s) of %s: %s' % (o, i, mode, spec['exprs'], worst(got, reft)))
                    # the component's own sub-jacobian
                    sj = dense_subjac(comp, o, i)
                    acc.count('obs:partials')
                    if sj is None:
                        if np.any(ref != 0):
                            viol('%s:%s:%s:partials-undeclared-nonzero%s' % (origin, cell, okind, tag),
                                 'partial d%s/d%s of %s is not declared but the derivative is nonzero'
                                 % (o, i, spec['exprs']))
                        continue
                    if sj.shape != ref.shape or not np.all(np.isfinite(sj)) or np.any(np.abs(sj - ref) > tolp):
                        viol('%s:%s:%s:partials%s' % (origin, cell, okind, tag),
                             'partial d%s/d%s of %s: %s' % (o, i, spec['exprs'], worst(sj, ref)))
            compared_any = True
        # ---- cells visited
        if not state['bad']:
            acc.ok(fp, nontrivial=compared_any,
                   sample=({k: spec[k] for k in ('exprs', 'opts', 'setup')} if acc.judged % 97 == 0 else None))
        o = spec['opts']
        if diag:
            acc.count('cell:diag')
        if not o['do_coloring']:
            acc.count('cell:nocoloring')
        if any(m['decl'] == 'sbc' for m in spec['inputs'].values()):
            acc.count('cell:shape_by_conn')
        if any(d['decl'] == 'copy_shape' for d in spec['out_decl'].values()):
            acc.count('cell:copy_shape')
        if any(m['units'] and m['units'] != m['src_units'] for m in spec['inputs'].values()):
            acc.count('cell:units')
        if o['units'] is not None:
            acc.count('cell:comp-units')
        if o['shape'] is not None:
            acc.count('cell:comp-shape')
        if spec['consts']:
            acc.count('cell:constants')
        if len(spec['exprs']) > 1:
            acc.count('cell:multi-expr')
        if spec['setup']['force_alloc_complex']:
            acc.count('cell:force_alloc_complex')
        for k in spec.get('kinds', []):
            if k != 'generic':
                acc.count('plan:' + k)
        if first_class != 'generic' and len(steps) > 1:
            acc.count('plan:special-first')
        elif any(c != 'generic' for c in classes):
            acc.count('plan:generic-first-special-later')
        for f in spec.get('features', []):
            acc.count('feat:' + f)
        if origin != 'expr':
            acc.count('obs:table-sweep')
    finally:
        try:
            prob.cleanup()
        except Exception:
            pass


# ----------------------------------------------------------------------------------------------
# framework entry points
# ----------------------------------------------------------------------------------------------
def shards(tier, seed):
    nsh, per, rep = (16, 90, 3) if tier == 'quick' else (48, 420, 36)
    return [{'seed': seed * 100003 + k, 'n': per, 'part': k, 'parts': nsh, 'rep': rep} for k in range(nsh)]


def run_shard(shard, acc):
    rng = np.random.default_rng(shard['seed'])
    register_extras()
    names = table_names()
    for n in names:
        if n not in X.KNOWN:
            acc.count('unspecified-table-entry:' + n)
    # table sweep: this shard's share of the functions, each alone in an expression
    fns = [n for n in names if n in X.KNOWN][shard['part']::shard['parts']]
    for fn in fns:
        for _ in range(shard['rep']):
            spec = make_spec(rng, names, origin='fn', fn=fn)
            if spec is None:
                acc.skip('domain-guard-no-point-found')
                continue
            judge(spec, acc, seed=shard['seed'])
    for _ in range(shard['n']):
        spec = make_spec(rng, names)
        if spec is None:
            acc.skip('domain-guard-no-point-found')
            continue
        judge(spec, acc, seed=shard['seed'])


def run_case(case, acc):
    register_extras()
    judge(case, acc, seed=0)


def coverage_extra(tier, agg):
    used = sorted(k[3:] for k in agg['counters'] if k.startswith('fn:'))
    unspec = sorted(k.split(':', 1)[1] for k in agg['counters'] if k.startswith('unspecified-table-entry:'))
    return {'exhaustive': False, 'table_functions_exercised': used,
            'table_entries_without_harness_meaning': unspec}
