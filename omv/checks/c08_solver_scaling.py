"""C08 - Solver scaling never changes physical results.

Monitor: differential twins + reference model.  A generated spec (omv/gen/models.py) is built twice under the
same configuration cell (root nonlinear solver x root linear solver stack x derivative mode): once plain and
once with random ref / ref0 / res_ref on outputs of explicit, implicit and independent-variable components
(scalars and arrays, ref < ref0, negative ref, magnitudes 1e-3..1e3).  After run_model the physical outputs
(Problem.get_val), the physical inputs (get_val on the absolute input names) and the total derivatives
(Problem.compute_totals) of both twins are compared with the reference evaluator R (omv/ref/flatmodel.py, which
knows nothing about scaling) and with each other.

Tolerances are derived, not tuned (see `_bounds`):
  * every nonlinear solver runs with rtol switched off and atol = A_NL on the norm it tests, which is the norm
    of the *scaled* residual r_i / res_ref_i.  Reported convergence therefore promises |r_i| <= |res_ref_i| A_NL
    for the physical residual (plus the coupling terms for the block-GS solvers that test the change of the
    iterate instead of the residual); the state error follows from |du| <= |J^-1| |r| (Newton-Kantorovich, with
    a guard that the linearisation is valid).
  * totals are compared with R's exact totals evaluated *at the twin's own converged point*, so no sensitivity
    of the derivative to the state error enters; the tolerance is the shared 1e-8 (direct) / 1e-6 (iterative)
    rule, widened by round-off x condition number of the scaled system and by the physical meaning of the
    linear solvers' atol on scaled linear residuals (during compute_totals the iterative linear solvers run
    with rtol off and an atol set just above the round-off floor of the scaled system, computed from R).
Cases where a solver in either twin reports non-convergence are not judged (the run is aborted at the first
report).  A plain twin that disagrees with R is reported under its own `plain-twin-...` key.

Recorded defects: five narrow classes of scaling assignment / solver stack are known to break (see
`avoid_known`, `known_taints`); each has its own mechanism key, the generator keeps them in a minority of the
affected models and moves the other models just outside the class, and a totals discrepancy in a cell whose
precondition for one of them holds is keyed by that mechanism.  Everything else is keyed by observable, solver
cell and scaling features.
"""
import copy
import os
import random

import numpy as np

from omv.core import fingerprint
from omv.kit.gmon import exc_key, tree_solvers
from omv.kit.poison import poison

PROPERTY = 'C08'
LEVEL = 'exploration'
TECHNIQUE = ('runtime monitoring: differential twins (same model with and without ref/ref0/res_ref) observed at '
             'get_val / compute_totals, both judged against an independent exact reference with tolerances derived '
             'from the solver tolerances and the scaling magnitudes')
RULE = ('random model specs (explicit/implicit harness components, nested groups, promotions, src_indices chains, '
        'units, feedback loops) x random scaling assignment (ref, ref0, res_ref; scalar/array; negative; ref<ref0; '
        'on states and on IndepVarComp outputs) x cells {root nonlinear solver: generated, Newton (plain, Armijo, '
        'BoundsEnforce, solve_subsystems), Broyden, NLBGS (plain, Aitken, use_apply_nonlinear), NLBJ} x {root '
        'linear: generated, LinearRunOnce, DirectSolver dict/dense/csc, ScipyKrylov (+LNBGS precon), LNBGS, LNBJ} x '
        '{fwd, rev}; '
        'distinct = (scaling features, wiring features of scaled sources, solver tree, cell); non-trivial = the '
        'scaled twin really has output or residual scaling active and every solver of both twins converged')
MIN_JUDGED = {'quick': 300, 'thorough': 8000}
REQUIRED_COUNTERS = [
    'obs:output-scaling-active', 'obs:resid-scaling-active', 'obs:input-scaling-active',
    'obs:plain-twin-unscaled', 'hook:scale_to_norm', 'hook:scale_to_phys',
    'obs:values-compared', 'obs:inputs-compared', 'obs:totals-compared', 'obs:twin-vs-twin-compared',
    'cell:nl=newton', 'cell:nl=newton-armijo', 'cell:nl=newton-bounds', 'cell:nl=newton-subsolve',
    'cell:nl=broyden', 'cell:nl=nlbgs', 'cell:nl=nlbgs-aitken', 'cell:nl=nlbgs-apply', 'cell:nl=nlbgs-aitken-apply', 'cell:nl=nlbj',
    'cell:ln=runonce', 'cell:ln=direct-dict', 'cell:ln=direct-dense', 'cell:ln=direct-csc', 'cell:ln=krylov',
    'cell:ln=lnbgs', 'cell:ln=lnbj',
    'cell:mode=fwd', 'cell:mode=rev',
    'scal:ivc', 'scal:implicit', 'scal:explicit', 'scal:array', 'scal:negative-ref', 'scal:ref<ref0',
    'scal:res_ref', 'scal:ref0', 'scal:units-on-scaled-src', 'scal:src_indices-on-scaled-src',
    'scal:array-ref+src_indices',
    'guess:level=group', 'guess:level=root', 'guess:level=nested', 'guess:level=comp', 'guess:level=group+comp',
    'guess:solver=newton', 'guess:solver=newton-subsolve', 'guess:solver=broyden',
    'obs:guess:scaling-active', 'obs:guess:group-level-call', 'obs:guess:comp-level-call',
    'obs:guess:root-compared', 'obs:guess:comp-residuals-compared', 'obs:guess:group-residuals-twin-compared',
    'guess:scal:x:ref0', 'guess:scal:x:ref<ref0', 'guess:scal:x:negative-ref', 'guess:scal:x:array',
    'guess:scal:x:res_ref', 'guess:scal:a:ref0', 'guess:scal:units',
    'guess:route=add_output', 'guess:route=options@comp', 'guess:route=options@holder', 'guess:route=options@solver',
    'guess:route=options@root', 'guess:route=options-two-or-more-levels-above-the-component-group',
]
ASSUMPTIONS = [
    'R (omv/ref/flatmodel.py) is exact and scaling-agnostic; its Jacobian is re-validated by complex step per case',
    'a case is judged only if no solver of either twin reported non-convergence (preconditioner sweeps with a '
    'fixed iteration count are not convergence claims and are ignored) and cond(dF/du) <= 1e8',
    'nonlinear solvers: rtol off, atol=1e-11 on the scaled norm; iterative linear solvers during compute_totals: '
    'rtol off, atol = max(1e-12, 100 x round-off floor of the scaled system); tolerances of the oracle are derived '
    'from these, |res_ref|, |ref-ref0| and |J^-1| (cases whose derived bound exceeds 1e-6 relative, or where the '
    'linearisation guard fails, are discarded and counted)',
    'models hitting a recorded defect class are sampled at a reduced rate (P_KNOWN); a totals discrepancy in a cell '
    'that satisfies the precondition of a recorded defect is attributed to that defect',
    'no bounds on outputs (bounds x scaling is C10), no driver scaling (C20), no MPI',
]
SHARD_TIMEOUT = {'quick': 1200, 'thorough': 5400}

OPTS = dict(p_index=0.65, p_units=0.55, p_chain2=0.3, p_param=0.35, p_matfree=0.12, p_sparse=0.5, p_cycle=0.5,
            p_implicit=0.4, p_scaling=0.0, solver_mix='any')

A_NL = 1e-11          # atol of every nonlinear solver (on the norm it tests); rtol is switched off
A_LN = 1e-12          # smallest atol of the iterative linear solvers (see _bounds: raised to the round-off floor); rtol off
RTOL_OFF = 1e-300
EPS = 2.220446049250313e-16
BASE_DIRECT = 1e-8    # DESIGN 3.2 shared rule
BASE_ITER = 1e-6
LOOSE = 1e-6          # a derived bound above this (relative) makes the case unjudgeable
N_GUESS = {'quick': 15, 'thorough': 90}     # 'guess' cases per shard (omv/gen/c08_guess.py)
P_KNOWN = 0.25        # share of models that keep a scaling assignment hitting a recorded defect (see avoid_known)

NLV = {
    'newton': {'type': 'newton', 'solve_subsystems': False, 'linesearch': None},
    'newton-armijo': {'type': 'newton', 'solve_subsystems': False, 'linesearch': 'armijo'},
    'newton-bounds': {'type': 'newton', 'solve_subsystems': False, 'linesearch': 'bounds'},
    'newton-subsolve': {'type': 'newton', 'solve_subsystems': True, 'linesearch': None},
    'broyden': {'type': 'broyden'},
    'nlbgs': {'type': 'nlbgs', 'use_aitken': False, 'use_apply_nonlinear': False},
    'nlbgs-aitken': {'type': 'nlbgs', 'use_aitken': True, 'use_apply_nonlinear': False},
    'nlbgs-apply': {'type': 'nlbgs', 'use_aitken': False, 'use_apply_nonlinear': True},
    'nlbgs-aitken-apply': {'type': 'nlbgs', 'use_aitken': True, 'use_apply_nonlinear': True},
    'nlbj': {'type': 'nlbj'},
}
LNV = {
    'runonce': {'type': 'runonce'},          # the default LinearRunOnce (legal on an acyclic root only)
    'direct-dict': {'type': 'direct', 'assemble_jac': False},
    'direct-dense': {'type': 'direct', 'assemble_jac': True, 'jac_type': 'dense'},
    'direct-csc': {'type': 'direct', 'assemble_jac': True, 'jac_type': 'csc'},
    'krylov': {'type': 'krylov'},
    'krylov+lnbgs': {'type': 'krylov+lnbgs'},
    'lnbgs': {'type': 'lnbgs'},
    'lnbj': {'type': 'lnbj'},
}
ITERATIVE = ('krylov', 'krylov+lnbgs', 'lnbgs', 'lnbj')


def shards(tier, seed):
    n = 16 if tier == 'quick' else 64
    per = 16 if tier == 'quick' else 100
    per = int(os.environ.get('OMV_C08_PER', per))      # (for trying a tier out with a reduced count)
    return [{'seed': seed * 100000 + i * 1000, 'n': per, 'tier': tier} for i in range(n)]


def run_shard(shard, acc):
    for k in range(shard['n']):
        run_case({'seed': shard['seed'] + k, 'tier': shard.get('tier', 'quick')}, acc)
    ng = N_GUESS[shard.get('tier', 'quick')]
    for k in range(ng):
        run_case({'seed': shard['seed'] + k, 'tier': shard.get('tier', 'quick'), 'kind': 'guess'}, acc)


# ----------------------------------------------------------------------------------------------------------
# scaling assignment (the scaled twin's spec) and its description in R's variable ordering
# ----------------------------------------------------------------------------------------------------------
def _r4(x):
    return float('%.4g' % x)


def add_scaling(spec, rng, wide, p_known=None):
    """deep copy of `spec` with random ref / ref0 / res_ref on outputs (states and IndepVarComp outputs)."""
    sp = copy.deepcopy(spec)
    lo, hi = (-3.0, 3.0) if wide else (-2.0, 2.0)

    def mag():
        return _r4(10 ** rng.uniform(lo, hi))
    nsc = 0
    outs = [(c, oo) for c in sp['comps'] for oo in c['outputs']]
    # 'sparse' models carry one kind of scaling on one or two outputs (isolates mechanisms); 'dense' ones mix
    sparse = rng.random() < 0.35
    if sparse:
        chosen = set(id(oo) for _, oo in rng.sample(outs, min(len(outs), rng.randint(1, 2))))
        kinds = rng.choice([['ref'], ['ref0'], ['res_ref'], ['ref', 'ref0'], ['ref', 'res_ref'], ['ref0', 'res_ref']])
    for k, (c, oo) in enumerate(outs):
        if sparse:
            if id(oo) not in chosen:
                continue
        else:
            pr = 0.5 if c['kind'] == 'ivc' else 0.75
            if rng.random() >= pr and not (nsc == 0 and k == len(outs) - 1):
                continue
        nsc += 1
        n = int(np.prod(oo['shape']))
        arr = rng.random() < 0.4
        m = n if arr else 1
        if sparse:
            which = list(kinds)
        else:
            which = [x for x in ('ref', 'ref0', 'res_ref') if rng.random() < 0.6] or \
                [rng.choice(['ref', 'ref0', 'res_ref'])]
        vals = {}
        if 'ref' in which or 'ref0' in which:
            a1s, r0s = [], []
            for _ in range(m):
                for _try in range(50):
                    r0 = mag() * rng.choice([1, 1, -1]) if 'ref0' in which else 0.0
                    if 'ref' in which:
                        a1 = mag() * rng.choice([1, 1, -1])
                    else:
                        a1 = 1.0 - r0
                    # legal and numerically meaningful: |ref-ref0| in [1e-3, 2e3], |ref0| <= 1e3 |ref-ref0|
                    if 1e-3 <= abs(a1) <= 2e3 and abs(r0) <= 1e3 * abs(a1):
                        break
                else:
                    r0, a1 = 0.0, 2.0
                a1s.append(a1)
                r0s.append(r0)
            if 'ref' in which:
                vals['ref'] = [_r4(r0 + a1) for r0, a1 in zip(r0s, a1s)]
                # rounding to 4 digits must not bring ref back onto ref0
                vals['ref'] = [r if abs(r - r0) >= 1e-3 else r0 + (2e-3 if a1 > 0 else -2e-3)
                               for r, r0, a1 in zip(vals['ref'], r0s, a1s)]
            if 'ref0' in which:
                vals['ref0'] = r0s
        if 'res_ref' in which:
            vals['res_ref'] = [mag() * rng.choice([1, 1, 1, 1, 1, -1]) for _ in range(m)]
        for key, v in vals.items():
            oo[key] = np.array(v, dtype=float).reshape(oo['shape']).tolist() if arr else float(v[0])
    avoid_known(sp, rng, P_KNOWN if p_known is None else p_known, mag)
    return sp


def _comp_flags(c):
    """(component has output scaling, component has residual scaling) as OpenMDAO derives them in add_output."""
    osc = rsc = False
    for o in c['outputs']:
        n = int(np.prod(o['shape']))
        ref, ref0 = _vec(o, 'ref', n, 1.0), _vec(o, 'ref0', n, 0.0)
        rr = _vec(o, 'res_ref', n, 1.0) if o.get('res_ref') is not None else \
            (np.ones(n) if c['kind'] == 'imp' else ref)
        osc |= bool(np.any(ref != 1.0) or np.any(ref0 != 0.0))
        rsc |= bool(np.any(rr != 1.0))
    return osc, rsc


def known_solve_linear_defect_comps(spec):
    """explicit / independent-variable components with output scaling but no residual scaling (recorded defect:
    ExplicitComponent._solve_linear copies between the scaled vectors unless the component has residual scaling)."""
    return [c for c in spec['comps'] if c['kind'] in ('exp', 'ivc') and _comp_flags(c) == (True, False)]


def known_matfree_defect_comps(spec):
    """matrix-free explicit components with output scaling (recorded defect: ExplicitComponent._apply_linear
    unscales d_residuals but not d_outputs before it adds the identity part)."""
    return [c for c in spec['comps'] if c['kind'] == 'exp' and c.get('matfree') and _comp_flags(c)[0]]


def avoid_known(sp, rng, p_known, mag):
    """Each recorded defect is tied to a narrow class of scaling assignments.  Keep that class in a minority of
    the affected models (so the finding stays observed) and move the others just outside it, so that they exercise
    the rest of the machinery instead of failing for a reason that is already on record."""
    # {array ref0, scalar ref, src_indices selecting a different number of entries}: give the equivalent array ref
    # (this one aborts final_setup, so it is kept least often)
    for oo in known_ref0_defect_outputs(sp):
        if rng.random() >= 0.8 * p_known:
            oo['ref'] = np.full(oo['shape'], float(oo.get('ref', 1.0))).tolist()
    # explicit component with output scaling only: add a residual scale to one of its outputs
    for c in known_solve_linear_defect_comps(sp):
        if rng.random() >= 2.0 * p_known:
            oo = rng.choice(c['outputs'])
            v = mag()
            oo['res_ref'] = v if abs(v - 1.0) > 1e-6 else 2.0
    # matrix-free explicit component with output scaling: keep only its residual scaling
    for c in known_matfree_defect_comps(sp):
        if rng.random() >= 2.0 * p_known:
            for oo in c['outputs']:
                had = oo.pop('ref', None) is not None
                had = (oo.pop('ref0', None) is not None) or had
                if had and oo.get('res_ref') is None:
                    oo['res_ref'] = mag()


def known_ref0_defect_outputs(spec):
    """outputs with array ref0 + scalar ref that feed a connection whose src_indices select m != size entries."""
    from omv.ref.flatmodel import chain_positions
    out = []
    for c in spec['comps']:
        for oo in c['outputs']:
            if isinstance(oo.get('ref0'), list) and not isinstance(oo.get('ref'), list):
                n = int(np.prod(oo['shape']))
                for cn in spec['conns']:
                    if cn['src'] == oo['name'] and cn['chain'] and \
                            np.asarray(chain_positions(tuple(oo['shape']), cn['chain'])).size != n:
                        out.append(oo)
                        break
    return out


def _vec(o, key, n, default):
    v = o.get(key)
    if v is None:
        return np.full(n, float(default))
    a = np.asarray(v, dtype=float).ravel()
    return np.full(n, float(a[0])) if a.size == 1 else a


def scale_vectors(spec, fm):
    """(a1, ref0, resref) over R's state ordering and over R's parameter ordering.

    a1 = ref - ref0; resref = res_ref, defaulting to ref for explicit / independent-variable components and to 1
    for implicit components (openmdao docs of add_output)."""
    sa1, sr0, srr = np.ones(fm.nstate), np.zeros(fm.nstate), np.ones(fm.nstate)
    pa1, pr0, prr = np.ones(fm.nparam), np.zeros(fm.nparam), np.ones(fm.nparam)
    for c in spec['comps']:
        for o in c['outputs']:
            n = fm.sizes[o['name']]
            ref = _vec(o, 'ref', n, 1.0)
            ref0 = _vec(o, 'ref0', n, 0.0)
            if o.get('res_ref') is not None:
                rr = _vec(o, 'res_ref', n, 1.0)
            elif c['kind'] == 'imp':
                rr = np.ones(n)
            else:
                rr = ref.copy()
            if c['kind'] == 'ivc':
                a, b = fm.poff[o['name']]
                pa1[a:b], pr0[a:b], prr[a:b] = ref - ref0, ref0, rr
            else:
                a, b = fm.soff[o['name']]
                sa1[a:b], sr0[a:b], srr[a:b] = ref - ref0, ref0, rr
    return (sa1, sr0, srr), (pa1, pr0, prr)


def scaling_features(spec):
    """what kinds of scaling the twin carries (for counters, fingerprints and mechanism keys)."""
    f = set()
    scaled = {}
    for c in spec['comps']:
        for o in c['outputs']:
            ks = [k for k in ('ref', 'ref0', 'res_ref') if o.get(k) is not None]
            if not ks:
                continue
            scaled[o['name']] = o
            f.add({'ivc': 'ivc', 'imp': 'implicit', 'exp': 'explicit'}[c['kind']])
            for k in ks:
                f.add(k)
                if isinstance(o[k], list):
                    f.add('array')
            n = int(np.prod(o['shape']))
            ref = _vec(o, 'ref', n, 1.0)
            ref0 = _vec(o, 'ref0', n, 0.0)
            if np.any(ref < 0):
                f.add('negative-ref')
            if np.any(ref < ref0):
                f.add('ref<ref0')
    for cn in spec['conns']:
        o = scaled.get(cn['src'])
        if o is None or not any(o.get(k) is not None for k in ('ref', 'ref0')):
            continue
        if cn.get('tgt_units') and o.get('units') and cn['tgt_units'] != o['units']:
            f.add('units-on-scaled-src')
        if cn['chain']:
            f.add('src_indices-on-scaled-src')
            if isinstance(o.get('ref'), list) or isinstance(o.get('ref0'), list):
                f.add('array-ref+src_indices')
    return sorted(f)


def _ivc_factory(c, hook):
    """IndepVarComp with ref/ref0/res_ref (G.build's own IVC branch does not pass them)."""
    if c['kind'] != 'ivc':
        return None
    import openmdao.api as om
    ivc = om.IndepVarComp()
    for oo in c['outputs']:
        kw = {}
        for k in ('ref', 'ref0', 'res_ref'):
            if oo.get(k) is not None:
                kw[k] = np.asarray(oo[k], dtype=float).reshape(oo['shape']) if isinstance(oo[k], list) \
                    else float(oo[k])
        ivc.add_output(oo['name'], val=np.asarray(oo['val'], dtype=float).reshape(oo['shape']),
                       units=oo.get('units'), **kw)
    return ivc


# ----------------------------------------------------------------------------------------------------------
# configuration cells
# ----------------------------------------------------------------------------------------------------------
def set_cell(spec, nlv, lnv):
    """copy of spec with the root solvers replaced; None if the combination is not a legal configuration."""
    sp = copy.deepcopy(spec)
    t = sp['tree']
    has_mf = any(c.get('matfree') for c in sp['comps'])
    if nlv != 'generated':
        t['nl'] = dict(NLV[nlv])
    if lnv != 'generated':
        t['ln'] = dict(LNV[lnv])
    nl, ln = t['nl']['type'], t['ln']
    if ln['type'] == 'direct' and ln.get('assemble_jac') and has_mf:
        return None           # matrix-free components cannot be assembled
    if nl == 'broyden' and ln['type'] != 'direct':
        return None           # full-model Broyden documents that it requires a DirectSolver
    if ln['type'] == 'runonce' and (nl in ('newton', 'broyden') or t.get('cyclic')):
        return None           # LinearRunOnce cannot solve a coupled linear system
    return sp


def dict_direct_in_use(spec_cell):
    """True if a DirectSolver(assemble_jac=False) takes part in the linear solves of this cell."""
    t = spec_cell['tree']
    if t['ln']['type'] == 'direct':
        return not t['ln'].get('assemble_jac')
    found = []

    def walk(n):
        if 'comp' in n:
            return
        ln = n.get('ln', {})
        if ln.get('type') == 'direct' and not ln.get('assemble_jac'):
            found.append(1)
        for ch in n['children']:
            walk(ch)
    walk(t)
    return bool(found)


def known_taints(sp, mode):
    """recorded linear-path defects whose precondition holds in this cell (priority order)."""
    t = []
    root_ln = sp['tree']['ln']['type']
    if mode == 'rev' and dict_direct_in_use(sp):
        # the dictionary-jacobian DirectSolver factorises the forward-scaled matrix and reuses its transpose
        t.append('dict-directsolver+rev+scaling')
    if root_ln == 'direct' and not sp['tree']['ln'].get('assemble_jac') and \
            any(c['kind'] == 'imp' and c.get('matfree') and _comp_flags(c)[0] for c in sp['comps']):
        # _TotalJacInfo linearizes the root linear solver outside the scaled context: a matrix-free implicit
        # component then evaluates its state-dependent apply_linear at doubly-unscaled outputs
        t.append('root-dict-directsolver+matfree-implicit-comp+output-scaling')
    if known_matfree_defect_comps(sp):
        t.append('matfree-explicit-comp+output-scaling')
    if known_solve_linear_defect_comps(sp) and root_ln not in ('direct', 'krylov'):
        t.append('explicit-comp-output-scaling-no-resid-scaling+solve_linear')
    return t


def cell_names(spec_cell, nlv, lnv):
    t = spec_cell['tree']
    nl = nlv
    if nlv == 'generated':
        g = t['nl']
        nl = g['type']
        if nl == 'newton':
            nl = 'newton-subsolve' if g.get('solve_subsystems') else \
                ('newton-' + g['linesearch'] if g.get('linesearch') else 'newton')
        elif nl == 'nlbgs':
            if g.get('use_aitken') and g.get('use_apply_nonlinear'):
                nl = 'nlbgs-aitken-apply'
            else:
                nl = 'nlbgs-aitken' if g.get('use_aitken') else \
                    ('nlbgs-apply' if g.get('use_apply_nonlinear') else 'nlbgs')
    ln = lnv
    if lnv == 'generated':
        g = t['ln']
        ln = g['type']
        if ln == 'direct':
            ln = 'direct-' + (g.get('jac_type', 'csc') if g.get('assemble_jac') else 'dict')
    return nl, ln


def choose_cells(spec, seed, k):
    rng = random.Random(seed * 31 + 5)
    nls = ['generated'] + list(NLV)
    lns = ['generated'] + list(LNV)
    out = []
    for _ in range(60):
        if len(out) >= k:
            break
        cell = [rng.choice(nls), rng.choice(lns), rng.choice(['fwd', 'rev'])]
        if cell[0] == 'broyden' and not cell[1].startswith('direct'):
            cell[1] = rng.choice(['direct-dict', 'direct-dense', 'direct-csc'])
        if cell[1] == 'direct-dict' and cell[2] == 'rev' and rng.random() < 0.7:
            cell[2] = 'fwd'       # recorded defect (dictionary-jacobian DirectSolver in rev mode): sample it less
        if cell in out or set_cell(spec, cell[0], cell[1]) is None:
            continue
        out.append(cell)
    return out


# ----------------------------------------------------------------------------------------------------------
# observation of the real problem
# ----------------------------------------------------------------------------------------------------------
class _Abort(Exception):
    """raised from the report_failure observer: the case will not be judged, so stop iterating."""


class _FailMon:
    """Solver.report_failure observer that knows *which* solver instance reported (preconditioners with a
    fixed sweep count are ignored) and aborts the run at the first genuine non-convergence report."""

    def __init__(self):
        self.failures = []
        self.ignore = set()

    def __enter__(self):
        from openmdao.solvers.solver import Solver
        self._cls = Solver
        self._orig = Solver.__dict__['report_failure']
        mon = self

        def report_failure(slf, msg):
            if id(slf) not in mon.ignore:
                mon.failures.append((type(slf).__name__, str(msg)[:120]))
                raise _Abort()
            return mon._orig(slf, msg)
        Solver.report_failure = report_failure
        return self

    def __exit__(self, *a):
        self._cls.report_failure = self._orig
        return False


class _ScaleHook:
    """counts DefaultVector.scale_to_norm / scale_to_phys calls (shows the scaled contexts really ran)."""

    def __init__(self):
        self.n = {'scale_to_norm': 0, 'scale_to_phys': 0}

    def __enter__(self):
        from openmdao.vectors.default_vector import DefaultVector
        self._cls = DefaultVector
        self._orig = {k: DefaultVector.__dict__[k] for k in self.n}
        hook = self

        def mk(name, orig):
            def f(slf, *a, **kw):
                hook.n[name] += 1
                return orig(slf, *a, **kw)
            f.__name__ = name
            return f
        for k, o in self._orig.items():
            setattr(DefaultVector, k, mk(k, o))
        return self

    def __exit__(self, *a):
        for k, o in self._orig.items():
            setattr(self._cls, k, o)
        return False


def _solvers(prob):
    import openmdao.api as om
    nls, lns, pres = [], [], []
    for s in prob.model.system_iter(include_self=True, recurse=True):
        nl = getattr(s, 'nonlinear_solver', None)
        if nl is not None and not isinstance(nl, om.NonlinearRunOnce):
            nls.append(nl)
            if getattr(nl, 'linear_solver', None) is not None:
                lns.append(nl.linear_solver)
        if getattr(s, 'linear_solver', None) is not None:
            lns.append(s.linear_solver)
    for ln in list(lns):
        if getattr(ln, 'precon', None) is not None:
            pres.append(ln.precon)
    lns = [ln for ln in lns if type(ln) in (om.LinearBlockGS, om.LinearBlockJac, om.ScipyKrylov)]
    return nls, lns, pres


def _tune_nonlinear(prob, fmon):
    """before run_model: rtol off / atol = A_NL on every nonlinear solver, so that the oracle knows what a
    convergence report means.  The linear solvers keep G's tolerances (atol = rtol = 1e-13): during run_model they
    only produce Newton steps, whose accuracy does not enter the oracle."""
    nls, lns, pres = _solvers(prob)
    for nl in nls:
        nl.options['atol'] = A_NL
        nl.options['rtol'] = RTOL_OFF
    for pre in pres:
        fmon.ignore.add(id(pre))      # fixed number of sweeps: not a convergence claim


def _tune_linear(prob, a_ln):
    """before compute_totals: rtol off / atol = a_ln on every iterative linear solver."""
    nls, lns, pres = _solvers(prob)
    for ln in lns:
        ln.options['atol'] = a_ln
        ln.options['rtol'] = RTOL_OFF


def _run_twin(G, sp, fm, mode, of_names, wrt_names, want_hook, a_ln=A_LN):
    """build, run and observe one twin.  -> dict(status=..., ...)"""
    res = {'status': 'ok'}
    hook = _ScaleHook() if want_hook else None
    with _FailMon() as fmon, poison():
        if hook:
            hook.__enter__()
        prob = None
        try:
            try:
                prob = G.build(sp, comp_factory=_ivc_factory)
                prob.setup(mode=mode)
                _tune_nonlinear(prob, fmon)
                prob.run_model()
            except _Abort:
                res.update(status='nonconverged', failures=list(fmon.failures))
                return res
            except Exception as e:
                if os.environ.get('OMV_DEBUG'):
                    import traceback
                    traceback.print_exc()
                res.update(status='raises', exc=e, where='setup-or-run')
                return res
            m = prob.model
            res['flags'] = (bool(m._has_output_scaling), bool(m._has_resid_scaling), bool(m._has_input_scaling))
            if fmon.failures:
                res.update(status='nonconverged', failures=list(fmon.failures))
                return res
            try:
                u = np.zeros(fm.nstate)
                for n in fm.state_names:
                    a, b = fm.soff[n]
                    u[a:b] = np.asarray(prob.get_val(G.abs_name(sp, n)), dtype=float).ravel()
                res['u'] = u
                ins = {}
                for cn in sp['conns']:
                    ins[cn['tgt']] = np.asarray(prob.get_val(G.abs_name(sp, cn['tgt'])), dtype=float).ravel()
                res['inputs'] = ins
            except Exception as e:
                res.update(status='raises', exc=e, where='get_val')
                return res
            try:
                _tune_linear(prob, a_ln)
                res['J'] = np.asarray(prob.compute_totals(of=of_names, wrt=wrt_names, return_format='array'),
                                      dtype=float)
            except _Abort:
                res['lin_failures'] = list(fmon.failures)
                res['J'] = None
                return res
            except Exception as e:
                if os.environ.get('OMV_DEBUG'):
                    import traceback
                    traceback.print_exc()
                res.update(status='raises', exc=e, where='compute_totals')
                return res
            # the derivative query must not move the state
            try:
                u2 = np.concatenate([np.asarray(prob.get_val(G.abs_name(sp, n)), dtype=float).ravel()
                                     for n in fm.state_names]) if fm.nstate else np.zeros(0)
                res['u_after'] = u2
            except Exception as e:
                res.update(status='raises', exc=e, where='get_val')
            return res
        finally:
            if hook:
                hook.__exit__()
                res['hook'] = dict(hook.n)
            if prob is not None:
                try:
                    prob.cleanup()
                except Exception:
                    pass


# ----------------------------------------------------------------------------------------------------------
# derived tolerances
# ----------------------------------------------------------------------------------------------------------
def _members(node):
    if 'comp' in node:
        return [node['comp']]
    out = []
    for ch in node['children']:
        out += _members(ch)
    return out


def _state_idx(spec, fm, comps):
    idx = []
    cm = {c['name']: c for c in spec['comps']}
    for cn in comps:
        c = cm[cn]
        if c['kind'] == 'ivc':
            continue
        for o in c['outputs']:
            a, b = fm.soff[o['name']]
            idx += list(range(a, b))
    return np.array(idx, dtype=int)


def _magnitudes(spec, fm, u, p):
    """per state entry: size of the operands of its residual (for round-off terms)."""
    mag = np.zeros(fm.nstate)
    for c in spec['comps']:
        if c['kind'] == 'ivc':
            continue
        xs = {i['name']: np.abs(fm.input_value(i['name'], u, p)) for i in c['inputs']}
        for o in c['outputs']:
            a, b = fm.soff[o['name']]
            t = c['terms'][o['name']]
            m = np.abs(np.asarray(t['c'], dtype=float)) + np.abs(u[a:b]) * (1.0 + abs(c.get('beta', 0.0)))
            for k, A in t['A'].items():
                m = m + np.abs(np.asarray(A)) @ xs[k]
            for k, B in t['B'].items():
                m = m + np.abs(np.asarray(B)) @ (1.0 + xs[k])
            mag[a:b] = m
    return mag


def _lipschitz(spec, fm):
    """Lipschitz constant of dF/du in the 2-norm: second derivatives are B sin(x) fac^2 and beta sin(y)."""
    s = 0.0
    beta = 0.0
    for c in spec['comps']:
        if c['kind'] == 'ivc':
            continue
        beta = max(beta, abs(c.get('beta', 0.0)))
        for o in c['outputs']:
            for k, B in c['terms'][o['name']]['B'].items():
                fac = fm.wire[k][2]
                s += float(np.sum(np.asarray(B, dtype=float) ** 2)) * fac ** 4
    return np.sqrt(s) + beta


def _bounds(spec_cell, fm, u, p, Ju, Jp, sv, pv, ofi, wrti):
    """Derived error bounds for one twin (sv/pv = its scale vectors; all ones/zeros for the plain twin).

    Nonlinear.  A solver that reports convergence with rtol off promises ||t||_2 <= A_NL for the vector t it
    tests.  Newton, Broyden, NLBJ and NLBGS(use_apply_nonlinear) test the scaled residual t_i = r_i/res_ref_i of
    every variable below them, evaluated at the final state => |r_i| <= |res_ref_i| A_NL.  NLBGS (default) tests
    the scaled change of the iterate over its last sweep, |d_k| <= |res_ref_k| A_NL; a child solved during that
    sweep then sees later children move by d, so its residual changes by at most |dF_i/du_k| |d_k| summed over the
    other children's variables k (with Aitken relaxation the sweep change is resid/theta, theta >= 0.1, and the
    relaxed point differs from the sweep result by (1-theta) of it: factor 10 and the full block instead of the
    cross-child part).  Mean-value Jacobians differ from J(u*) by O(L |d|): factor 2.  Components evaluated
    explicitly add round-off 64 eps |operands|.  Hence  rb = (I + sum_g 2 c_g |N_g|) |res_ref| A_NL + round-off,
    and the state error is |e| <= 2 |J^-1| rb  provided the Kantorovich quantity h = |J^-1|^2 L |rb| is small
    (guard h <= 0.01; the neglected second-order term is then <= 2% of |J^-1||rb| and is added uniformly).
    Stored outputs additionally carry the round-off of the affine scale/unscale round trips,
    32 eps (|u| + 2|ref0|).

    Inputs.  An input equals fac*src[pos]+off; besides the source's error it may be stale by the last change of
    the source inside a default NLBGS sweep (<= 10 |res_ref| A_NL, see above).

    Linear.  Iterative linear solvers report convergence on the scaled linear residual, which lives in
    d_residuals (fwd, t = r/res_ref) or d_outputs (rev, t = r/(ref-ref0); output and residual vectors keep the
    forward scaling convention in both modes)  =>  |r|_2 <= S A_LN with S = max|res_ref| or max|ref-ref0|, for each
    group that owns an iterative solver; the solution error is <= |M^-1|_2 times that, M the full (parameters +
    states) Jacobian.  Direct factorisations: round-off 100 eps cond, cond taken over the physical and the
    scaled matrix (the dictionary-Jacobian DirectSolver factorises the scaled one).
    """
    sa1, sr0, srr = sv
    pa1, pr0, prr = pv
    n = fm.nstate
    out = {}
    absJ = np.abs(Ju)
    N = np.zeros((n, n))
    stale_c = 0.0
    nlev_iter_ln = 0
    root_ln = spec_cell['tree']['ln']['type']
    cm = {c['name']: c for c in spec_cell['comps']}

    def walk(node, root):
        nonlocal stale_c, nlev_iter_ln
        if 'comp' in node:
            return
        nl = node.get('nl', {})
        if nl.get('type') == 'nlbgs' and not nl.get('use_apply_nonlinear'):
            kids = [_state_idx(spec_cell, fm, _members(ch)) for ch in node['children']]
            allk = np.concatenate(kids) if kids else np.zeros(0, dtype=int)
            if nl.get('use_aitken'):
                if allk.size:
                    N[np.ix_(allk, allk)] += 2.0 * 10.0 * 2.0 * absJ[np.ix_(allk, allk)]
                stale_c = max(stale_c, 10.0)
            else:
                for i, ki in enumerate(kids):
                    for j, kj in enumerate(kids):
                        if i != j and ki.size and kj.size:
                            N[np.ix_(ki, kj)] += 2.0 * absJ[np.ix_(ki, kj)]
                stale_c = max(stale_c, 1.0)
        if node.get('ln', {}).get('type') in ITERATIVE:
            nlev_iter_ln += 1
        for ch in node['children']:
            walk(ch, False)
    walk(spec_cell['tree'], True)
    mag = _magnitudes(spec_cell, fm, u, p)
    rb = (np.eye(n) + N) @ (np.abs(srr) * A_NL) + 64.0 * EPS * mag
    Jinv = np.linalg.inv(Ju) if n else np.zeros((0, 0))
    nJinv = np.linalg.norm(Jinv, 2) if n else 0.0
    L = _lipschitz(spec_cell, fm)
    h = nJinv ** 2 * L * np.linalg.norm(rb)
    out['h'] = h
    eb = 2.0 * np.abs(Jinv) @ rb + 0.04 * nJinv * np.linalg.norm(rb) + 32.0 * EPS * (np.abs(u) + 2.0 * np.abs(sr0))
    out['ebound'] = eb
    out['stale'] = stale_c * np.abs(srr) * A_NL
    # ---- linear
    npar = fm.nparam
    M = np.zeros((npar + n, npar + n))
    M[:npar, :npar] = np.eye(npar)
    M[npar:, :npar] = Jp
    M[npar:, npar:] = Ju
    a1f = np.concatenate([pa1, sa1])
    rrf = np.concatenate([prr, srr])
    Ms = M * a1f[None, :] / rrf[:, None]
    Mr = (M * rrf[:, None] / a1f[None, :]).T       # rev: (Dr M Du^-1)^T xs = bs with xs = x/res_ref, bs = b/(ref-ref0)
    conds = [np.linalg.cond(X) if X.size else 1.0 for X in (M, Ms, Mr)]
    out['cond_scaled'] = max(conds[1:])
    nMinv = np.linalg.norm(np.linalg.inv(M), 2) if M.size else 0.0
    iterative = root_ln in ITERATIVE or (root_ln != 'direct' and nlev_iter_ln > 0)
    out['iterative'] = iterative
    out['rel_J'] = max(BASE_ITER if iterative else BASE_DIRECT, 100.0 * EPS * max(conds))
    S = {'fwd': max(1.0, float(np.max(np.abs(rrf), initial=1.0))),
         'rev': max(1.0, float(np.max(np.abs(a1f), initial=1.0)))}
    # atol of the iterative linear solvers during compute_totals: as tight as the round-off floor of the scaled
    # system allows.  Seeds are unit vectors in the scaled vectors (wrt entries in fwd, of entries in rev); the
    # floor of the residual evaluation is eps * | |Ms| |xs| |_2 for the exact scaled solution xs.
    out['A_LN'] = {}
    out['abs_J'] = {}
    for m, X, seeds in (('fwd', Ms, wrti), ('rev', Mr, ofi)):
        if not X.size or not iterative:
            out['A_LN'][m] = A_LN
            out['abs_J'][m] = 0.0
            continue
        Xinv = np.linalg.inv(X)
        floor = max((np.linalg.norm(np.abs(X) @ np.abs(Xinv[:, j])) for j in seeds), default=0.0) * EPS
        a_ln = max(A_LN, 100.0 * floor)
        out['A_LN'][m] = a_ln
        nlev = np.sqrt(max(1, nlev_iter_ln))
        # physical residual bound -> physical solution error (seed of physical size 1) ...
        b1 = 2.0 * nMinv * S[m] * a_ln * nlev / (min(np.abs(rrf[wrti])) if m == 'fwd' else min(np.abs(a1f[ofi])))
        # ... or scaled solution error mapped back: dJ[i,j] = a1_i dxs_i / res_ref_j (fwd), res_ref_j dxs_j / a1_i (rev)
        if m == 'fwd':
            conv = np.max(np.abs(a1f[ofi])) / np.min(np.abs(rrf[wrti]))
        else:
            conv = np.max(np.abs(rrf[wrti])) / np.min(np.abs(a1f[ofi]))
        b2 = 2.0 * np.linalg.norm(Xinv, 2) * a_ln * nlev * conv
        out['abs_J'][m] = min(b1, b2)
    return out


def _relevant_wrt(spec_cell, fm, Ju, Jp):
    """spec['wrt'], minus - when a ScipyKrylov solver takes part - the parameters no response depends on: GMRES
    reports a breakdown on the zero operator that relevance leaves for such a seed (plain twin as well; not a
    scaling matter), which would only make the case unjudgeable."""
    wrt, of = spec_cell['wrt'], spec_cell['of']
    kry = [1 for nl, ln in tree_solvers(spec_cell) if ln in ('krylov', 'krylov+lnbgs')]
    if not kry or not fm.nstate:
        return list(wrt)
    B = (Ju != 0).astype(float)
    reach = np.eye(fm.nstate)
    for _ in range(fm.nstate):
        new = ((reach + reach @ B) > 0).astype(float)
        if np.array_equal(new, reach):
            break
        reach = new
    dep = (reach @ (Jp != 0).astype(float)) > 0
    rows = np.concatenate([np.arange(*fm.soff[o]) for o in of])
    keep = [w for w in wrt if dep[np.ix_(rows, np.arange(*fm.poff[w]))].any()]
    return keep or list(wrt)


def _ref_totals(fm, of, wrt, u, p):
    S, _ = fm.du_dp(u, p)
    return np.vstack([np.hstack([fm.total(o, w, u, p, S) for w in wrt]) for o in of])


# ----------------------------------------------------------------------------------------------------------
def run_case(case, acc):
    if case.get('kind') == 'guess':
        return run_guess_case(case, acc)
    from omv.gen import models as G
    from omv.ref.flatmodel import FlatModel
    seed = case['seed']
    tier = case.get('tier', 'quick')
    rng = random.Random(seed)
    spec = G.gen_spec(rng, dict(OPTS))
    fm = FlatModel(spec)
    p = fm.p0()
    u, conv = fm.solve()
    if not conv:
        acc.skip('oracle-newton-not-converged')
        return
    if fm.selfcheck(u, p) > 1e-8:
        acc.skip('oracle-selfcheck-failed')
        return
    Ju, Jp = fm.jac(u, p)
    cond = np.linalg.cond(Ju) if fm.nstate else 1.0
    if cond > 1e8:
        acc.skip('ill-conditioned')
        return
    rs = random.Random(seed * 7 + 1)
    wide = rs.random() < 0.4
    sspec = add_scaling(spec, rs, wide)
    feats = scaling_features(sspec)
    sv, pv = scale_vectors(sspec, fm)
    ones = (np.ones(fm.nstate), np.zeros(fm.nstate), np.ones(fm.nstate))
    onep = (np.ones(fm.nparam), np.zeros(fm.nparam), np.ones(fm.nparam))
    if case.get('cell'):
        cells = [list(case['cell'])]
    else:
        cells = choose_cells(spec, seed, 3 if tier == 'quick' else 4)
    for cell in cells:
        try:
            _run_cell(G, fm, spec, sspec, feats, (sv, pv), (ones, onep), u, p, Ju, Jp, cell,
                      dict(case, cell=cell), acc)
        except Exception as e:      # harness problem in one cell must not take the shard down silently
            if os.environ.get('OMV_DEBUG'):
                import traceback
                traceback.print_exc()
            acc.count('harness-error:%s' % type(e).__name__)
            raise


def _run_cell(G, fm, spec, sspec, feats, scal, unscal, ustar, p, Ju, Jp, cell, ccase, acc):
    nlv, lnv, mode = cell
    sp_p = set_cell(spec, nlv, lnv)
    sp_s = set_cell(sspec, nlv, lnv)
    if sp_p is None or sp_s is None:
        acc.skip('cell-not-applicable')
        return
    nl_name, ln_name = cell_names(sp_p, nlv, lnv)
    of, wrt = spec['of'], _relevant_wrt(sp_p, fm, Ju, Jp)
    of_names = [G.top_name(spec, o) for o in of]
    wrt_names = [G.top_name(spec, w) for w in wrt]
    fkey = '+'.join(feats)

    def K(what):
        # observable first, then what matters most for it, so that prefix wildcards in known_findings are useful
        if 'totals' in what:
            return '%s:ln=%s:mode=%s:nl=%s:scaling=%s' % (what, ln_name, mode, nl_name, fkey)
        return '%s:nl=%s:scaling=%s' % (what, nl_name, fkey)

    # ---- derived bounds (from R and the spec only)
    ofi = np.concatenate([np.arange(*fm.soff[o]) + fm.nparam for o in of])
    wrti = np.concatenate([np.arange(*fm.poff[w]) for w in wrt])
    bp = _bounds(sp_p, fm, ustar, p, Ju, Jp, *unscal, ofi, wrti)
    bs = _bounds(sp_s, fm, ustar, p, Ju, Jp, *scal, ofi, wrti)
    if max(bp['h'], bs['h']) > 0.01:
        acc.skip('linearisation-guard(h>0.01)')
        return
    scale_u = max(1.0, float(np.max(np.abs(ustar), initial=0.0)))
    if max(np.max(bs['ebound'], initial=0.0), np.max(bp['ebound'], initial=0.0)) > LOOSE * scale_u:
        acc.skip('derived-value-tolerance-too-loose')
        return

    # ---- the twins
    rp = _run_twin(G, sp_p, fm, mode, of_names, wrt_names, False, bp['A_LN'][mode])
    if rp['status'] == 'raises':
        acc.skip('plain-twin-raises(not a scaling matter)')
        return
    if rp['status'] == 'nonconverged':
        acc.skip('plain-twin-solver-nonconvergence')
        return
    if rp['flags'][0] or rp['flags'][1]:
        raise RuntimeError('plain twin reports output/residual scaling')
    acc.count('obs:plain-twin-unscaled')
    rsd = _run_twin(G, sp_s, fm, mode, of_names, wrt_names, True, bs['A_LN'][mode])
    if rsd['status'] == 'raises':
        e = rsd['exc']
        k = exc_key('scaled-twin-' + rsd['where'], e)
        if known_ref0_defect_outputs(sp_s) and isinstance(e, ValueError) and rsd['where'] == 'setup-or-run' and \
                k.split('@')[-1] in ('group.py:_compute_root_scale_factors', 'default_vector.py:_set_scaling'):
            key = 'array-ref0+scalar-ref+src_indices-subset:final_setup-raises-ValueError'
        else:
            key = K(k)
        acc.viol(key, 'only the scaled twin raises %s: %s' % (type(e).__name__, str(e)[:200]), ccase)
        return
    if rsd['status'] == 'nonconverged':
        acc.skip('scaled-twin-solver-nonconvergence')
        return
    fo, fr, fi = rsd['flags']
    if fo:
        acc.count('obs:output-scaling-active')
    if fr:
        acc.count('obs:resid-scaling-active')
    if fi:
        acc.count('obs:input-scaling-active')
    for k, v in rsd.get('hook', {}).items():
        if v:
            acc.count('hook:' + k, v)

    bad = []

    def cmp_vals(tag, got, ref, tol_abs, rel=BASE_DIRECT):
        got = np.asarray(got, dtype=float).ravel()
        ref = np.asarray(ref, dtype=float).ravel()
        if got.shape != ref.shape:
            return 'shape %s != %s' % (got.shape, ref.shape)
        if got.size == 0:
            return None
        if not np.all(np.isfinite(got)):
            return 'non-finite values'
        tol = rel * max(1.0, float(np.max(np.abs(ref)))) + tol_abs
        err = np.abs(got - ref)
        if np.any(err > tol):
            i = int(np.argmax(err - tol))
            return 'max |diff| %.3e at [%d] (tolerance %.3e)' % (err[i], i, float(np.broadcast_to(tol, err.shape)[i]))
        return None

    # ---- plain twin against R.  A disagreement here is not a scaling matter (C01/C04 territory), but DESIGN lists
    #      "either twin differs from R" as a refutation: reported under its own key, the scaled twin is then not judged
    plain_bad = None
    for n in fm.state_names:
        a, b = fm.soff[n]
        m = cmp_vals('', rp['u'][a:b], ustar[a:b], bp['ebound'][a:b])
        if m:
            plain_bad = ('outputs', '%s: %s' % (n, m))
            break
    Jref_p = _ref_totals(fm, of, wrt, rp['u'], p)
    lin_fail_p = bool(rp.get('lin_failures'))
    if plain_bad is None and not lin_fail_p and bp['rel_J'] <= 1e-5:
        m = cmp_vals('', rp['J'], Jref_p, bp['abs_J'][mode], bp['rel_J'])
        if m:
            plain_bad = ('totals', m)
    if plain_bad:
        acc.viol('plain-twin-%s-differ-from-reference(no-scaling-involved):nl=%s:ln=%s:mode=%s' %
                 (plain_bad[0], nl_name, ln_name, mode), plain_bad[1], ccase)
        return

    # ---- scaled twin: outputs
    us = rsd['u']
    for n in fm.state_names:
        a, b = fm.soff[n]
        m = cmp_vals('', us[a:b], ustar[a:b], bs['ebound'][a:b])
        if m:
            bad.append(('outputs-vs-reference', '%s: %s' % (n, m)))
            break
    acc.count('obs:values-compared')
    for n in fm.state_names:
        a, b = fm.soff[n]
        m = cmp_vals('', us[a:b], rp['u'][a:b], bs['ebound'][a:b] + bp['ebound'][a:b])
        if m:
            bad.append(('outputs-vs-plain-twin', '%s: %s' % (n, m)))
            break
    if 'u_after' in rsd and not np.array_equal(rsd['u_after'], us):
        if cmp_vals('', rsd['u_after'], us, 32.0 * EPS * (np.abs(us) + 2.0 * np.abs(scal[0][1])), rel=0.0):
            bad.append(('outputs-moved-by-compute_totals', 'max %.3e' % np.max(np.abs(rsd['u_after'] - us))))
    # ---- scaled twin: inputs
    for cn in spec['conns']:
        src, pos, fac, offs = fm.wire[cn['tgt']]
        ref = fm.input_value(cn['tgt'], ustar, p)
        if src in fm.soff:
            a, _ = fm.soff[src]
            tol = abs(fac) * (bs['ebound'][a + pos] + bs['stale'][a + pos])
            tolp = abs(fac) * (bp['ebound'][a + pos] + bp['stale'][a + pos])
        else:
            tol = tolp = np.zeros(pos.size)
        m = cmp_vals('', rsd['inputs'][cn['tgt']], ref, tol)
        if m:
            bad.append(('inputs-vs-reference', '%s: %s' % (cn['tgt'], m)))
            break
        m = cmp_vals('', rsd['inputs'][cn['tgt']], rp['inputs'][cn['tgt']], tol + tolp)
        if m:
            bad.append(('inputs-vs-plain-twin', '%s: %s' % (cn['tgt'], m)))
            break
    acc.count('obs:inputs-compared')
    # ---- scaled twin: totals (reference evaluated at the twin's own point)
    lin_fail_s = bool(rsd.get('lin_failures'))
    totals_judged = False
    if lin_fail_s or lin_fail_p:
        acc.count('unjudged:totals(linear-solver-nonconvergence)')
    elif bs['rel_J'] > 1e-5:
        acc.count('unjudged:totals(scaled-system-ill-conditioned)')
    elif max(bs['abs_J'][mode], bp['abs_J'][mode]) > 1e-5 * max(1.0, float(np.max(np.abs(Jref_p), initial=0.0))):
        acc.count('unjudged:totals(derived-linear-tolerance-too-loose)')
    elif bad:
        pass        # totals at a wrong point are not a separate finding
    else:
        Jref_s = _ref_totals(fm, of, wrt, us, p)
        m = cmp_vals('', rsd['J'], Jref_s, bs['abs_J'][mode], bs['rel_J'])
        if m:
            bad.append(('totals-vs-reference', m))
        drift = float(np.max(np.abs(Jref_s - Jref_p), initial=0.0))
        m = cmp_vals('', rsd['J'], rp['J'], bs['abs_J'][mode] + bp['abs_J'][mode] + drift,
                     bs['rel_J'] + bp['rel_J'])
        if m:
            bad.append(('totals-vs-plain-twin', m))
        acc.count('obs:totals-compared')
        totals_judged = True
    acc.count('obs:twin-vs-twin-compared')
    # ---- bookkeeping
    acc.count('cell:nl=' + nl_name)
    acc.count('cell:ln=' + ln_name)
    acc.count('cell:mode=' + mode)
    for f in feats:
        acc.count('scal:' + f)
    for nl, ln in tree_solvers(sp_s)[1:]:
        acc.count('sub:nl=%s' % nl)
    if bad:
        first = True
        only_totals = all(w.startswith('totals-') for w, _ in bad)
        taints = known_taints(sp_s, mode)
        for what, msg in bad[:3]:
            if only_totals and taints:
                key = taints[0] + ':' + what
            else:
                key = K('scaled-twin-' + what)
            acc.viol(key, msg, ccase, new_case=first)
            first = False
        return
    acc.ok(fingerprint([feats, tree_solvers(sp_s), nl_name, ln_name, mode]), nontrivial=bool(fo or fr),
           sample={'seed': ccase['seed'], 'cell': cell, 'scaling': feats, 'solvers': tree_solvers(sp_s),
                   'totals_judged': totals_judged,
                   'scaled_outputs': {o['name']: {k: o[k] for k in ('ref', 'ref0', 'res_ref') if k in o}
                                      for c in sp_s['comps'] for o in c['outputs']
                                      if any(k in o for k in ('ref', 'ref0', 'res_ref'))}})


# ----------------------------------------------------------------------------------------------------------
# 'guess' stratum: what a user guess_nonlinear sees / writes is physical, and the root it selects is the
# same with and without scaling (omv/gen/c08_guess.py)
# ----------------------------------------------------------------------------------------------------------
def _guess_feats(case):
    f = set()
    for st in case['states']:
        f.update('x:' + x for x in st['x_feats'])
        f.update('a:' + x for x in st['a_feats'])
        if st['fac'] != 1.0 or st['off'] != 0.0:
            f.add('units')
    return sorted(f)


def _run_guess_twin(K, case, scaled):
    """-> dict(status, seen=[per run], x=[per run {state: value}], flags)"""
    res = {'status': 'ok', 'runs': []}
    prob = None
    try:
        prob, seen, paths = K.build(case, scaled)
        prob.setup()
        for run in range(1 + case['reruns']):
            del seen[:]
            for st in case['states']:
                x0 = K.initial_x(st)
                prob.set_val(paths[st['name']] + '.x', x0.reshape(tuple(st['shape'])) if st['shape'] else float(x0[0]))
            try:
                prob.run_model()
            except Exception as e:
                if type(e).__name__ == 'AnalysisError':
                    res['status'] = 'nonconverged'
                    return res
                raise
            xs = {st['name']: np.asarray(prob.get_val(paths[st['name']] + '.x'), dtype=float).ravel().copy()
                  for st in case['states']}
            res['runs'].append({'seen': list(seen), 'x': xs})
        m = prob.model
        res['flags'] = (bool(m._has_output_scaling), bool(m._has_resid_scaling), bool(m._has_input_scaling))
        return res
    except Exception as e:
        if os.environ.get('OMV_DEBUG'):
            import traceback
            traceback.print_exc()
        res.update(status='raises', exc=e)
        return res
    finally:
        if prob is not None:
            try:
                prob.cleanup()
            except Exception:
                pass


def run_guess_case(case, acc):
    from omv.gen import c08_guess as K
    full = K.gen_case(case['seed'])
    level, solver = full['level'], full['solver']
    feats = _guess_feats(full)
    ccase = {'seed': case['seed'], 'kind': 'guess', 'tier': case.get('tier', 'quick')}
    fp = fingerprint(('guess', level, solver, tuple(feats), tuple(tuple(st['shape']) for st in full['states'])))
    with poison():
        plain = _run_guess_twin(K, full, False)
        scal = _run_guess_twin(K, full, True)
    acc.count('guess:level=' + level)
    acc.count('guess:solver=' + solver)
    for f in feats:
        acc.count('guess:scal:' + f)
    depth = {'root': 0, 'nested': 2}.get(level, 1)       # levels between the root and the group holding the states
    for st in full['states']:
        if st['x_scal']:
            acc.count('guess:route=' + st['route'])
            if st['route'] == 'options@root' and depth == 2:
                acc.count('guess:route=options-two-or-more-levels-above-the-component-group')
    for name, tw in (('plain', plain), ('scaled', scal)):
        if tw['status'] == 'raises':
            acc.viol('%s:level=%s' % (exc_key('guess:%s-twin' % name, tw['exc']), level),
                     '%s twin of a model with a user guess_nonlinear raises %r' % (name, tw['exc']), ccase, fp=fp)
            return
    if plain['status'] != 'ok' or scal['status'] != 'ok':
        acc.skip('guess:solver-not-converged')
        return
    if not (scal['flags'][0] or scal['flags'][1]):
        acc.skip('guess:scaling-not-active')
        return
    if plain['flags'][0] or plain['flags'][1]:
        acc.viol('guess:plain-twin-has-scaling', 'plain twin reports active scaling', ccase, fp=fp)
        return
    acc.count('obs:guess:scaling-active')
    bad = []
    stmap = {st['name']: st for st in full['states']}

    def scale_of(st):
        # magnitude against which round-off of the scale/unscale round trip is measured
        kw = st['x_scal']
        mags = [1.0] + [abs(v) for k in ('ref', 'ref0') for v in np.atleast_1d(kw.get(k, 0.0))]
        return max(mags)

    for name, tw in (('plain', plain), ('scaled', scal)):
        for ri, run in enumerate(tw['runs']):
            tag = ('' if ri == 0 else ':rerun')
            # ---- what the guesses saw -------------------------------------------------------------------------
            current = {st['name']: K.initial_x(st) for st in full['states']}
            for (w, sname, sv) in run['seen']:
                st = stmap[sname]
                lv = 'comp' if w == 'comp' else 'group'
                acc.count('obs:guess:%s-level-call' % lv)
                tol = 1e-10 * (scale_of(st) + np.max(np.abs(current[sname])))
                if not np.allclose(sv['outputs'], current[sname], rtol=0, atol=tol):
                    bad.append(('%s-guess-sees-nonphysical-outputs%s' % (lv, tag), name,
                                '%s twin: %s-level guess_nonlinear (%s) saw outputs[%s.x]=%s, physical value is %s'
                                % (name, lv, w, sname, sv['outputs'], current[sname])))
                a_t = K.a_target(st)
                if not np.allclose(sv['inputs'], a_t, rtol=1e-10, atol=0):
                    bad.append(('%s-guess-sees-nonphysical-inputs%s' % (lv, tag), name,
                                '%s twin: %s-level guess_nonlinear (%s) saw inputs[%s.a]=%s, physical value is %s'
                                % (name, lv, w, sname, sv['inputs'], a_t)))
                if w == 'comp':
                    # the component-level guess is documented to get current residuals
                    r_e = K.resid_at(st, current[sname])
                    rtol_r = 1e-9 * (np.max(np.abs(r_e)) + np.max(np.abs(st['s'] * a_t)) + 1.0)
                    if not np.allclose(sv['residuals'], r_e, rtol=0, atol=rtol_r):
                        bad.append(('comp-guess-sees-nonphysical-residuals%s' % tag, name,
                                    '%s twin: component guess_nonlinear saw residuals[%s.x]=%s, physical value is %s'
                                    % (name, sname, sv['residuals'], r_e)))
                    acc.count('obs:guess:comp-residuals-compared')
                if w in st['writers']:
                    current[sname] = K.guess_x(st, w)
            # every writer must have been called
            called = set((w, s) for (w, s, _) in run['seen'])
            for st in full['states']:
                for w in st['writers']:
                    if (w, st['name']) not in called:
                        bad.append(('guess-not-called%s' % tag, name, '%s twin: %s guess for %s was never called'
                                    % (name, w, st['name'])))
            # ---- the root the model converged to ------------------------------------------------------------------
            if solver != 'broyden':
                for st in full['states']:
                    xr, xo = K.root_x(st), K.other_root_x(st)
                    x = run['x'][st['name']]
                    tol = 1e-6 * (1.0 + np.abs(xr))
                    if not np.all(np.abs(x - xr) <= tol):
                        on_other = bool(np.any(np.abs(x - xo) <= tol))
                        bad.append(('%s%s' % ('converged-to-the-other-root' if on_other else 'converged-value-wrong', tag),
                                    name, '%s twin: %s.x converged to %s; the guess selects the root %s (other root %s)'
                                    % (name, st['name'], x, xr, xo)))
                acc.count('obs:guess:root-compared')
    # ---- group-level residuals: twin against twin (their content at guess time is not specified, their scaling is)
    for ri, (rp, rs_) in enumerate(zip(plain['runs'], scal['runs'])):
        if len(rp['seen']) == len(rs_['seen']):
            for (w, sname, a), (w2, sname2, b) in zip(rp['seen'], rs_['seen']):
                if w != 'comp' and (w, sname) == (w2, sname2):
                    st = stmap[sname]
                    mag = np.max(np.abs(a['residuals'])) + np.max(np.abs(st['s'] * K.a_target(st))) + 1.0
                    acc.count('obs:guess:group-residuals-twin-compared')
                    if not np.allclose(a['residuals'], b['residuals'], rtol=0, atol=1e-8 * mag):
                        bad.append(('group-guess-sees-scaled-residuals' + ('' if ri == 0 else ':rerun'), 'scaled',
                                    'group-level guess_nonlinear saw residuals[%s.x]=%s in the scaled twin, %s in the '
                                    'plain twin' % (sname, b['residuals'], a['residuals'])))
    if not bad:
        acc.ok(fp=fp, nontrivial=True)
        return
    done = set()
    first = True
    for key, twin, what in bad:
        k = 'guess:%s:%s-twin:level=%s' % (key, twin, level)
        if k in done:
            continue
        done.add(k)
        acc.viol(k, what, ccase, fp=fp, new_case=first)
        first = False
