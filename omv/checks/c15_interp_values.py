"""C15 - Table interpolation is exact on nodes and reproduces its polynomial degree.

Monitor: reference comparison at the API boundary (InterpND.interpolate, MetaModelStructuredComp /
MetaModelSemiStructuredComp outputs).  For every generated table (method, dimension, per-axis grid
located in a positive / negative / zero-straddling / zero-ending / zero-starting range, random
spacing ratios) two value arrays are interpolated:

* a random table      -> value at a grid node must be the table value; the fixed-dimension variant
                         must agree with the general method; batched and one-point calls agree;
* a table sampled from a random tensor polynomial of the degree the method is exact for
                      -> the interpolant must equal the polynomial at nodes, cell interiors, on
                         both boundaries and just inside them.

With extrapolate=False every out-of-bounds point must raise and no in-bounds point (including the
points exactly on either boundary) may raise.

Tolerances: omv.ref.interp_ref.value_tol = 32*ndim*eps*kappa*max|v|, kappa being the derived
round-off amplification of the method's evaluation formula on that grid (Lebesgue-type sums).
Cases whose derived tolerance exceeds 1e-6*max|v| are discarded (ill-conditioned grid).
"""
import sys
import traceback
import os

import numpy as np

from omv.core import fingerprint
from omv.ref import interp_ref as R

PROPERTY = 'C15'
LEVEL = 'exploration'
TECHNIQUE = 'runtime monitoring: generating polynomial / table value / general-vs-fixed differential at the interpolation API'
RULE = ('tables enumerated over (method x dimension 1-3 x driver) with random per-axis point counts (method '
        'minimum .. 8), grid location kinds {pos,neg,straddle,end-zero,start-zero}, spacing ratios up to 50, '
        'extrapolate flag; ~40 query points per table (nodes, interiors, both boundaries, just inside, just '
        'outside, far outside); distinct = distinct (method, driver, dims, point counts, location kinds, '
        'extrapolate); non-trivial = table built and at least one in-bounds point judged')
LEVEL_TEXT = ('randomised exploration with derived round-off tolerances; every table method and fixed variant, '
              'both evaluation paths (one point / batched), three drivers')
ASSUMPTIONS = ['a point is "outside" when it is at least 1e-9*max(span,|g|) beyond the grid (the 1e-14 relative '
               'slack InterpND grants is not probed)',
               'scipy_* methods are exact for polynomials of their (order-reduced) spline degree: scipy '
               'make_interp_spline default not-a-knot conditions',
               'any exception counts as "an error is raised" for out-of-bounds points',
               'tables whose derived tolerance exceeds 1e-6*max|v| are discarded as ill-conditioned']
MIN_JUDGED = {'quick': 350, 'thorough': 5000}
SHARD_TIMEOUT = {'quick': 600, 'thorough': 2400}

GENERAL = ['slinear', 'lagrange2', 'lagrange3', 'cubic', 'akima',
           'scipy_slinear', 'scipy_cubic', 'scipy_quintic']
FIXED = sorted(R.FIXED_DIM)
SEMI = ['slinear', 'lagrange2', 'lagrange3', 'akima']

REQUIRED_COUNTERS = (['obs:node-value', 'obs:exactness', 'obs:single-after-batched', 'obs:fixed-vs-general', 'obs:batch-vs-single',
                      'obs:boundary-point-evaluated', 'obs:oob-raised', 'obs:in-bounds-no-raise',
                      'obs:mmsc-output', 'obs:mmsc-oob-raised', 'obs:semi-output', 'obs:constant-table',
                      'obs:mmsc-constant-table',
                      'obs:grid:end-neg', 'obs:grid:end-zero', 'obs:grid:end-pos']
                     + ['cell:interp:' + m for m in GENERAL + FIXED]
                     + ['cell:mmsc:' + m for m in GENERAL + FIXED]
                     + ['cell:semi:' + m for m in SEMI])

ILL = 1e-6


# ------------------------------------------------------------------------------------------------
def _where(e):
    tb = traceback.extract_tb(e.__traceback__)
    for fr in reversed(tb):
        if '/openmdao/' in fr.filename:
            return '%s:%s' % (os.path.basename(fr.filename), fr.name)
    return '?'


def _axis_class(grids, x, on_boundary_only):
    """Worst grid class among the axes concerned (end-neg > end-zero > end-pos)."""
    cl = []
    for g, xd in zip(grids, x):
        if (not on_boundary_only) or xd == g[0] or xd == g[-1]:
            cl.append(R.grid_class(g))
    for c in ('end-neg', 'end-zero', 'end-pos'):
        if c in cl:
            return c
    return 'none'


def _exc_key(driver, method, e, context, cls=None, grids=None, x=None, axis=None):
    """Mechanism key for an exception on a legal call.  The mechanism (exception type + raising function)
    comes first, the cell (driver, method) last, so that a '*' prefix can cover one mechanism narrowly.

    Raised by the bounds test itself -> 'bounds:in-bounds-raises:<Exc>@<where>:axis=<class of the grid axis the
    point sits on>:pt=<point class>:driver=<driver>';
    the one-point call after a batched call on a fixed table (one mechanism for all fixed tables) ->
    'fixed:single-after-batched-raises:<Exc>@<where>:<method>';
    raised by evaluation code -> 'raises:<Exc>@<where>:<context>:<driver>:<method>'."""
    w = _where(e)
    n = type(e).__name__
    if context == 'in-bounds' and (w.endswith(':_interpolate') or w.endswith(':bracket')):
        if axis is None:
            axis = _axis_class(grids, x, cls in ('on-boundary', 'boundary'))
        return 'bounds:in-bounds-raises:%s@%s:axis=%s:pt=%s:driver=%s' % (n, w, axis, cls, driver)
    if context == 'single-after-batched' and method in R.FIXED_DIM:
        return 'fixed:single-after-batched-raises:%s@%s:%s' % (n, w, method)
    return 'raises:%s@%s:%s:%s:%s' % (n, w, context, driver, method)


def _outside_axis_class(grids, x):
    """Grid class of the axis (axes) on which x lies outside the grid."""
    cl = [R.grid_class(g) for g, xd in zip(grids, x) if xd < g[0] or xd > g[-1]]
    for c in ('end-neg', 'end-zero', 'end-pos'):
        if c in cl:
            return c
    return 'none'


def build(case):
    """Regenerate everything random about a table from the case description."""
    rng = np.random.default_rng(case['seed'])
    method = case['method']
    grids = [R.make_grid(rng, n, k, case['max_ratio']) for n, k in zip(case['npts'], case['kinds'])]
    if method in R.SCIPY_ORDER:
        deg = [min(R.SCIPY_ORDER[method], len(g) - 1) for g in grids]
    else:
        deg = [R.EXACT_DEGREE[method]] * len(grids)
    poly = R.TensorPoly(rng, grids, deg)
    tab_poly = poly.table(grids)
    scale = 10.0 ** rng.uniform(-2, 2)
    tab_rand = rng.uniform(-1.0, 1.0, size=tab_poly.shape) * scale
    pts = gen_points(rng, grids)
    return rng, grids, poly, tab_poly, tab_rand, pts


def gen_points(rng, grids):
    """-> list of (x, cls, node_index or None); cls in node / interior / on-boundary / just-inside /
    outside-near / outside-far."""
    nd = len(grids)
    out = []

    def interior_coord(g):
        i = rng.integers(0, len(g) - 1)
        return g[i] + (g[i + 1] - g[i]) * rng.uniform(0.05, 0.95)

    def off(g):
        return 1e-9 * max(g[-1] - g[0], abs(g[0]), abs(g[-1]))

    # nodes: the two extreme corners + random nodes
    idxs = [tuple(0 for _ in grids), tuple(len(g) - 1 for g in grids)]
    for _ in range(6):
        idxs.append(tuple(int(rng.integers(0, len(g))) for g in grids))
    for ix in idxs:
        x = np.array([g[i] for g, i in zip(grids, ix)])
        onb = any(i == 0 or i == len(g) - 1 for g, i in zip(grids, ix))
        out.append((x, 'on-boundary' if onb else 'node', ix))
    # strictly interior nodes (when they exist)
    if all(len(g) > 2 for g in grids):
        for _ in range(4):
            ix = tuple(int(rng.integers(1, len(g) - 1)) for g in grids)
            out.append((np.array([g[i] for g, i in zip(grids, ix)]), 'node', ix))
    for _ in range(8):
        out.append((np.array([interior_coord(g) for g in grids]), 'interior', None))
    for d in range(nd):
        for side in (0, -1):
            x = np.array([interior_coord(g) for g in grids])
            x[d] = grids[d][side]
            out.append((x, 'on-boundary', None))
            x = np.array([interior_coord(g) for g in grids])
            x[d] = grids[d][side] + (off(grids[d]) if side == 0 else -off(grids[d]))
            out.append((x, 'just-inside', None))
            x = np.array([interior_coord(g) for g in grids])
            x[d] = grids[d][side] - (off(grids[d]) if side == 0 else -off(grids[d]))
            out.append((x, 'outside-near', None))
            x = np.array([interior_coord(g) for g in grids])
            far = (grids[d][-1] - grids[d][0]) * rng.uniform(0.05, 2.0)
            x[d] = grids[d][side] - (far if side == 0 else -far)
            out.append((x, 'outside-far', None))
    return out


def _inb(cls):
    return not cls.startswith('outside')


class _Report(object):
    """First discrepancy of a table counts the case; later ones do not."""

    def __init__(self, acc, case):
        self.acc = acc
        self.case = case
        self.bad = False

    def viol(self, key, what):
        self.acc.viol(key, what, self.case, new_case=not self.bad)
        self.bad = True


def _tols(method, grids, pts, vmax):
    out = []
    for x, cls, ix in pts:
        out.append(R.value_tol(method, grids, x, vmax) if _inb(cls) else None)
    return out


# ------------------------------------------------------------------------------------------------
def judge_interp(case, acc):
    from openmdao.components.interp_util.interp import InterpND
    method = case['method']
    ex = case['extrapolate']
    rng, grids, poly, tab_poly, tab_rand, pts = build(case)
    rep = _Report(acc, case)
    nd = len(grids)
    vmax_r = float(np.abs(tab_rand).max())
    vmax_p = max(float(np.abs(tab_poly).max()), poly.abs_sum)
    try:
        it_r = InterpND(method=method, points=tuple(grids), values=tab_rand.copy(), extrapolate=ex)
        it_p = InterpND(method=method, points=tuple(grids), values=tab_poly.copy(), extrapolate=ex)
        it_g = None
        if method in R.FIXED_DIM:
            it_g = InterpND(method=R.GENERAL_OF[method], points=tuple(grids), values=tab_rand.copy(),
                            extrapolate=ex)
    except Exception as e:  # a legal table must be accepted
        rep.viol(_exc_key('interp', method, e, 'construct'), str(e)[:200])
        return
    acc.count('cell:interp:' + method)
    for g in grids:
        acc.count('obs:grid:' + R.grid_class(g))

    tol_r = _tols(method, grids, pts, vmax_r)
    tol_p = _tols(method, grids, pts, vmax_p)
    if max(t / vmax_r for t in tol_r if t is not None) > ILL:
        acc.skip('ill-conditioned-grid')
        return
    single_r = {}
    judged_any = False
    for k, (x, cls, ix) in enumerate(pts):
        if _inb(cls):
            # ---- in-bounds: must not raise
            try:
                vr = float(np.asarray(it_r.interpolate(x.copy())).ravel()[0])
                vp = float(np.asarray(it_p.interpolate(x.copy())).ravel()[0])
            except Exception as e:
                rep.viol(_exc_key('interp', method, e, 'in-bounds', cls, grids, x),
                         '%s x=%s grid ends=%s: %s: %s' % (method, x.tolist(),
                                                         [(float(g[0]), float(g[-1])) for g in grids],
                                                         type(e).__name__, str(e)[:120]))
                continue
            judged_any = True
            acc.count('obs:in-bounds-no-raise')
            if cls == 'on-boundary':
                acc.count('obs:boundary-point-evaluated')
            single_r[k] = vr
            if ix is not None:
                acc.count('obs:node-value')
                ref = float(tab_rand[ix])
                if not abs(vr - ref) <= tol_r[k]:
                    rep.viol('node-value:interp:%s' % method,
                             'node %s: got %r, table %r (|d|=%.3g, tol %.3g)' % (list(ix), vr, ref, abs(vr - ref),
                                                                                 tol_r[k]))
            acc.count('obs:exactness')
            ref = poly(x)
            tol = tol_p[k] + 8 * R.EPS * poly.abs_sum
            if not abs(vp - ref) <= tol:
                rep.viol('exactness:interp:%s' % method,
                         '%s point %s: got %r, polynomial %r (|d|=%.3g, tol %.3g)' % (cls, x.tolist(), vp, ref,
                                                                                     abs(vp - ref), tol))
            if it_g is not None:
                try:
                    vg = float(np.asarray(it_g.interpolate(x.copy())).ravel()[0])
                except Exception:
                    vg = None   # the general method is judged in its own tables
                if vg is not None:
                    acc.count('obs:fixed-vs-general')
                    tol = tol_r[k] + R.value_tol(R.GENERAL_OF[method], grids, x, vmax_r)
                    if not abs(vr - vg) <= tol:
                        rep.viol('differs-from-general:interp:%s' % method,
                                 '%s point %s: fixed %r, general %r (|d|=%.3g, tol %.3g)'
                                 % (cls, x.tolist(), vr, vg, abs(vr - vg), tol))
        else:
            try:
                it_r.interpolate(x.copy())
                raised = None
            except Exception as e:
                raised = e
            if ex:
                if raised is not None:
                    rep.viol(_exc_key('interp', method, raised, 'extrapolated'),
                             '%s x=%s: %s' % (method, x.tolist(), str(raised)[:120]))
                else:
                    acc.count('obs:extrapolated-no-raise')
            else:
                if raised is None:
                    rep.viol('outside-not-raised:interp:axis=%s:pt=%s' % (_outside_axis_class(grids, x), cls),
                             '%s x=%s grid ends=%s accepted with extrapolate=False'
                             % (method, x.tolist(), [(g[0], g[-1]) for g in grids]))
                else:
                    acc.count('obs:oob-raised')
                    acc.count('obs:oob-raised:' + type(raised).__name__)
    # ---- constant table (degree 0 is in every exactness class; exercises the equal-slope branches)
    cval = float(tab_rand.ravel()[0])
    try:
        it_c = InterpND(method=method, points=tuple(grids), values=np.full(tab_rand.shape, cval), extrapolate=True)
        for k in sorted(single_r)[::3]:
            x = pts[k][0]
            vc = float(np.asarray(it_c.interpolate(x.copy())).ravel()[0])
            acc.count('obs:constant-table')
            tolk = tol_r[k] * abs(cval) / vmax_r + 8 * R.EPS * abs(cval)
            if not abs(vc - cval) <= tolk:
                rep.viol('constant-table:interp:%s' % method, 'constant table %r interpolated as %r at %s'
                         % (cval, vc, x.tolist()))
                break
    except Exception as e:
        rep.viol(_exc_key('interp', method, e, 'constant-table'), str(e)[:160])
    ks = sorted(single_r)
    if len(ks) >= 2:
        X = np.array([pts[k][0] for k in ks])
        try:
            br = np.asarray(it_r.interpolate(X.copy())).ravel()
            bp = np.asarray(it_p.interpolate(X.copy())).ravel()
        except Exception as e:
            rep.viol(_exc_key('interp', method, e, 'batched'), str(e)[:200])
            br = None
        if br is not None:
            if br.shape != (len(ks),):
                rep.viol('batched-shape:interp:%s' % method, 'shape %s for %d points' % (br.shape, len(ks)))
            else:
                for j, k in enumerate(ks):
                    acc.count('obs:batch-vs-single')
                    if not abs(br[j] - single_r[k]) <= 2 * tol_r[k]:
                        rep.viol('batch-vs-single:interp:%s' % method,
                                 '%s point %s: batched %r, alone %r' % (pts[k][1], pts[k][0].tolist(), br[j],
                                                                       single_r[k]))
                        break
                for j, k in enumerate(ks):
                    ref = poly(pts[k][0])
                    tol = tol_p[k] + 8 * R.EPS * poly.abs_sum
                    if not abs(bp[j] - ref) <= tol:
                        rep.viol('exactness-batched:interp:%s' % method,
                                 '%s point %s: got %r, polynomial %r (|d|=%.3g, tol %.3g)'
                                 % (pts[k][1], pts[k][0].tolist(), bp[j], ref, abs(bp[j] - ref), tol))
                        break
    # ---- a one-point call after the batched one (the table objects keep per-path caches)
    if len(ks) >= 2:
        k = ks[len(ks) // 2]
        try:
            again = float(np.asarray(it_r.interpolate(pts[k][0].copy())).ravel()[0])
            acc.count('obs:single-after-batched')
            if not abs(again - single_r[k]) <= 2 * tol_r[k]:
                rep.viol('single-after-batched:interp:%s' % method, 'before the batched call %r, after it %r'
                         % (single_r[k], again))
        except Exception as e:
            rep.viol(_exc_key('interp', method, e, 'single-after-batched'), str(e)[:160])
    if not rep.bad:
        if judged_any:
            acc.ok(_fp(case), sample=case if case['seed'] % 97 == 0 else None)
        else:
            acc.skip('nothing-judged')


def _fp(case):
    return fingerprint({k: case[k] for k in ('driver', 'method', 'npts', 'kinds', 'extrapolate')})


# ------------------------------------------------------------------------------------------------
def _run_comp(prob, names, X):
    for d, n in enumerate(names):
        prob.set_val('c.' + n, X[:, d])
    prob.run_model()
    return np.array(prob.get_val('c.r')).ravel().copy(), np.array(prob.get_val('c.p')).ravel().copy()


def judge_comp(case, acc):
    """MetaModelStructuredComp ('mmsc') or MetaModelSemiStructuredComp on the full grid ('semi')."""
    import openmdao.api as om
    method = case['method']
    ex = case['extrapolate']
    driver = case['driver']
    rng, grids, poly, tab_poly, tab_rand, pts = build(case)
    rep = _Report(acc, case)
    nd = len(grids)
    vmax_r = float(np.abs(tab_rand).max())
    vmax_p = max(float(np.abs(tab_poly).max()), poly.abs_sum)
    tol_r = _tols(method, grids, pts, vmax_r)
    tol_p = _tols(method, grids, pts, vmax_p)
    if max(t / vmax_r for t in tol_r if t is not None) > ILL:
        acc.skip('ill-conditioned-grid')
        return
    K = 6
    names = ['x%d' % d for d in range(nd)]
    prob = om.Problem()
    try:
        if driver == 'mmsc':
            c = om.MetaModelStructuredComp(method=method, extrapolate=ex, vec_size=K)
            for n, g in zip(names, grids):
                c.add_input(n, 0.5 * (g[0] + g[-1]), training_data=g.copy())
            c.add_output('r', 0.0, training_data=tab_rand.copy())
            c.add_output('p', 0.0, training_data=tab_poly.copy())
        else:
            c = om.MetaModelSemiStructuredComp(method=method, extrapolate=ex, vec_size=K)
            mesh = np.meshgrid(*grids, indexing='ij')
            for n, g, m in zip(names, grids, mesh):
                c.add_input(n, training_data=m.ravel().copy(), val=0.5 * (g[0] + g[-1]))
            c.add_output('r', training_data=tab_rand.ravel().copy())
            c.add_output('p', training_data=tab_poly.ravel().copy())
        prob.model.add_subsystem('c', c)
        prob.setup()
    except Exception as e:
        rep.viol(_exc_key(driver, method, e, 'setup'), str(e)[:200])
        return
    acc.count('cell:%s:%s' % (driver, method))
    safe = [k for k, p in enumerate(pts) if p[1] in ('node', 'interior', 'just-inside')]
    bnd = [k for k, p in enumerate(pts) if p[1] == 'on-boundary']
    out = [k for k, p in enumerate(pts) if p[1].startswith('outside')]
    rng2 = np.random.default_rng(case['seed'] + 1)
    judged_any = False

    def batch(sel, pad):
        ks = list(sel[:K])
        while len(ks) < K:
            ks.append(pad)
        return ks

    groups = []
    rng2.shuffle(safe)
    if len(safe) >= 2:
        groups.append(('safe', batch(safe, safe[0])))
        if len(safe) > K:
            groups.append(('safe', batch(safe[K:], safe[0])))
    rng2.shuffle(bnd)
    if bnd and safe:
        groups.append(('boundary', batch(bnd, safe[0])))
    for kind, ks in groups:
        X = np.array([pts[k][0] for k in ks])
        try:
            vr, vp = _run_comp(prob, names, X)
        except Exception as e:
            worst = 'none'
            for k in ks:
                a = _axis_class(grids, pts[k][0], True)
                if a != 'none' and (worst == 'none' or a == 'end-neg'):
                    worst = a
            key = _exc_key(driver, method, e, 'in-bounds', cls=kind, axis=worst)
            rep.viol(key, '%s points %s: %s' % (method, X.tolist()[:3], str(e)[:160]))
            continue
        judged_any = True
        if kind == 'boundary':
            acc.count('obs:boundary-point-evaluated')
        for j, k in enumerate(ks):
            x, cls, ix = pts[k]
            acc.count('obs:%s-output' % driver)
            if ix is not None:
                ref = float(tab_rand[ix])
                if not abs(vr[j] - ref) <= tol_r[k]:
                    rep.viol('node-value:%s:%s' % (driver, method),
                             'node %s: output %r, table %r (tol %.3g)' % (list(ix), vr[j], ref, tol_r[k]))
                    break
            ref = poly(x)
            tol = tol_p[k] + 8 * R.EPS * poly.abs_sum
            if not abs(vp[j] - ref) <= tol:
                rep.viol('exactness:%s:%s' % (driver, method),
                         '%s point %s: output %r, polynomial %r (|d|=%.3g, tol %.3g)'
                         % (cls, x.tolist(), vp[j], ref, abs(vp[j] - ref), tol))
                break
    # constant table (degree 0 is in every method's exactness class; exercises the equal-slope branches)
    if safe:
        cval = float(tab_rand.ravel()[0])
        p2 = om.Problem()
        try:
            if driver == 'mmsc':
                c2 = om.MetaModelStructuredComp(method=method, extrapolate=ex, vec_size=K)
                for n, g in zip(names, grids):
                    c2.add_input(n, 0.5 * (g[0] + g[-1]), training_data=g.copy())
                c2.add_output('k', 0.0, training_data=np.full(tab_rand.shape, cval))
            else:
                c2 = om.MetaModelSemiStructuredComp(method=method, extrapolate=ex, vec_size=K)
                mesh = np.meshgrid(*grids, indexing='ij')
                for n, g, m in zip(names, grids, mesh):
                    c2.add_input(n, training_data=m.ravel().copy(), val=0.5 * (g[0] + g[-1]))
                c2.add_output('k', training_data=np.full(tab_rand.size, cval))
            p2.model.add_subsystem('c', c2)
            p2.setup()
            ks = batch(safe, safe[0])
            X = np.array([pts[k][0] for k in ks])
            for d, n in enumerate(names):
                p2.set_val('c.' + n, X[:, d])
            p2.run_model()
            vk = np.array(p2.get_val('c.k')).ravel()
            acc.count('obs:%s-constant-table' % driver)
            tolk = max(tol_r[k] for k in ks) * abs(cval) / vmax_r + 8 * R.EPS * abs(cval)
            if not np.all(np.abs(vk - cval) <= tolk):
                rep.viol('constant-table:%s:%s' % (driver, method),
                         'constant table %r interpolated as %s' % (cval, vk.tolist()))
        except Exception as e:
            rep.viol(_exc_key(driver, method, e, 'constant-table'),
                     'constant table, points %s: %s' % (X.tolist()[:2] if 'X' in dir() else None, str(e)[:160]))
        try:
            p2.cleanup()
        except Exception:
            pass
    # out-of-bounds: one outside point among in-bounds ones
    if safe:
        for k in out[:4]:
            ks = batch([k], safe[0])
            rng2.shuffle(ks)
            X = np.array([pts[q][0] for q in ks])
            try:
                _run_comp(prob, names, X)
                raised = None
            except Exception as e:
                raised = e
            if ex:
                if raised is not None:
                    rep.viol(_exc_key(driver, method, raised, 'extrapolated'),
                             '%s x=%s: %s' % (method, pts[k][0].tolist(), str(raised)[:120]))
            else:
                if raised is None:
                    rep.viol('outside-not-raised:%s:axis=%s:pt=%s'
                             % (driver, _outside_axis_class(grids, pts[k][0]), pts[k][1]),
                             '%s x=%s accepted with extrapolate=False' % (method, pts[k][0].tolist()))
                else:
                    acc.count('obs:%s-oob-raised' % driver)
                    acc.count('obs:%s-oob-raised:%s' % (driver, type(raised).__name__))
    try:
        prob.cleanup()
    except Exception:
        pass
    if not rep.bad:
        if judged_any:
            acc.ok(_fp(case), sample=case if case['seed'] % 97 == 0 else None)
        else:
            acc.skip('nothing-judged')


def judge(case, acc):
    if case['driver'] == 'interp':
        judge_interp(case, acc)
    else:
        judge_comp(case, acc)


# ------------------------------------------------------------------------------------------------
def _cases(tier, seed):
    """Deterministic list of table descriptions."""
    rng = np.random.default_rng(1000003 * seed + (17 if tier == 'quick' else 29))
    reps = {'quick': {'interp': 22, 'mmsc': 4, 'semi': 4}, 'thorough': {'interp': 300, 'mmsc': 50, 'semi': 50}}[tier]
    out = []
    sid = 0

    def add(driver, method, nd, ex=None):
        nonlocal sid
        lo = R.MIN_POINTS[method]
        if method in R.SCIPY_ORDER:
            lo = 2
        hi = 8 if nd < 3 else 6
        if driver == 'semi':
            hi = min(hi, 6)
        npts = [int(rng.integers(lo, hi + 1)) for _ in range(nd)]
        kinds = [str(rng.choice(R.LOC_KINDS, p=[0.2, 0.3, 0.2, 0.15, 0.15])) for _ in range(nd)]
        sid += 1
        out.append({'driver': driver, 'method': method, 'npts': npts, 'kinds': kinds,
                    'extrapolate': bool(rng.random() < 0.4) if ex is None else ex,
                    'max_ratio': float(rng.choice([1.0001, 3.0, 10.0, 50.0])),
                    'seed': int(seed * 10000019 + sid * 7919 + (0 if tier == 'quick' else 5000000))})

    # directed cases: input classes that must be visited in every run (structure fixed, values random)
    def directed(driver, method, npts, kinds, ex):
        add(driver, method, len(npts), ex=ex)
        out[-1]['npts'] = list(npts)
        out[-1]['kinds'] = list(kinds)

    directed('interp', 'slinear', [5], ['neg'], False)
    directed('interp', 'lagrange3', [5, 4], ['end-zero', 'neg'], False)
    directed('interp', '1D-akima', [4], ['pos'], True)
    directed('interp', 'akima', [4, 4], ['straddle', 'pos'], True)
    directed('mmsc', 'cubic', [5, 5], ['neg', 'pos'], False)
    directed('semi', 'akima', [4, 5], ['pos', 'straddle'], True)
    directed('semi', 'slinear', [4, 4], ['pos', 'neg'], False)

    for driver in ('interp', 'mmsc', 'semi'):
        for _ in range(reps[driver]):
            if driver == 'semi':
                for m in SEMI:
                    add(driver, m, int(rng.integers(1, 4)), ex=bool(rng.random() < 0.7))
                continue
            for m in GENERAL:
                add(driver, m, int(rng.integers(1, 4)))
            for m in FIXED:
                add(driver, m, R.FIXED_DIM[m])
    return out


N_SHARDS = {'quick': 16, 'thorough': 48}


def shards(tier, seed):
    n = N_SHARDS[tier]
    return [{'tier': tier, 'seed': seed, 'part': i, 'of': n} for i in range(n)]


def run_shard(shard, acc):
    cases = _cases(shard['tier'], shard['seed'])
    # interleave so that every shard sees every method and the 3-D tables are spread out
    for case in cases[shard['part']::shard['of']]:
        judge(case, acc)


def run_case(case, acc):
    judge(case, acc)


def coverage_extra(tier, agg):
    c = agg['counters']
    return {'exhaustive': False,
            'cells_visited': {k: v for k, v in sorted(c.items()) if k.startswith('cell:')},
            'out_of_bounds_exception_types': {k.split(':')[-1]: v for k, v in c.items()
                                              if k.startswith('obs:oob-raised:')}}
