"""C19 - Loading a recorded case restores the recorded state.

Monitor: a generated scenario is run with recorders on problem / driver / systems; cases are picked at
random points of the history; each is loaded with the real `Problem.load_case` into a *freshly built*
problem of the same spec (in a random setup phase) and `get_val` is compared, variable by variable, with
the value the case itself holds (which C17 ties to the live snapshot).  When the case holds a complete,
settled state (all independent variables present, recorded at the end of a model run) a following
`run_model` must reproduce every recorded output.

Second stratum ('override', omv/gen/c19_override.py): models in which components / groups / IndepVarComps, at the
root or nested, override `System.load_case` (the documented hook) and either restore their own variables, do
nothing, or write recorded+1000 into their outputs - so the harness knows what each of them leaves behind - next
to systems whose names are string prefixes / extensions of the overriding ones (a, a2, a_b, ab, a.a, a2.a ...),
with promoted names that begin like other systems' pathnames.  The case (Case from a problem / driver / root-system
recorder, or the documented dict of list_inputs/list_outputs) is loaded into a fresh problem, into the moved
recording problem itself, or into a slightly different model (a system renamed / dropped / added): every recorded
variable of a non-overriding system that the model has must hold the recorded value, every overriding subsystem
must have been handed the case (outermost first) and its variables hold what it wrote, every case variable the
model lacks must be reported by a warning without disturbing the others, and a following run_model reproduces
the recorded outputs.
"""
import random

import numpy as np

from omv.core import fingerprint

PROPERTY = 'C19'
LEVEL = 'exploration'
TECHNIQUE = 'runtime monitoring: load_case into a fresh problem, get_val vs. the case contents, re-run vs. recorded outputs'
RULE = ('scenario = generated model (units, src_indices, auto-IVC/IVC, shared promoted inputs, discrete vars, nested '
        'groups, converged NLBGS/Newton cycles) x driver {run_model, Driver, DOE, SLSQP} x recorders on problem/'
        'driver/systems with random or default recording options; up to 6 cases per recorder file picked at random '
        'history points; fresh problem in phase {setup, final_setup, after run_model}; distinct = distinct (model '
        'summary, case kind, phase); non-trivial = at least one recorded variable was compared.  Stratum override: '
        'tree of <= 6 components in groups of depth <= 2 with system names drawn from families of mutual string '
        'prefixes (a/a2/a_b/ab/aa, ph/ph0/ph01 ...), random promotion, variable names beginning like system names, '
        'src_indices, optional IndepVarComp; 1-3 systems {component, group, IndepVarComp} override load_case with '
        'behaviour {restore-self, nothing, recorded+1000 on outputs}; case from {problem, driver, root system '
        'recorder, dict of list_inputs/list_outputs} x {all, no inputs, include/exclude pattern}; loaded into '
        '{fresh problem x phase, the moved recording problem, variant model: system renamed / group renamed / '
        'component dropped / component added}; distinct = distinct (system tree with names, override modes, '
        'source, target, phase)')
ASSUMPTIONS = [
    'a recorded input is judged only if it is consistent with its recorded source output (cases taken in the middle of '
    'a run can hold an input that is stale w.r.t. the recorded value of its source; no load can satisfy both)',
    'an input whose connection converts units, or whose source is also written through an input of other units, is '
    'compared to 16 ulp (one conversion there, one back); everything else exactly',
    'run_model reproduction is judged only when every independent variable of the model is in the case and the case '
    'was recorded at the end of a model run (driver, problem or root-system case); exact for acyclic models, '
    '1e-10 relative for converged cycles (solver tolerances 1e-13; converged = residuals in the record-time snapshot '
    '<= 1e-11 relative to the largest output)',
    'recorded inputs that share a source are judged only if they (and the recorded source) agree on every source '
    'element: load_case writes connected inputs through to their source, so a stale input of a component that was '
    'not executed in the recorded run cannot be restored together with the others',
    'solver cases are not used (mid-iteration states)',
    'override stratum: a variable belongs to an overriding subsystem iff its ABSOLUTE name lies under that '
    'subsystem\'s pathname; such variables are expected to hold what the chain of overriding owners (called outermost '
    'first) wrote: recorded (restore-self), recorded+1000 (marker, outputs only), or the value before the load '
    '(nothing); outputs left untouched or marked are judged only when no connected input could be written through '
    'to them afterwards; inputs fed by a marked output and inputs of overriding subsystems that do not restore them '
    'are not judged',
    'override stratum: outputs are identified by their promoted name, inputs by their absolute name (that is how a '
    'case names them); an independent value recorded under a promoted input name is expected in the model\'s '
    'variable of that promoted name when none of the inputs behind it belongs to an overriding subsystem',
    'override stratum: run_model reproduction is judged (exactly; the models are acyclic and unit-free) only when '
    'every independent variable of the target model is restored by the rules above',
    'override stratum: a relative name that begins with the overriding system\'s own pathname + "." (system b '
    'holding b.b...) is passed to System.set_val as an absolute name (System.set_val/get_val resolve such a '
    'relative name as absolute; that is outside this property)',
]
MIN_JUDGED = {'quick': 200, 'thorough': 4000}
REQUIRED_COUNTERS = ['obs:cases_loaded', 'obs:inputs_compared', 'obs:outputs_compared', 'obs:rerun_judged',
                     'obs:phase:setup', 'obs:phase:final_setup', 'obs:phase:run_model', 'obs:case_kind:driver',
                     'obs:case_kind:problem', 'obs:case_kind:system', 'obs:discrete_compared',
                     'obs:inputs_with_unit_conversion', 'obs:inputs_with_src_indices',
                     'obs:ov:cases_loaded', 'obs:ov:lookalike_vars_compared', 'obs:ov:override_called',
                     'obs:ov:override_owned_vars_compared', 'obs:ov:rerun_judged', 'obs:ov:missing_var_warned',
                     'obs:ov:lookalike:name-extends-overrider-pathname',
                     'obs:ov:lookalike:promoted-name-extends-overrider-pathname',
                     'obs:ov:source:dict', 'obs:ov:target:same', 'obs:ov:target:fresh']
SHARD_TIMEOUT = {'quick': 900, 'thorough': 3000}

UNIT_FACTOR = {None: 1.0, 'm': 1.0, 'cm': 0.01, 'km': 1000.0, 's': 1.0, 'ms': 0.001, 'N': 1.0, 'kN': 1000.0}


def make_spec(seed):
    from omv.gen import recmodels as G
    rng = random.Random(seed)
    model = G.gen_model(rng, converge=True, allow_special=False)
    drv = G.gen_driver(rng, model)
    vi = G.varinfo(model)
    reqs = [['problem', ''], ['driver', ''], ['system', '']]
    for gp in model['groups']:
        reqs.append(['system', gp])
    for c in model['comps']:
        reqs.append(['system', G.comp_path(c)])
    att = [r for r in reqs[:3] if rng.random() < 0.7] + rng.sample(reqs[3:], min(len(reqs) - 3, rng.randrange(0, 3)))
    if not att:
        att = [['problem', '']]
    plain = rng.random() < 0.5
    opts = {}
    for kind, path in att:
        o = G.gen_rec_options(rng, kind, vi, path, plain=plain)
        o['record_derivatives'] = False
        opts['%s:%s' % (kind, path)] = o
    rec = {'files': [{'file': './r0.sql', 'viewer': False, 'attach': att}], 'options': opts}
    seq = G.gen_sequence(rng, model, drv, prefix_p=1.0)
    if not any(op[0] == 'record' for op in seq):
        seq.append(['record', 'last'])
    spec = {'model': model, 'driver': drv, 'recorders': rec, 'sequence': seq, 'seed': seed,
            'pick_seed': rng.randrange(1 << 30)}
    return spec


def _tags_in(m, V):
    t = []
    if m['discrete']:
        t.append('discrete')
    src = m.get('src_abs')
    if src is None or src.startswith('_auto_ivc.'):
        t.append('auto_ivc')
    else:
        t.append('connected')
        if V.get(src) is not None and V[src]['units'] != m['units']:
            t.append('units')
    if m.get('src_indices'):
        t.append('src_indices')
    if m['prom'][''].count('.') == 0 and sum(1 for x in V.values() if x['io'] == 'input' and x['prom'][''] == m['prom']['']) > 1:
        t.append('shared')
    return t


def _mixed_units(src, V):
    """is `src` an auto-IVC output feeding several inputs that do not all have the same units?"""
    if not src.startswith('_auto_ivc.'):
        return False
    us = set(m['units'] for m in V.values() if m['io'] == 'input' and m.get('src_abs') == src)
    return len(us) > 1


def _input_groups(rin, rout, V):
    """Recorded continuous inputs grouped by source: {src: (consistent, converts)}.

    load_case writes every recorded input through its connection into the source (System.set_val on a connected
    input sets the source) and then the recorded outputs; all these writes can only be satisfied together when they
    agree on every element of the source.  `consistent`: every element of the source gets one value (bitwise when all
    writers have the same units, else compared in SI units to 4 ulp) from all recorded inputs that read it and from the recorded source itself; `converts`: some writer
    has units different from another one (a value may come back through two conversions).
    A case recorded while a component had not been executed (skipped as irrelevant by the optimizer, or recorded
    before the first run) holds such a stale input; no load can restore it together with its source."""
    groups = {}
    for a in rin:
        m = V.get(a)
        if m is None or m['discrete'] or not m.get('src_abs'):
            continue
        groups.setdefault(m['src_abs'], []).append(a)
    out = {}
    for src, ins in groups.items():
        implied = {}
        units = set()
        for a in ins:
            m = V[a]
            rv = np.asarray(rin[a], dtype=float).ravel()
            idx = m.get('src_indices') or range(rv.size)
            units.add(m['units'])
            for k, j in enumerate(idx):
                if k < rv.size:
                    implied.setdefault(int(j), []).append(rv[k] * UNIT_FACTOR[m['units']])
        # units of the source: declared for real outputs; for an auto_ivc known only when all its targets agree
        tu = set(x['units'] for x in V.values() if x['io'] == 'input' and x.get('src_abs') == src)
        su = V[src]['units'] if (src in V and not src.startswith('_auto_ivc.')) else (list(tu)[0] if len(tu) == 1 else '?')
        if src in rout and su != '?':
            units.add(su)
            for j, x in enumerate(np.asarray(rout[src], dtype=float).ravel()):
                implied.setdefault(j, []).append(x * UNIT_FACTOR[su])
        ok = True
        conv = len(units) > 1 or su == '?'
        # same units everywhere: the writers must agree bitwise (an input of a converged cycle is the source value of
        # the previous sweep, a few ulp off: stale); with conversions, to 4 ulp in SI units
        tol = 4 * 2.3e-16 if conv else 0.0
        for vals in implied.values():
            v = np.array(vals)
            if not np.all(np.isfinite(v)) or (v.max() - v.min()) > tol * max(1e-300, np.abs(v).max()):
                ok = False
        out[src] = (ok, conv)
    return out


def _settled(ev):
    """was the model at a fixed point when the case was recorded?  max |residual| <= 1e-11 * max(1, max |output|)
    in the snapshot taken at record time (solver tolerances are 1e-13; the re-run is compared to 1e-10)."""
    snap = ev.get('snap') or {}
    res = [np.asarray(v, dtype=float).ravel() for v in snap.get('residual', {}).values()]
    outs = [np.asarray(v, dtype=float).ravel() for v in snap.get('output', {}).values()
            if isinstance(v, np.ndarray) and v.dtype.kind == 'f']
    if not res:
        return False
    r = np.concatenate(res)
    o = np.concatenate(outs) if outs else np.zeros(1)
    if not (np.all(np.isfinite(r)) and np.all(np.isfinite(o))):
        return False
    return float(np.abs(r).max()) <= 1e-11 * max(1.0, float(np.abs(o).max()))


def _eq(a, b, rel=0.0):
    a = np.asarray(a)
    b = np.asarray(b)
    if a.dtype.kind in 'OUS' or b.dtype.kind in 'OUS':
        return a.shape == b.shape and a.tolist() == b.tolist()
    if a.size != b.size:
        return False
    a = a.ravel().astype(float)
    b = b.ravel().astype(float)
    if rel == 0.0:
        return bool(np.array_equal(a, b, equal_nan=True))
    return bool(np.all(np.abs(a - b) <= rel * np.maximum(1e-300, np.maximum(np.abs(a), np.abs(b)))))


def _deq(a, b):
    if isinstance(b, tuple):
        b = list(b)
    if isinstance(a, tuple):
        a = list(a)
    return a == b and type(a) is type(b) or (isinstance(a, (int, float)) and isinstance(b, (int, float)) and a == b)


def judge(spec, acc):
    import openmdao.api as om
    from omv.gen import recmodels as G
    from omv.checks.c17_recording_faithful import execute, runtime_vars, expected_name
    events, built, err = execute(spec)
    case0 = {'spec': spec}
    if err is not None:
        e, tb = err
        acc.viol('scenario-raises:%s' % type(e).__name__, '%s: %s' % (type(e).__name__, str(e)[:300]), case0, detail=tb)
        return
    V = runtime_vars(built)
    fname, rec = built['recs'][0]
    evs = [e for e in events if e['rec'] == id(rec) and e['kind'] in ('driver', 'problem', 'system')]
    if not evs:
        acc.skip('no-case-recorded')
        return
    names = [expected_name(e) for e in evs]
    try:
        cr = om.CaseReader(fname)
    except Exception as ex:  # noqa
        acc.viol('reader-open-raises:%s' % type(ex).__name__, str(ex)[:200], case0)
        return
    rng = random.Random(spec['pick_seed'])
    # prefer a mix of kinds
    picks = []
    for kind in ('driver', 'problem', 'system'):
        idx = [i for i, e in enumerate(evs) if e['kind'] == kind and names.count(names[i]) == 1]
        picks += rng.sample(idx, min(2, len(idx)))
    cyc = spec['model']['cycle']
    for i in picks:
        phase = rng.choice(['setup', 'final_setup', 'run_model'])
        judge_case(spec, cr, evs[i], names[i], phase, V, cyc, acc, i)


def judge_case(spec, cr, ev, name, phase, V, cyc, acc, pick):
    from omv.gen import recmodels as G
    case = {'spec': spec, 'pick': pick, 'phase': phase, 'case_name': name}
    bad = [False]

    def viol(key, what):
        acc.viol(key, what, case, new_case=not bad[0])
        bad[0] = True

    try:
        c = cr.get_case(name)
    except Exception as ex:  # noqa
        acc.skip('case-unreadable(C17)')
        return
    if c is None:
        acc.skip('case-unreadable(C17)')
        return
    fresh = G.build(spec, recorders=False)
    prob = fresh['prob']
    try:
        prob.setup()
        G.set_initial(fresh)
        if phase == 'final_setup':
            prob.final_setup()
        elif phase == 'run_model':
            prob.run_model()
    except Exception as ex:  # noqa
        acc.skip('fresh-problem-failed:%s' % type(ex).__name__)
        return
    acc.count('obs:phase:' + phase)
    acc.count('obs:case_kind:' + ev['kind'])
    rin = {a: c.inputs[a] for a in c.inputs.absolute_names()} if c.inputs is not None else {}
    rout = {a: c.outputs[a] for a in c.outputs.absolute_names()} if c.outputs is not None else {}
    okeys = set(c.outputs.keys()) if c.outputs is not None else set()
    dictcase = 'dictcase' if any(V.get(a, {}).get('discrete') for a in list(rin) + list(rout)) else 'arraycase'
    before = {}
    for a in list(rin) + list(rout):
        try:
            before[a] = np.array(prob.get_val(a), copy=True) if not V.get(a, {}).get('discrete') else prob.get_val(a)
        except Exception:  # noqa
            before[a] = None
    try:
        prob.load_case(c)
    except Exception as ex:  # noqa
        import traceback
        tb = traceback.format_exc()
        where = ''
        for line in tb.splitlines():
            if '/openmdao/' in line and 'File' in line:
                where = line.strip().split('/')[-1].split('"')[0] + ':' + line.strip().split(' in ')[-1]
        viol('load_case:raises:%s@%s:%s' % (type(ex).__name__, where, dictcase),
             'load_case(%s) in phase %s raised %s: %s' % (name, phase, type(ex).__name__, str(ex)[:200]))
        prob.cleanup()
        return
    acc.count('obs:cases_loaded')
    ncomp = 0
    # ---- outputs: always exact
    for a, rv in rout.items():
        m = V.get(a)
        if m is None:
            continue
        try:
            gv = prob.get_val(a)
        except Exception as ex:  # noqa
            viol('get_val-after-load:output:raises:%s' % type(ex).__name__, 'get_val(%r): %s' % (a, str(ex)[:200]))
            continue
        ncomp += 1
        if m['discrete']:
            acc.count('obs:discrete_compared')
            ok = _deq(gv, rv)
        else:
            acc.count('obs:outputs_compared')
            ok = _eq(gv, rv)
        if not ok:
            tag = 'discrete' if m['discrete'] else ('auto_ivc' if a.startswith('_auto_ivc.') else 'plain')
            how = 'not-restored' if (before[a] is not None and (_deq(gv, before[a]) if m['discrete'] else _eq(gv, before[a]))) \
                else 'wrong-value'
            key = 'load_case:output:%s:%s:%s' % (dictcase, how, tag)
            if _mixed_units(a, V):
                key = 'load_case:shared-input-mixed-units:output:' + how
            elif not a.startswith('_auto_ivc.') and m['prom'][''] not in okeys:
                # Case.outputs.keys() are documented to be the promoted names; here the file holds the name relative
                # to the sub-system whose recorder was started last, which load_case cannot resolve in the model
                key = 'load_case:output:keyed-by-subsystem-relative-name:not-restored'
            viol(key,
                 'after load_case(%s) [%s, %s] get_val(%r)=%s, recorded %s' % (name, ev['kind'], phase, a,
                                                                               _show(gv), _show(rv)))
    # ---- inputs
    igroups = _input_groups(rin, rout, V)
    for a, rv in rin.items():
        m = V.get(a)
        if m is None:
            continue
        tags = _tags_in(m, V)
        src = m.get('src_abs')
        rel = 0.0
        if not m['discrete'] and src in igroups:
            consistent, converts = igroups[src]
            if not consistent:
                # stale w.r.t. its recorded source or w.r.t. another recorded input of the same source
                acc.count('obs:stale_inputs_not_judged')
                continue
            if converts:
                rel = 16 * 2.3e-16      # the value may have gone to the source and back through another writer's units
        if 'units' in tags:
            rel = 16 * 2.3e-16
            acc.count('obs:inputs_with_unit_conversion')
        elif src is not None and src in V and V[src]['units'] != m['units']:
            rel = 16 * 2.3e-16
        if 'auto_ivc' in tags and 'shared' in tags:
            rel = 16 * 2.3e-16          # set_input_defaults units may differ from this input's units
        if 'src_indices' in tags:
            acc.count('obs:inputs_with_src_indices')
        try:
            gv = prob.get_val(a)
        except Exception as ex:  # noqa
            viol('get_val-after-load:input:raises:%s' % type(ex).__name__, 'get_val(%r): %s' % (a, str(ex)[:200]))
            continue
        ncomp += 1
        if m['discrete']:
            acc.count('obs:discrete_compared')
            ok = _deq(gv, rv)
        else:
            acc.count('obs:inputs_compared')
            ok = _eq(gv, rv, rel=rel)
        if not ok:
            how = 'not-restored' if (before[a] is not None and (_deq(gv, before[a]) if m['discrete'] else _eq(gv, before[a]))) \
                else 'wrong-value'
            promoted = 'promoted' if m['prom'][''] != a else 'unpromoted'
            key = 'load_case:input:%s:%s:%s:%s' % (dictcase, promoted, how, '+'.join(tags))
            if src and _mixed_units(src, V):
                key = 'load_case:shared-input-mixed-units:input:' + how
            viol(key,
                 'after load_case(%s) [%s, %s] get_val(%r)=%s, recorded %s (source %s)'
                 % (name, ev['kind'], phase, a, _show(gv), _show(rv), src))
    # ---- re-run
    indep = [a for a, m in V.items() if m['io'] == 'output' and m['comp'] in ('ivc', '_auto_ivc')]
    final = ev['kind'] in ('driver', 'problem') or (ev['kind'] == 'system' and ev['source'] == 'root')
    if not final:
        acc.count('obs:rerun_skipped:mid-run-case')
    elif not all(a in rout for a in indep):
        acc.count('obs:rerun_skipped:indeps-not-in-case')
    elif bad[0]:
        acc.count('obs:rerun_skipped:load-already-wrong')
    elif cyc and not _settled(ev):
        # the recorded run left the cycle unconverged (diverging loop gain / iteration limit): the recorded outputs
        # are not a fixed point, a re-run need not reproduce them
        acc.count('obs:rerun_skipped:recorded-cycle-not-converged')
    else:
        try:
            prob.run_model()
        except Exception as ex:  # noqa
            viol('rerun:raises:%s' % type(ex).__name__, 'run_model after load_case(%s): %s' % (name, str(ex)[:200]))
        else:
            acc.count('obs:rerun_judged')
            rel = 1e-10 if cyc else 0.0
            ran = ev['snap'].get('executed', {})
            for a, rv in rout.items():
                m = V.get(a)
                if m is None:
                    continue
                if m['comp'] not in ('ivc', '_auto_ivc') and ran.get(m['comp'], 0) < 1:
                    # the owning component had not been executed in the recorded run (e.g. skipped as irrelevant
                    # by the optimizer): its recorded output is not a computed value
                    acc.count('obs:rerun_outputs_of_unexecuted_comps_not_judged')
                    continue
                gv = prob.get_val(a)
                ok = _deq(gv, rv) if m['discrete'] else _eq(gv, rv, rel=rel)
                ncomp += 1
                if not ok:
                    viol('rerun:output-differs:%s:%s' % ('cyclic' if cyc else 'acyclic', 'discrete' if m['discrete'] else 'continuous'),
                         'run_model after load_case(%s) gives %r=%s, recorded %s' % (name, a, _show(gv), _show(rv)))
                    break
    prob.cleanup()
    if ncomp == 0:
        acc.skip('case-holds-no-variables')
        return
    if not bad[0]:
        from omv.gen import recmodels as G2
        acc.ok(fingerprint([G2.summary(spec)['layout'], G2.summary(spec)['conn'], ev['kind'], phase]),
               sample=case if (spec['seed'] + pick) % 211 == 0 else None)


def _show(v):
    try:
        return np.asarray(v).tolist()
    except Exception:  # noqa
        return repr(v)


# ------------------------------------------------------------------------------------------------------------
# stratum 'override': subsystems that override System.load_case, next to systems with look-alike names
# ------------------------------------------------------------------------------------------------------------
OV_PATTERNS = [{'excludes': ['*b']}, {'excludes': ['*_i*']}, {'includes': ['*a']}, {'excludes': ['*_o*a']}]


def make_ov_spec(seed):
    from omv.gen import c19_override as O
    rng = random.Random((seed << 4) ^ 0x19C19)
    model = O.gen_model(rng)
    spec = {'stratum': 'override', 'seed': seed, 'model': model,
            'vals_rec': O.gen_indep_vals(rng, model), 'vals_other': O.gen_indep_vals(rng, model),
            'source': rng.choice(['problem', 'problem', 'driver', 'system', 'dict']),
            'record': rng.choice(['plain', 'plain', 'plain', 'noinputs', 'filtered']),
            'pattern': rng.choice(OV_PATTERNS),
            'target': rng.choice(['fresh', 'fresh', 'same', 'variant', 'variant']),
            'phase': rng.choice(['setup', 'final_setup', 'run_model'])}
    if spec['target'] == 'variant':
        spec['variant'], spec['variant_kind'] = O.variant(rng, model)
    if spec['target'] == 'same' and spec['source'] in ('driver', 'system'):
        spec['source'] = 'problem'
    return spec


def _ov_record(spec):
    """run the source model at vals_rec and return (case, built, reader or None)."""
    import openmdao.api as om
    from omv.gen import c19_override as O
    b = O.build(spec['model'])
    prob = b['prob']
    src = spec['source']
    req = {'problem': prob, 'driver': prob.driver, 'system': prob.model}.get(src)
    if req is not None:
        ro = req.recording_options
        ro['record_inputs'] = spec['record'] != 'noinputs'
        ro['record_outputs'] = True
        ro['includes'] = ['*']
        ro['excludes'] = []
        if spec['record'] == 'filtered':
            for k, v in spec['pattern'].items():
                ro[k] = list(v)
        req.add_recorder(om.SqliteRecorder('./ov.sql', record_viewer_data=False))
    prob.setup()
    O.set_indeps(b, spec['vals_rec'])
    if src == 'driver':
        prob.run_driver()
    else:
        prob.run_model()
    if src == 'problem':
        prob.record('pt')
    if src == 'dict':
        li = prob.model.list_inputs(prom_name=True, return_format='dict', out_stream=None)
        lo = prob.model.list_outputs(prom_name=True, return_format='dict', out_stream=None)
        if spec['record'] == 'noinputs':
            li = {}
        case = {'inputs': {a: dict(m, val=np.array(m['val'], copy=True)) for a, m in li.items()},
                'outputs': {a: dict(m, val=np.array(m['val'], copy=True)) for a, m in lo.items()}}
        if spec['record'] == 'noinputs':
            del case['inputs']
        return case, b, None
    prob.cleanup()
    cr = om.CaseReader('./ov.sql')
    if src == 'problem':
        case = cr.get_case('pt')
    else:
        lst = cr.list_cases('driver' if src == 'driver' else 'root', recurse=False, out_stream=None)
        case = cr.get_case(lst[-1])
    return case, b, cr


def _ov_fold(owners, io):
    """what the chain of overriding owners (outermost first = call order) leaves in a variable of theirs"""
    st = 'pre'
    for _, mode in owners:
        if mode == 'self':
            st = 'rec'
        elif mode == 'marker' and io == 'output':
            st = 'mark'
    return st


def _ov_relation(name, prom, ov):
    """how the (absolute, root-promoted) name of a variable of a non-overriding system relates to the pathnames of
    the overriding systems"""
    rel = 'unrelated'
    for p in ov:
        if name.startswith(p + '.'):
            return 'inside'
        if prom.startswith(p + '.'):
            rel = 'promoted-name-looks-inside-overrider'
        elif name.startswith(p) and rel == 'unrelated':
            rel = 'name-extends-overrider-pathname'
        elif prom.startswith(p) and rel == 'unrelated':
            rel = 'promoted-name-extends-overrider-pathname'
    return rel


def judge_ov(spec, acc):
    import warnings
    from omv.gen import c19_override as O
    case0 = {'spec': spec}
    bad = [False]

    def viol(key, what):
        acc.viol(key, what, case0, new_case=not bad[0])
        bad[0] = True

    try:
        case, bsrc, cr = _ov_record(spec)
    except Exception as ex:  # noqa
        import traceback
        acc.viol('ov:scenario-raises:%s' % type(ex).__name__, '%s: %s' % (type(ex).__name__, str(ex)[:300]), case0,
                 detail=traceback.format_exc())
        return
    src_model = spec['model']
    tgt_model = spec['variant'] if spec['target'] == 'variant' else src_model
    try:
        if spec['target'] == 'same':
            bt = bsrc
            O.set_indeps(bt, spec['vals_other'])
            bt['prob'].run_model()
        else:
            bt = O.build(tgt_model)
            bt['prob'].setup()
            tind = set(nm for nm, _, _, _ in O.indeps(tgt_model))
            O.set_indeps(bt, {k: v for k, v in spec['vals_other'].items() if k in tind})
            if spec['phase'] == 'final_setup':
                bt['prob'].final_setup()
            elif spec['phase'] == 'run_model':
                bt['prob'].run_model()
    except Exception as ex:  # noqa
        acc.skip('ov:target-problem-failed:%s' % type(ex).__name__)
        return
    prob = bt['prob']
    VS, VT = bsrc['V'], bt['V']
    ov = O.overriders(tgt_model)
    is_dict = isinstance(case, dict)
    rin, rout = O.case_vars(case)
    okeys = set() if is_dict else (set(case.outputs.keys()) if case.outputs is not None else set())
    before = {}
    for a in VT:
        before[a] = np.array(prob.get_val(a), copy=True)
    del prob._omv_log[:]
    with warnings.catch_warnings(record=True) as wlist:
        warnings.simplefilter('always')
        try:
            prob.load_case(case)
        except Exception as ex:  # noqa
            import traceback
            tb = traceback.format_exc()
            where = ''
            for line in tb.splitlines():
                if '/openmdao/' in line and 'File' in line:
                    where = line.strip().split('/')[-1].split('"')[0] + ':' + line.strip().split(' in ')[-1]
            viol('ov:load_case:raises:%s@%s:%s:%s' % (type(ex).__name__, where, spec['source'], spec['target']),
                 'load_case raised %s: %s' % (type(ex).__name__, str(ex)[:200]))
            prob.cleanup()
            return
    wtext = [str(w.message) for w in wlist]
    acc.count('obs:ov:cases_loaded')
    acc.count('obs:ov:source:' + spec['source'])
    acc.count('obs:ov:target:' + spec['target'] + (':' + spec['variant_kind'] if spec['target'] == 'variant' else ''))
    for p, mode in ov.items():
        acc.count('obs:ov:mode:' + mode + ':' + bt['sys'][p].__class__.__name__)
    # ---- the overriding systems were handed the case, outermost first
    called = [p for p, cid in prob._omv_log if cid == id(case)]
    for p in ov:
        if p not in called:
            viol('ov:override-not-called', 'load_case of overriding subsystem %r was not called with the case (log %r)'
                 % (p, prob._omv_log))
        else:
            acc.count('obs:ov:override_called')
    first = [called.index(p) for p in sorted(ov) if p in called]
    if first != sorted(first):
        viol('ov:override-call-order', 'overriding subsystems were not called outermost first: %r' % (called,))
    ncomp = 0
    form = 'dict' if is_dict else 'case'

    def compare(a, want, kind, prom):
        """kind: output | input | indep"""
        nonlocal ncomp
        owners = O.owners(tgt_model, a)
        rel = _ov_relation(a, prom, ov)
        try:
            gv = prob.get_val(prom if kind == 'indep' else a)
        except Exception as ex:  # noqa
            viol('ov:get_val-after-load:raises:%s' % type(ex).__name__, 'get_val(%r): %s' % (a, str(ex)[:200]))
            return
        ncomp += 1
        if not owners:
            acc.count('obs:ov:nonoverride_vars_compared')
            if rel != 'unrelated':
                acc.count('obs:ov:lookalike_vars_compared')
                acc.count('obs:ov:lookalike:' + rel)
        else:
            acc.count('obs:ov:override_owned_vars_compared')
        if not _eq(gv, want):
            how = 'not-restored' if _eq(gv, before[a]) else 'wrong-value'
            if owners:
                key = 'ov:override-owned:%s:%s:%s' % (kind, how, '>'.join(m for _, m in owners))
            else:
                key = 'ov:load_case:%s:%s:%s:%s' % (rel, kind, how, form)
            viol(key, 'after load_case [%s -> %s, %s] get_val(%r)=%s, expected %s (before the load: %s; overriding '
                 'subsystems %r)' % (spec['source'], spec['target'], spec['phase'], prom if kind == 'indep' else a,
                                     _show(gv), _show(want), _show(before[a]), ov))

    consumers = {}
    for a, m in VT.items():
        if m['io'] == 'input' and m['src']:
            consumers.setdefault(m['src'], []).append(a)
    # ---- outputs: a case names them by their promoted name
    prom2out = {m['prom']['']: a for a, m in VT.items() if m['io'] == 'output'}
    out_missing = []
    tgt_of = {}
    for a0, rv in rout.items():
        if a0.startswith('_auto_ivc.'):
            continue
        pn = case['outputs'][a0]['prom_name'] if is_dict else (VS[a0]['prom'][''] if a0 in VS else None)
        a = prom2out.get(pn)
        if a is None:
            out_missing.append((a0, pn))
            continue
        tgt_of[a0] = a
        own = O.owners(tgt_model, a)
        if own and a != a0:
            # the harness' overriding subsystems look their variables up by absolute name: a renamed one finds nothing
            acc.count('obs:ov:vars_of_renamed_override_not_judged')
            continue
        st = _ov_fold(own, 'output') if own else 'rec'
        cons = consumers.get(a, [])
        if st == 'rec':
            compare(a, rv, 'output', pn)
        elif st == 'mark' and not any(mode == 'self' for b in cons for _, mode in O.owners(tgt_model, b)):
            # (an input that another overriding subsystem restores itself is written through to this output later)
            compare(a, np.asarray(rv, dtype=float) + O.MARK, 'output', pn)
        elif st == 'pre' and not cons:
            compare(a, before[a], 'output', pn)       # left to a subsystem that does not touch it
        else:
            acc.count('obs:ov:deferred_outputs_with_consumers_not_judged')
    # ---- independent values recorded under the promoted name of the inputs they feed
    restored = set()
    tgt_ind = O.indeps(tgt_model)
    src_ind = set(P for P, _, _, is_ivc in O.indeps(src_model) if not is_ivc)
    for P, a, size, is_ivc in tgt_ind:
        if is_ivc:
            own = O.owners(tgt_model, a)
            if a in rout and (not own or _ov_fold(own, 'output') == 'rec'):
                restored.add(P)
            continue
        ins_P = [b for b, m in VT.items() if m['io'] == 'input' and m['prom'][''] == P]
        if P in okeys and P in src_ind and not any(O.owners(tgt_model, b) for b in ins_P):
            compare(a, case.outputs[P], 'indep', P)
            restored.add(P)
        if any(b in rin and (not O.owners(tgt_model, b) or _ov_fold(O.owners(tgt_model, b), 'input') == 'rec')
               for b in ins_P):
            restored.add(P)
    # ---- inputs
    for a, rv in rin.items():
        if a not in VT:
            continue
        m = VT[a]
        own = O.owners(tgt_model, a)
        if m['src'] and any(mode == 'marker' for _, mode in O.owners(tgt_model, m['src'])):
            acc.count('obs:ov:inputs_fed_by_marker_override_not_judged')
            continue
        if own and _ov_fold(own, 'input') != 'rec':
            acc.count('obs:ov:inputs_of_nonrestoring_override_not_judged')
            continue
        compare(a, rv, 'input', m['prom'][''])
    # ---- variables of the case that the model does not have: reported, and no obstacle for the others
    missing = [(a, a) for a in rin if a not in VT] + out_missing
    if not is_dict:
        tgt_in = set(m['prom'][''] for m in VT.values() if m['io'] == 'input')
        missing += [('_auto_ivc:' + P, P) for P in okeys if P in src_ind and P not in tgt_in]
    for a, shown in missing:
        if any(a.startswith(p + '.') or shown.startswith(p + '.') for p in ov):
            continue        # left to an overriding subsystem
        if any("'%s'" % shown in w and 'not found in the model' in w for w in wtext):
            acc.count('obs:ov:missing_var_warned')
        else:
            viol('ov:missing-variable-not-reported:%s' % ('input' if a in rin else 'output'),
                 'case variable %r (%r) is not in the model and no warning names it; warnings: %r'
                 % (a, shown, wtext[:4]))
    # ---- re-run
    if bad[0]:
        acc.count('obs:ov:rerun_skipped:load-already-wrong')
    elif not all(P in restored for P, _, _, _ in tgt_ind):
        acc.count('obs:ov:rerun_skipped:indeps-not-all-restored')
    else:
        try:
            prob.run_model()
        except Exception as ex:  # noqa
            viol('ov:rerun:raises:%s' % type(ex).__name__, 'run_model after load_case: %s' % str(ex)[:200])
        else:
            acc.count('obs:ov:rerun_judged')
            for a0, rv in rout.items():
                if a0 in tgt_of:
                    a = tgt_of[a0]
                    ncomp += 1
                    gv = prob.get_val(a)
                    if not _eq(gv, rv):
                        viol('ov:rerun:output-differs:' + form,
                             'run_model after load_case gives %r=%s, recorded %s' % (a, _show(gv), _show(rv)))
                        break
    prob.cleanup()
    if bt is not bsrc:
        bsrc['prob'].cleanup()
    if ncomp == 0:
        acc.skip('ov:case-holds-no-variables')
        return
    if not bad[0]:
        acc.ok(fingerprint(['ov', O.summary(tgt_model), spec['source'], spec['record'], spec['target'], spec['phase'],
                            spec.get('variant_kind')]),
               sample=case0 if spec['seed'] % 97 == 0 else None)


def shards(tier, seed):
    if tier == 'quick':
        n, per = 16, 4
    else:
        n, per = 48, 24
    ov = 12 if tier == 'quick' else 120
    return [{'base': seed * 1000003 + 500000 + k * per, 'n': per,
             'ov_base': seed * 1000003 + 700000 + k * ov, 'ov_n': ov} for k in range(n)]


def run_shard(shard, acc):
    for s in range(shard.get('ov_base', 0), shard.get('ov_base', 0) + shard.get('ov_n', 0)):
        judge_ov(make_ov_spec(s), acc)
    for s in range(shard['base'], shard['base'] + shard['n']):
        judge(make_spec(s), acc)


def run_case(case, acc):
    import openmdao.api as om
    from omv.checks.c17_recording_faithful import execute, runtime_vars, expected_name
    spec = case['spec']
    if spec.get('stratum') == 'override':
        judge_ov(spec, acc)
        return
    if 'pick' not in case:
        judge(spec, acc)
        return
    events, built, err = execute(spec)
    if err is not None:
        judge(spec, acc)
        return
    V = runtime_vars(built)
    fname, rec = built['recs'][0]
    evs = [e for e in events if e['rec'] == id(rec) and e['kind'] in ('driver', 'problem', 'system')]
    cr = om.CaseReader(fname)
    judge_case(spec, cr, evs[case['pick']], case['case_name'], case['phase'], V, spec['model']['cycle'], acc,
               case['pick'])
