"""C19 - Loading a recorded case restores the recorded state.

Monitor: a generated scenario is run with recorders on problem / driver / systems; cases are picked at
random points of the history; each is loaded with the real `Problem.load_case` into a *freshly built*
problem of the same spec (in a random setup phase) and `get_val` is compared, variable by variable, with
the value the case itself holds (which C17 ties to the live snapshot).  When the case holds a complete,
settled state (all independent variables present, recorded at the end of a model run) a following
`run_model` must reproduce every recorded output.
"""
import random

import numpy as np

from omv.core import fingerprint

PROPERTY = 'C19'
LEVEL = 'exploration'
TECHNIQUE = 'runtime monitoring: load_case into a fresh problem, get_val vs. the case contents, re-run vs. recorded outputs'
RULE = ('scenario = generated model (units, src_indices, auto-IVC/IVC, shared promoted inputs, discrete vars, nested '
        'groups, converged NLBGS/Newton cycles) x driver {run_model, Driver, DOE, SLSQP} x recorders on problem/'
        'driver/systems with random or default recording options; up to 6 cases per recorder file picked at random '
        'history points; fresh problem in phase {setup, final_setup, after run_model}; distinct = distinct (model '
        'summary, case kind, phase); non-trivial = at least one recorded variable was compared')
ASSUMPTIONS = [
    'a recorded input is judged only if it is consistent with its recorded source output (cases taken in the middle of '
    'a run can hold an input that is stale w.r.t. the recorded value of its source; no load can satisfy both)',
    'an input whose connection converts units, or whose source is also written through an input of other units, is '
    'compared to 16 ulp (one conversion there, one back); everything else exactly',
    'run_model reproduction is judged only when every independent variable of the model is in the case and the case '
    'was recorded at the end of a model run (driver, problem or root-system case); exact for acyclic models, '
    '1e-10 relative for converged cycles (solver tolerances 1e-13; converged = residuals in the record-time snapshot '
    '<= 1e-11 relative to the largest output)',
    'recorded inputs that share a source are judged only if they (and the recorded source) agree on every source '
    'element: load_case writes connected inputs through to their source, so a stale input of a component that was '
    'not executed in the recorded run cannot be restored together with the others',
    'solver cases are not used (mid-iteration states)',
]
MIN_JUDGED = {'quick': 60, 'thorough': 1200}
REQUIRED_COUNTERS = ['obs:cases_loaded', 'obs:inputs_compared', 'obs:outputs_compared', 'obs:rerun_judged',
                     'obs:phase:setup', 'obs:phase:final_setup', 'obs:phase:run_model', 'obs:case_kind:driver',
                     'obs:case_kind:problem', 'obs:case_kind:system', 'obs:discrete_compared',
                     'obs:inputs_with_unit_conversion', 'obs:inputs_with_src_indices']
SHARD_TIMEOUT = {'quick': 900, 'thorough': 3000}

UNIT_FACTOR = {None: 1.0, 'm': 1.0, 'cm': 0.01, 'km': 1000.0, 's': 1.0, 'ms': 0.001, 'N': 1.0, 'kN': 1000.0}


def make_spec(seed):
    from omv.gen import recmodels as G
    rng = random.Random(seed)
    model = G.gen_model(rng, converge=True, allow_special=False)
    drv = G.gen_driver(rng, model)
    vi = G.varinfo(model)
    reqs = [['problem', ''], ['driver', ''], ['system', '']]
    for gp in model['groups']:
        reqs.append(['system', gp])
    for c in model['comps']:
        reqs.append(['system', G.comp_path(c)])
    att = [r for r in reqs[:3] if rng.random() < 0.7] + rng.sample(reqs[3:], min(len(reqs) - 3, rng.randrange(0, 3)))
    if not att:
        att = [['problem', '']]
    plain = rng.random() < 0.5
    opts = {}
    for kind, path in att:
        o = G.gen_rec_options(rng, kind, vi, path, plain=plain)
        o['record_derivatives'] = False
        opts['%s:%s' % (kind, path)] = o
    rec = {'files': [{'file': './r0.sql', 'viewer': False, 'attach': att}], 'options': opts}
    seq = G.gen_sequence(rng, model, drv, prefix_p=1.0)
    if not any(op[0] == 'record' for op in seq):
        seq.append(['record', 'last'])
    spec = {'model': model, 'driver': drv, 'recorders': rec, 'sequence': seq, 'seed': seed,
            'pick_seed': rng.randrange(1 << 30)}
    return spec


def _tags_in(m, V):
    t = []
    if m['discrete']:
        t.append('discrete')
    src = m.get('src_abs')
    if src is None or src.startswith('_auto_ivc.'):
        t.append('auto_ivc')
    else:
        t.append('connected')
        if V.get(src) is not None and V[src]['units'] != m['units']:
            t.append('units')
    if m.get('src_indices'):
        t.append('src_indices')
    if m['prom'][''].count('.') == 0 and sum(1 for x in V.values() if x['io'] == 'input' and x['prom'][''] == m['prom']['']) > 1:
        t.append('shared')
    return t


def _mixed_units(src, V):
    """is `src` an auto-IVC output feeding several inputs that do not all have the same units?"""
    if not src.startswith('_auto_ivc.'):
        return False
    us = set(m['units'] for m in V.values() if m['io'] == 'input' and m.get('src_abs') == src)
    return len(us) > 1


def _input_groups(rin, rout, V):
    """Recorded continuous inputs grouped by source: {src: (consistent, converts)}.

    load_case writes every recorded input through its connection into the source (System.set_val on a connected
    input sets the source) and then the recorded outputs; all these writes can only be satisfied together when they
    agree on every element of the source.  `consistent`: every element of the source gets one value (bitwise when all
    writers have the same units, else compared in SI units to 4 ulp) from all recorded inputs that read it and from the recorded source itself; `converts`: some writer
    has units different from another one (a value may come back through two conversions).
    A case recorded while a component had not been executed (skipped as irrelevant by the optimizer, or recorded
    before the first run) holds such a stale input; no load can restore it together with its source."""
    groups = {}
    for a in rin:
        m = V.get(a)
        if m is None or m['discrete'] or not m.get('src_abs'):
            continue
        groups.setdefault(m['src_abs'], []).append(a)
    out = {}
    for src, ins in groups.items():
        implied = {}
        units = set()
        for a in ins:
            m = V[a]
            rv = np.asarray(rin[a], dtype=float).ravel()
            idx = m.get('src_indices') or range(rv.size)
            units.add(m['units'])
            for k, j in enumerate(idx):
                if k < rv.size:
                    implied.setdefault(int(j), []).append(rv[k] * UNIT_FACTOR[m['units']])
        # units of the source: declared for real outputs; for an auto_ivc known only when all its targets agree
        tu = set(x['units'] for x in V.values() if x['io'] == 'input' and x.get('src_abs') == src)
        su = V[src]['units'] if (src in V and not src.startswith('_auto_ivc.')) else (list(tu)[0] if len(tu) == 1 else '?')
        if src in rout and su != '?':
            units.add(su)
            for j, x in enumerate(np.asarray(rout[src], dtype=float).ravel()):
                implied.setdefault(j, []).append(x * UNIT_FACTOR[su])
        ok = True
        conv = len(units) > 1 or su == '?'
        # same units everywhere: the writers must agree bitwise (an input of a converged cycle is the source value of
        # the previous sweep, a few ulp off: stale); with conversions, to 4 ulp in SI units
        tol = 4 * 2.3e-16 if conv else 0.0
        for vals in implied.values():
            v = np.array(vals)
            if not np.all(np.isfinite(v)) or (v.max() - v.min()) > tol * max(1e-300, np.abs(v).max()):
                ok = False
        out[src] = (ok, conv)
    return out


def _settled(ev):
    """was the model at a fixed point when the case was recorded?  max |residual| <= 1e-11 * max(1, max |output|)
    in the snapshot taken at record time (solver tolerances are 1e-13; the re-run is compared to 1e-10)."""
    snap = ev.get('snap') or {}
    res = [np.asarray(v, dtype=float).ravel() for v in snap.get('residual', {}).values()]
    outs = [np.asarray(v, dtype=float).ravel() for v in snap.get('output', {}).values()
            if isinstance(v, np.ndarray) and v.dtype.kind == 'f']
    if not res:
        return False
    r = np.concatenate(res)
    o = np.concatenate(outs) if outs else np.zeros(1)
    if not (np.all(np.isfinite(r)) and np.all(np.isfinite(o))):
        return False
    return float(np.abs(r).max()) <= 1e-11 * max(1.0, float(np.abs(o).max()))


def _eq(a, b, rel=0.0):
    a = np.asarray(a)
    b = np.asarray(b)
    if a.dtype.kind in 'OUS' or b.dtype.kind in 'OUS':
        return a.shape == b.shape and a.tolist() == b.tolist()
    if a.size != b.size:
        return False
    a = a.ravel().astype(float)
    b = b.ravel().astype(float)
    if rel == 0.0:
        return bool(np.array_equal(a, b, equal_nan=True))
    return bool(np.all(np.abs(a - b) <= rel * np.maximum(1e-300, np.maximum(np.abs(a), np.abs(b)))))


def _deq(a, b):
    if isinstance(b, tuple):
        b = list(b)
    if isinstance(a, tuple):
        a = list(a)
    return a == b and type(a) is type(b) or (isinstance(a, (int, float)) and isinstance(b, (int, float)) and a == b)


def judge(spec, acc):
    import openmdao.api as om
    from omv.gen import recmodels as G
    from omv.checks.c17_recording_faithful import execute, runtime_vars, expected_name
    events, built, err = execute(spec)
    case0 = {'spec': spec}
    if err is not None:
        e, tb = err
        acc.viol('scenario-raises:%s' % type(e).__name__, '%s: %s' % (type(e).__name__, str(e)[:300]), case0, detail=tb)
        return
    V = runtime_vars(built)
    fname, rec = built['recs'][0]
    evs = [e for e in events if e['rec'] == id(rec) and e['kind'] in ('driver', 'problem', 'system')]
    if not evs:
        acc.skip('no-case-recorded')
        return
    names = [expected_name(e) for e in evs]
    try:
        cr = om.CaseReader(fname)
    except Exception as ex:  # noqa
        acc.viol('reader-open-raises:%s' % type(ex).__name__, str(ex)[:200], case0)
        return
    rng = random.Random(spec['pick_seed'])
    # prefer a mix of kinds
    picks = []
    for kind in ('driver', 'problem', 'system'):
        idx = [i for i, e in enumerate(evs) if e['kind'] == kind and names.count(names[i]) == 1]
        picks += rng.sample(idx, min(2, len(idx)))
    cyc = spec['model']['cycle']
    for i in picks:
        phase = rng.choice(['setup', 'final_setup', 'run_model'])
        judge_case(spec, cr, evs[i], names[i], phase, V, cyc, acc, i)


def judge_case(spec, cr, ev, name, phase, V, cyc, acc, pick):
    from omv.gen import recmodels as G
    case = {'spec': spec, 'pick': pick, 'phase': phase, 'case_name': name}
    bad = [False]

    def viol(key, what):
        acc.viol(key, what, case, new_case=not bad[0])
        bad[0] = True

    try:
        c = cr.get_case(name)
    except Exception as ex:  # noqa
        acc.skip('case-unreadable(C17)')
        return
    if c is None:
        acc.skip('case-unreadable(C17)')
        return
    fresh = G.build(spec, recorders=False)
    prob = fresh['prob']
    try:
        prob.setup()
        G.set_initial(fresh)
        if phase == 'final_setup':
            prob.final_setup()
        elif phase == 'run_model':
            prob.run_model()
    except Exception as ex:  # noqa
        acc.skip('fresh-problem-failed:%s' % type(ex).__name__)
        return
    acc.count('obs:phase:' + phase)
    acc.count('obs:case_kind:' + ev['kind'])
    rin = {a: c.inputs[a] for a in c.inputs.absolute_names()} if c.inputs is not None else {}
    rout = {a: c.outputs[a] for a in c.outputs.absolute_names()} if c.outputs is not None else {}
    okeys = set(c.outputs.keys()) if c.outputs is not None else set()
    dictcase = 'dictcase' if any(V.get(a, {}).get('discrete') for a in list(rin) + list(rout)) else 'arraycase'
    before = {}
    for a in list(rin) + list(rout):
        try:
            before[a] = np.array(prob.get_val(a), copy=True) if not V.get(a, {}).get('discrete') else prob.get_val(a)
        except Exception:  # noqa
            before[a] = None
    try:
        prob.load_case(c)
    except Exception as ex:  # noqa
        import traceback
        tb = traceback.format_exc()
        where = ''
        for line in tb.splitlines():
            if '/openmdao/' in line and 'File' in line:
                where = line.strip().split('/')[-1].split('"')[0] + ':' + line.strip().split(' in ')[-1]
        viol('load_case:raises:%s@%s:%s' % (type(ex).__name__, where, dictcase),
             'load_case(%s) in phase %s raised %s: %s' % (name, phase, type(ex).__name__, str(ex)[:200]))
        prob.cleanup()
        return
    acc.count('obs:cases_loaded')
    ncomp = 0
    # ---- outputs: always exact
    for a, rv in rout.items():
        m = V.get(a)
        if m is None:
            continue
        try:
            gv = prob.get_val(a)
        except Exception as ex:  # noqa
            viol('get_val-after-load:output:raises:%s' % type(ex).__name__, 'get_val(%r): %s' % (a, str(ex)[:200]))
            continue
        ncomp += 1
        if m['discrete']:
            acc.count('obs:discrete_compared')
            ok = _deq(gv, rv)
        else:
            acc.count('obs:outputs_compared')
            ok = _eq(gv, rv)
        if not ok:
            tag = 'discrete' if m['discrete'] else ('auto_ivc' if a.startswith('_auto_ivc.') else 'plain')
            how = 'not-restored' if (before[a] is not None and (_deq(gv, before[a]) if m['discrete'] else _eq(gv, before[a]))) \
                else 'wrong-value'
            key = 'load_case:output:%s:%s:%s' % (dictcase, how, tag)
            if _mixed_units(a, V):
                key = 'load_case:shared-input-mixed-units:output:' + how
            elif not a.startswith('_auto_ivc.') and m['prom'][''] not in okeys:
                # Case.outputs.keys() are documented to be the promoted names; here the file holds the name relative
                # to the sub-system whose recorder was started last, which load_case cannot resolve in the model
                key = 'load_case:output:keyed-by-subsystem-relative-name:not-restored'
            viol(key,
                 'after load_case(%s) [%s, %s] get_val(%r)=%s, recorded %s' % (name, ev['kind'], phase, a,
                                                                               _show(gv), _show(rv)))
    # ---- inputs
    igroups = _input_groups(rin, rout, V)
    for a, rv in rin.items():
        m = V.get(a)
        if m is None:
            continue
        tags = _tags_in(m, V)
        src = m.get('src_abs')
        rel = 0.0
        if not m['discrete'] and src in igroups:
            consistent, converts = igroups[src]
            if not consistent:
                # stale w.r.t. its recorded source or w.r.t. another recorded input of the same source
                acc.count('obs:stale_inputs_not_judged')
                continue
            if converts:
                rel = 16 * 2.3e-16      # the value may have gone to the source and back through another writer's units
        if 'units' in tags:
            rel = 16 * 2.3e-16
            acc.count('obs:inputs_with_unit_conversion')
        elif src is not None and src in V and V[src]['units'] != m['units']:
            rel = 16 * 2.3e-16
        if 'auto_ivc' in tags and 'shared' in tags:
            rel = 16 * 2.3e-16          # set_input_defaults units may differ from this input's units
        if 'src_indices' in tags:
            acc.count('obs:inputs_with_src_indices')
        try:
            gv = prob.get_val(a)
        except Exception as ex:  # noqa
            viol('get_val-after-load:input:raises:%s' % type(ex).__name__, 'get_val(%r): %s' % (a, str(ex)[:200]))
            continue
        ncomp += 1
        if m['discrete']:
            acc.count('obs:discrete_compared')
            ok = _deq(gv, rv)
        else:
            acc.count('obs:inputs_compared')
            ok = _eq(gv, rv, rel=rel)
        if not ok:
            how = 'not-restored' if (before[a] is not None and (_deq(gv, before[a]) if m['discrete'] else _eq(gv, before[a]))) \
                else 'wrong-value'
            promoted = 'promoted' if m['prom'][''] != a else 'unpromoted'
            key = 'load_case:input:%s:%s:%s:%s' % (dictcase, promoted, how, '+'.join(tags))
            if src and _mixed_units(src, V):
                key = 'load_case:shared-input-mixed-units:input:' + how
            viol(key,
                 'after load_case(%s) [%s, %s] get_val(%r)=%s, recorded %s (source %s)'
                 % (name, ev['kind'], phase, a, _show(gv), _show(rv), src))
    # ---- re-run
    indep = [a for a, m in V.items() if m['io'] == 'output' and m['comp'] in ('ivc', '_auto_ivc')]
    final = ev['kind'] in ('driver', 'problem') or (ev['kind'] == 'system' and ev['source'] == 'root')
    if not final:
        acc.count('obs:rerun_skipped:mid-run-case')
    elif not all(a in rout for a in indep):
        acc.count('obs:rerun_skipped:indeps-not-in-case')
    elif bad[0]:
        acc.count('obs:rerun_skipped:load-already-wrong')
    elif cyc and not _settled(ev):
        # the recorded run left the cycle unconverged (diverging loop gain / iteration limit): the recorded outputs
        # are not a fixed point, a re-run need not reproduce them
        acc.count('obs:rerun_skipped:recorded-cycle-not-converged')
    else:
        try:
            prob.run_model()
        except Exception as ex:  # noqa
            viol('rerun:raises:%s' % type(ex).__name__, 'run_model after load_case(%s): %s' % (name, str(ex)[:200]))
        else:
            acc.count('obs:rerun_judged')
            rel = 1e-10 if cyc else 0.0
            ran = ev['snap'].get('executed', {})
            for a, rv in rout.items():
                m = V.get(a)
                if m is None:
                    continue
                if m['comp'] not in ('ivc', '_auto_ivc') and ran.get(m['comp'], 0) < 1:
                    # the owning component had not been executed in the recorded run (e.g. skipped as irrelevant
                    # by the optimizer): its recorded output is not a computed value
                    acc.count('obs:rerun_outputs_of_unexecuted_comps_not_judged')
                    continue
                gv = prob.get_val(a)
                ok = _deq(gv, rv) if m['discrete'] else _eq(gv, rv, rel=rel)
                ncomp += 1
                if not ok:
                    viol('rerun:output-differs:%s:%s' % ('cyclic' if cyc else 'acyclic', 'discrete' if m['discrete'] else 'continuous'),
                         'run_model after load_case(%s) gives %r=%s, recorded %s' % (name, a, _show(gv), _show(rv)))
                    break
    prob.cleanup()
    if ncomp == 0:
        acc.skip('case-holds-no-variables')
        return
    if not bad[0]:
        from omv.gen import recmodels as G2
        acc.ok(fingerprint([G2.summary(spec)['layout'], G2.summary(spec)['conn'], ev['kind'], phase]),
               sample=case if (spec['seed'] + pick) % 211 == 0 else None)


def _show(v):
    try:
        return np.asarray(v).tolist()
    except Exception:  # noqa
        return repr(v)


def shards(tier, seed):
    if tier == 'quick':
        n, per = 16, 4
    else:
        n, per = 48, 24
    return [{'base': seed * 1000003 + 500000 + k * per, 'n': per} for k in range(n)]


def run_shard(shard, acc):
    for s in range(shard['base'], shard['base'] + shard['n']):
        judge(make_spec(s), acc)


def run_case(case, acc):
    import openmdao.api as om
    from omv.checks.c17_recording_faithful import execute, runtime_vars, expected_name
    spec = case['spec']
    if 'pick' not in case:
        judge(spec, acc)
        return
    events, built, err = execute(spec)
    if err is not None:
        judge(spec, acc)
        return
    V = runtime_vars(built)
    fname, rec = built['recs'][0]
    evs = [e for e in events if e['rec'] == id(rec) and e['kind'] in ('driver', 'problem', 'system')]
    cr = om.CaseReader(fname)
    judge_case(spec, cr, evs[case['pick']], case['case_name'], case['phase'], V, spec['model']['cycle'], acc,
               case['pick'])
