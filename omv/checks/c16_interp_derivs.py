"""C16 - Interpolation derivatives are exact derivatives of the interpolant.

Monitor: numerical differentiation of the *same public API* and linear-algebra identities.

parts (each case is one table / spline):
  ddx        InterpND.interpolate(x, compute_derivative=True) (one point, batched) and InterpND.gradient(x)
             against d/dx of the returned value function: complex step where the method accepts complex
             points, otherwise a 7-point central difference kept inside one polynomial piece (all table
             methods are piecewise polynomials of degree <= 5 in each coordinate, for which the 7-point
             stencil has no truncation error).
  train      InterpND.training_gradients(x) (methods that are linear in the table values):
             f(values) == <tg, values> for two independent value sets (tg cannot depend on the values) and
             f(v1 + a v2) == f(v1) + a f(v2).
  spline     InterpND.evaluate_spline(values, compute_derivative=True) for every spline method incl. bsplines
             and akima (+ options): linear methods by identity / superposition / value-independence of the
             Jacobian; akima by complex step on the control values.
  mmsc       MetaModelStructuredComp partials (vec_size > 1) w.r.t. the inputs (7-point differences of the
             component's own outputs, two step sizes must agree; akima axes >= 1: complex step through the
             component) and w.r.t. the training values (identity + superposition; akima: complex step through
             the component + Euler identity <df/dv, v> = f).
  splinecomp SplineComp partials w.r.t. the control points (same oracles; akima: complex step through the
             component + Euler identity).
  splinemulti / tablemulti / interleave / cachestate (omv/gen/c16_kit.py): derivative state that is cached, shared
             or reused - several splines on one SplineComp, several tables on one MetaModelStructuredComp /
             MetaModelSemiStructuredComp (partials of EVERY output w.r.t. every input and every control-point /
             training array), several InterpND objects alive at once and called in interleaved order, and call
             sequences around one object's cache (x1, x2, x1 again; value-only call then gradient; batched then
             single; query / value arrays changed in place between two calls; returned arrays must stay unchanged).

Smoothness of akima (why no difference formula is used for it except along axis 0 of a table): a 1-D akima
spline is a cubic in x inside a cell, but its end slopes b = (|m4-m3| m2 + |m2-m1| m3)/(|m4-m3| + |m2-m1|) are
rational in the node values with |.| kinks.  In an N-D table the node values of the axis-0 spline are the
sub-table interpolants, i.e. functions of x[1:]: along the inner axes and along every table value the
interpolant is piecewise rational, and its smooth pieces end wherever some slope difference changes sign -
not only at grid nodes.  A central-difference formula of order p is exact (or converges at order p) only if the
whole stencil lies in one smooth piece; the location of the kinks is not known to the oracle, so a stencil
cannot be guaranteed to avoid them, and two step sizes can agree while both straddle one.  Complex step
evaluates the analytic continuation of the piece the query point lies in (the code negates by the sign of the
real part, which is the continuation of |.| away from 0) and needs no margin.

Tolerances are derived: value round-off delta = omv.ref.interp_ref.value_tol (32*ndim*eps*kappa*max|v|);
a derivative w.r.t. x_d divides differences of such values by a local spacing, so its round-off is bounded by
5*delta/dist_d (dist_d = distance of x_d to the nearest breakpoint of axis d); a 7-point difference with step
h adds (11/6)*2*delta/h.  For akima (non-linear in the values) the round-off amplification of the derivative
formulas is measured by re-evaluating the same derivative on a table perturbed by 1e-12*max|v| (condition
estimate), since no closed-form bound exists.
"""
import os
import traceback

import numpy as np

from omv.core import fingerprint
from omv.ref import interp_ref as R

PROPERTY = 'C16'
LEVEL = 'exploration'
TECHNIQUE = 'runtime monitoring: complex-step / exact-stencil differences of the same API; linearity identities'
RULE = ('cases enumerated over (part x method) with random dimension 1-3, per-axis point counts, grid location '
        'kinds, spacing ratios up to 20, akima options (delta_x, eps), bsplines options (order, x_cp_start/end), '
        'vec_size 1-3; query points strictly inside cells (>= 10% of the cell from a breakpoint); the akima '
        'component partials also on a 4-D table and at extrapolated points (10-50% of the end cell beyond an end '
        'node); components with 2-4 splines / 2-3 tables each (different random values, vec_size > 1, with and '
        'without units, training_data_gradients on/off, add order permuted), 2-4 InterpND objects called in '
        'interleaved order, cache call sequences incl. in-place changes of the caller\'s arrays; distinct = '
        'distinct (part, method, point counts, kinds, options); non-trivial = at least one derivative judged')
LEVEL_TEXT = 'randomised exploration with derived tolerances over every method and every derivative-returning API'
ASSUMPTIONS = ['points on breakpoints (grid nodes; cell mid-points for even-order scipy splines) are excluded: the '
               'interpolant is only C0/C1 there and its derivative one-sided',
               'akima is not linear in the table values (by construction); for it the derivative w.r.t. values is '
               'checked by complex step / differences, not by the linearity identity',
               'fixed-dimension methods do not offer training gradients (documented) and are not asked for them',
               'cases whose derived tolerance exceeds 1e-6 (relative) are discarded as ill-conditioned',
               'the caller may change its own query / value arrays in place between two calls: an answer must '
               'belong to the array contents at the time of the call (gradient() documents that it re-interpolates '
               'when the point differs from the cached one)',
               'MetaModelSemiStructuredComp is driven on full meshes only (the value tolerance of the structured '
               'method of the same name applies there)']
MIN_JUDGED = {'quick': 300, 'thorough': 4000}
SHARD_TIMEOUT = {'quick': 600, 'thorough': 2400}

GENERAL = ['slinear', 'lagrange2', 'lagrange3', 'cubic', 'akima',
           'scipy_slinear', 'scipy_cubic', 'scipy_quintic']
FIXED = sorted(R.FIXED_DIM)
LINEAR = ['slinear', 'lagrange2', 'lagrange3', 'cubic', 'scipy_slinear', 'scipy_cubic', 'scipy_quintic']
SPLINE = ['slinear', 'lagrange2', 'lagrange3', 'cubic', 'akima', 'bsplines',
          'scipy_cubic', 'scipy_slinear', 'scipy_quintic']

REQUIRED_COUNTERS = (['obs:d_dx:complex-step', 'obs:d_dx:fd7', 'obs:d_dx:batched', 'obs:gradient-method',
                      'obs:training-gradient-identity', 'obs:superposition', 'obs:spline:identity',
                      'obs:spline:jacobian-value-independent', 'obs:spline:akima-complex-step',
                      'obs:mmsc:d_dx', 'obs:mmsc:d_dx-complex-step', 'obs:mmsc:d_dtrain-identity',
                      'obs:mmsc:d_dtrain-complex-step', 'obs:mmsc:d_dtrain-euler',
                      'obs:splinecomp:identity', 'obs:splinecomp:complex-step']
                     + ['cell:ddx:' + m for m in GENERAL + FIXED]
                     + ['cell:train:' + m for m in LINEAR]
                     + ['cell:spline:' + m for m in SPLINE]
                     + ['cell:mmsc:' + m for m in GENERAL + FIXED]
                     + ['cell:splinecomp:' + m for m in SPLINE])

# parts splinemulti / tablemulti / interleave / cachestate (derivative state shared between the splines / outputs of
# one component, between objects, and between calls): omv/gen/c16_kit.py
from omv.gen import c16_kit as KIT       # noqa: E402
REQUIRED_COUNTERS = REQUIRED_COUNTERS + KIT.required_counters(GENERAL, FIXED, SPLINE)

ILL = 1e-6
CS = 1e-30
W7 = np.array([-1.0, 9.0, -45.0, 0.0, 45.0, -9.0, 1.0]) / 60.0


def _chain(e):
    out, seen = [], set()
    while e is not None and id(e) not in seen:
        seen.add(id(e))
        out.append(e)
        e = e.__cause__ or e.__context__
    return out


def _root(e):
    """Innermost exception of a re-raise chain that was raised from OpenMDAO code (components wrap the errors
    of their interpolators)."""
    for x in reversed(_chain(e)):
        if _where1(x) != '?':
            return x
    return e


def _where1(e):
    tb = traceback.extract_tb(e.__traceback__)
    for fr in reversed(tb):
        if '/openmdao/' in fr.filename:
            return '%s:%s' % (os.path.basename(fr.filename), fr.name)
    return '?'


def _where(e):
    return _where1(_root(e))


class _Report(object):
    def __init__(self, acc, case):
        self.acc = acc
        self.case = case
        self.bad = False
        self.judged = False

    def viol(self, key, what):
        self.acc.viol(key, what, self.case, new_case=not self.bad)
        self.bad = True

    def done(self):
        if self.bad:
            return
        if self.judged:
            self.acc.ok(_fp(self.case), sample=self.case if self.case['seed'] % 89 == 0 else None)
        else:
            self.acc.skip('nothing-judged')


def _fp(case):
    return fingerprint({k: v for k, v in case.items() if k != 'seed'})


# ------------------------------------------------------------------------------------------------
# generators
# ------------------------------------------------------------------------------------------------
def _breaks(method, g):
    """Breakpoints of the piecewise polynomial along one axis."""
    if method in R.SCIPY_ORDER:
        k = min(R.SCIPY_ORDER[method], len(g) - 1)
        if k % 2 == 0:
            return np.sort(np.concatenate([g, 0.5 * (g[1:] + g[:-1])]))
    return g


def _interior(rng, method, grids):
    """A point >= 10% of its piece away from every breakpoint; returns (x, dist per axis)."""
    x = np.empty(len(grids))
    dist = np.empty(len(grids))
    for d, g in enumerate(grids):
        b = _breaks(method, g)
        i = int(rng.integers(0, len(b) - 1))
        fr = rng.uniform(0.1, 0.9)
        x[d] = b[i] + fr * (b[i + 1] - b[i])
        dist[d] = min(x[d] - b[i], b[i + 1] - x[d])
    return x, dist


def _table(case):
    rng = np.random.default_rng(case['seed'])
    grids = [R.make_grid(rng, n, k, case['max_ratio']) for n, k in zip(case['npts'], case['kinds'])]
    scale = 10.0 ** rng.uniform(-1, 1)
    shape = tuple(len(g) for g in grids)
    v1 = rng.uniform(-1.0, 1.0, size=shape) * scale
    v2 = rng.uniform(-1.0, 1.0, size=shape) * scale
    return rng, grids, v1, v2


def _opts(case):
    return dict(case.get('opts') or {})


def _delta(method, grids, x, vmax):
    if method == 'bsplines':
        return 32.0 * 8 * R.EPS * vmax
    return R.value_tol(method, grids, x, vmax)


# ------------------------------------------------------------------------------------------------
# part ddx
# ------------------------------------------------------------------------------------------------
def _val(it, X):
    return np.asarray(it.interpolate(X)).ravel()


def judge_ddx(case, acc):
    from openmdao.components.interp_util.interp import InterpND
    method = case['method']
    rng, grids, v1, _ = _table(case)
    rep = _Report(acc, case)
    nd = len(grids)
    vmax = float(np.abs(v1).max())
    opts = _opts(case)
    try:
        it = InterpND(method=method, points=tuple(grids), values=v1.copy(), extrapolate=case['extrapolate'], **opts)
    except Exception as e:
        rep.viol('raises:%s@%s:construct:%s' % (type(e).__name__, _where(e), method), str(e)[:200])
        return
    acc.count('cell:ddx:' + method)
    use_cs = method not in R.SCIPY_ORDER
    akima = 'akima' in method
    it_pert = None
    if akima:
        pert = v1 + 1e-12 * vmax * rng.uniform(-1, 1, size=v1.shape)
        it_pert = InterpND(method=method, points=tuple(grids), values=pert, extrapolate=case['extrapolate'], **opts)
    npt = 5
    P = [_interior(rng, method, grids) for _ in range(npt)]
    singles = []
    for x, dist in P:
        delta = _delta(method, grids, x, vmax)
        if delta / vmax > ILL:
            acc.count('skip:ill-conditioned-point')
            singles.append(None)
            continue
        try:
            f, d = it.interpolate(x.copy(), compute_derivative=True)
            f = float(np.asarray(f).ravel()[0])
            d = np.asarray(d, dtype=float).ravel().copy()
        except Exception as e:
            ok_plain = False
            if opts:     # does the failure belong to the option or to the method?
                try:
                    InterpND(method=method, points=tuple(grids), values=v1.copy(),
                             extrapolate=case['extrapolate']).interpolate(x.copy(), compute_derivative=True)
                    ok_plain = True
                except Exception:
                    pass
            rep.viol('raises:%s@%s:interpolate-derivative%s:%s' % (type(e).__name__, _where(e),
                                                                   _optkey(opts) if ok_plain else '', method),
                     str(e)[:200])
            singles.append(None)
            continue
        if d.shape != (nd,):
            rep.viol('d_dx-shape:%s' % method, 'derivative shape %s for %d-D point' % (d.shape, nd))
            singles.append(None)
            continue
        cond = 0.0
        if akima:
            _, dp = it_pert.interpolate(x.copy(), compute_derivative=True)
            cond = float(np.abs(np.asarray(dp).ravel() - d).max()) / 1e-12      # per unit relative perturbation
        ref = np.empty(nd)
        tol = np.empty(nd)
        # general lagrange2/3 tables evaluate d/dx in expanded absolute coordinates (cancellation ~ eps*(|x|/h)^2
        # on grids far from the origin): round-off of the returned derivative itself, see interp_ref
        xr = R.deriv_expanded_roundoff(method, grids, x, vmax)
        try:
            for ax in range(nd):
                base = 5.0 * delta / dist[ax] + 64 * R.EPS * cond + xr[ax]
                if use_cs:
                    xc = x.astype(complex)
                    xc[ax] += 1j * CS
                    fc = np.asarray(it.interpolate(xc)).ravel()[0]
                    ref[ax] = fc.imag / CS
                    tol[ax] = 2 * base
                    acc.count('obs:d_dx:complex-step')
                    if not abs(fc.real - f) <= 2 * delta:
                        rep.viol('complex-step-changes-value:%s' % method,
                                 'f(x)=%r but Re f(x+ih)=%r' % (f, fc.real))
                else:
                    h = dist[ax] / 4.0
                    vals = []
                    for s in (-3, -2, -1, 0, 1, 2, 3):
                        xs = x.copy()
                        xs[ax] += s * h
                        vals.append(_val(it, xs)[0])
                    ref[ax] = float(np.dot(W7, vals)) / h
                    tol[ax] = base + (11.0 / 6.0) * 2 * delta / h
                    acc.count('obs:d_dx:fd7')
        except Exception as e:
            rep.viol('raises:%s@%s:interpolate:%s' % (type(e).__name__, _where(e), method), str(e)[:200])
            singles.append(None)
            continue
        rep.judged = True
        for ax in range(nd):
            if not abs(d[ax] - ref[ax]) <= tol[ax]:
                rep.viol('d_dx:%s' % method,
                         'x=%s axis %d (of %d): returned %r, numerical %r (|d|=%.3g, tol %.3g)'
                         % (x.tolist(), ax, nd, d[ax], ref[ax], abs(d[ax] - ref[ax]), tol[ax]))
                break
        singles.append((d, tol))
    # ---- gradient(x) on a point that is not the cached one (before any batched call: a batched call
    #      followed by a one-point call on the same fixed table is a value-path matter judged by C15)
    ks = [k for k, s in enumerate(singles) if s is not None]
    if len(ks) >= 2:
        k0, k1 = ks[0], ks[1]
        try:
            it.interpolate(P[k0][0].copy(), compute_derivative=True)
            xq = P[k1][0].copy()
            g = np.asarray(it.gradient(xq), dtype=float).ravel()
            acc.count('obs:gradient-method')
            if g.shape != (nd,) or not np.all(np.abs(g - singles[k1][0]) <= singles[k1][1]):
                rep.viol('gradient-method:%s' % method,
                         'gradient(x) after another point was cached: %s, interpolate(x, compute_derivative=True): %s'
                         % (g.tolist(), singles[k1][0].tolist()))
        except Exception as e:
            rep.viol('raises:%s@%s:gradient:%s' % (type(e).__name__, _where(e), method), str(e)[:200])
    # ---- batched call
    if len(ks) >= 2:
        X = np.array([P[k][0] for k in ks])
        try:
            F, D = it.interpolate(X.copy(), compute_derivative=True)
            D = np.asarray(D, dtype=float).reshape(len(ks), nd)
            for j, k in enumerate(ks):
                acc.count('obs:d_dx:batched')
                if not np.all(np.abs(D[j] - singles[k][0]) <= singles[k][1]):
                    rep.viol('d_dx-batched:%s' % method, 'point %s: batched %s, alone %s'
                             % (X[j].tolist(), D[j].tolist(), singles[k][0].tolist()))
                    break
        except Exception as e:
            rep.viol('raises:%s@%s:batched-derivative:%s' % (type(e).__name__, _where(e), method), str(e)[:200])
    rep.done()


# ------------------------------------------------------------------------------------------------
# part train
# ------------------------------------------------------------------------------------------------
def judge_train(case, acc):
    from openmdao.components.interp_util.interp import InterpND
    method = case['method']
    rng, grids, v1, v2 = _table(case)
    rep = _Report(acc, case)
    alpha = float(rng.uniform(-2, 2))
    v3 = v1 + alpha * v2
    vmax = float(max(np.abs(v1).max(), np.abs(v2).max(), np.abs(v3).max()))
    try:
        its = [InterpND(method=method, points=tuple(grids), values=v.copy(), extrapolate=True) for v in (v1, v2, v3)]
    except Exception as e:
        rep.viol('raises:%s@%s:construct:%s' % (type(e).__name__, _where(e), method), str(e)[:200])
        return
    acc.count('cell:train:' + method)
    for _ in range(4):
        x, dist = _interior(rng, method, grids)
        delta = _delta(method, grids, x, vmax)
        if delta / vmax > ILL:
            acc.count('skip:ill-conditioned-point')
            continue
        try:
            f = [float(_val(it, x.copy())[0]) for it in its]
            tg = np.asarray(its[0].training_gradients(x.copy()), dtype=float)
        except Exception as e:
            rep.viol('raises:%s@%s:training_gradients:%s' % (type(e).__name__, _where(e), method), str(e)[:200])
            break
        if tg.size != v1.size:
            rep.viol('training-gradient-size:%s' % method, 'shape %s, table %s' % (tg.shape, v1.shape))
            break
        # (the N-D result is an outer product that numpy flattens; the components reshape it in C order)
        tg = tg.reshape(v1.shape)
        rep.judged = True
        for j, v in enumerate((v1, v2)):
            acc.count('obs:training-gradient-identity')
            tol = 4 * delta + 8 * R.EPS * float(np.abs(tg * v).sum())
            got = float((tg * v).sum())
            if not abs(got - f[j]) <= tol:
                rep.viol('training-gradient-identity:%s' % method,
                         'x=%s: <training_gradients, values>=%r but interpolate=%r (tol %.3g)'
                         % (x.tolist(), got, f[j], tol))
                break
        acc.count('obs:superposition')
        if not abs(f[2] - (f[0] + alpha * f[1])) <= 4 * delta * (1 + abs(alpha)):
            rep.viol('superposition:%s' % method, 'f(v1+a v2)=%r, f(v1)+a f(v2)=%r' % (f[2], f[0] + alpha * f[1]))
    rep.done()


# ------------------------------------------------------------------------------------------------
# part spline
# ------------------------------------------------------------------------------------------------
def _spline_setup(case):
    rng = np.random.default_rng(case['seed'])
    method = case['method']
    n_cp = case['npts'][0]
    opts = _opts(case)
    if method == 'bsplines':
        grid = np.linspace(0.0, 1.0, n_cp)
        lo = float(rng.uniform(-5, 5))
        span = 10.0 ** rng.uniform(-1, 1)
        xi = np.sort(lo + span * rng.uniform(0, 1, case['n_interp']))
        if case.get('cp_ends'):
            opts['x_cp_start'] = float(xi[0] - 0.2 * span * rng.uniform(0, 1))
            opts['x_cp_end'] = float(xi[-1] + 0.2 * span * rng.uniform(0, 1))
    else:
        grid = R.make_grid(rng, n_cp, case['kinds'][0], case['max_ratio'])
        b = _breaks(method, grid)
        xi = []
        for _ in range(case['n_interp']):
            i = int(rng.integers(0, len(b) - 1))
            xi.append(b[i] + rng.uniform(0.1, 0.9) * (b[i + 1] - b[i]))
        xi = np.sort(np.array(xi))
        if len(np.unique(xi)) < len(xi):
            xi = np.unique(xi)
    scale = 10.0 ** rng.uniform(-1, 1)
    vec = case['vec']
    v1 = rng.uniform(-1, 1, (vec, n_cp)) * scale
    v2 = rng.uniform(-1, 1, (vec, n_cp)) * scale
    return rng, grid, xi, v1, v2, opts


def _spline_delta(method, grid, xi, vmax):
    return np.array([_delta(method, [grid], [x], vmax) for x in xi])


def _as3(d, vec, n_interp, n_cp):
    d = np.asarray(d)
    return d.reshape(vec, n_interp, n_cp)


def judge_spline(case, acc):
    from openmdao.components.interp_util.interp import InterpND
    method = case['method']
    rng, grid, xi, v1, v2, opts = _spline_setup(case)
    rep = _Report(acc, case)
    vec, n_cp = v1.shape
    n_i = len(xi)
    alpha = float(rng.uniform(-2, 2))
    v3 = v1 + alpha * v2
    vmax = float(max(np.abs(v1).max(), np.abs(v2).max(), np.abs(v3).max()))
    delta = _spline_delta(method, grid, xi, vmax)
    if delta.max() / vmax > ILL:
        acc.skip('ill-conditioned-grid')
        return

    def make():
        if method == 'bsplines':
            return InterpND(method=method, num_cp=n_cp, x_interp=xi.copy(), **opts)
        return InterpND(method=method, points=grid.copy(), x_interp=xi.copy(), **opts)

    try:
        it = make()
        vin = v1[0].copy() if (vec == 1 and case.get('flat_values')) else v1.copy()
        r1, d1 = it.evaluate_spline(vin, compute_derivative=True)
        r1 = np.asarray(r1, dtype=float).reshape(vec, n_i)
        d1 = _as3(d1, vec, n_i, n_cp).astype(float)
    except Exception as e:
        rep.viol('raises:%s@%s:evaluate_spline:%s' % (type(e).__name__, _where(e), method), str(e)[:200])
        return
    acc.count('cell:spline:' + method)
    if method == 'akima':
        # complex step on the control values, through the same API
        pert = v1 + 1e-12 * vmax * rng.uniform(-1, 1, size=v1.shape)
        try:
            _, dp = make().evaluate_spline(pert.copy(), compute_derivative=True)
            cond = np.abs(_as3(dp, vec, n_i, n_cp) - d1).max(axis=2) / 1e-12   # (vec, n_i)
            ref = np.empty_like(d1)
            for j in range(n_cp):
                vc = v1.astype(complex)
                vc[:, j] += 1j * CS
                rc = np.asarray(make().evaluate_spline(vc)).reshape(vec, n_i)
                ref[:, :, j] = rc.imag / CS
        except Exception as e:
            rep.viol('raises:%s@%s:evaluate_spline-complex:akima' % (type(e).__name__, _where(e)), str(e)[:200])
            return
        rep.judged = True
        acc.count('obs:spline:akima-complex-step')
        # d f / d v_j is dimensionless; its round-off: delta/vmax (formula) + measured conditioning
        tol = 2 * (8 * delta[None, :] / vmax + 64 * R.EPS * cond * vmax)
        err = np.abs(d1 - ref).max(axis=2)
        if not np.all(err <= tol):
            i = np.unravel_index(np.argmax(err - tol), err.shape)
            rep.viol('evaluate_spline:d_dvalues' + _optkey(opts) + ':akima',
                     'x_interp=%r: returned %s, complex step %s (tol %.3g)'
                     % (float(xi[i[1]]), d1[i].tolist(), ref[i].tolist(), tol[i]))
        # homogeneity (Euler): only when the |.| is not smoothed
        if not opts.get('delta_x'):
            got = np.einsum('vij,vj->vi', d1, v1)
            if not np.all(np.abs(got - r1) <= 8 * delta[None, :] + 64 * R.EPS * cond * vmax * vmax):
                rep.viol('evaluate_spline:euler-identity:akima', 'J.v=%s, f=%s' % (got.tolist(), r1.tolist()))
        rep.done()
        return
    # ---- linear methods
    try:
        r2, d2 = make().evaluate_spline(v2.copy(), compute_derivative=True)
        r3 = make().evaluate_spline(v3.copy())
        r2 = np.asarray(r2, dtype=float).reshape(vec, n_i)
        r3 = np.asarray(r3, dtype=float).reshape(vec, n_i)
        d2 = _as3(d2, vec, n_i, n_cp).astype(float)
    except Exception as e:
        rep.viol('raises:%s@%s:evaluate_spline:%s' % (type(e).__name__, _where(e), method), str(e)[:200])
        return
    rep.judged = True
    acc.count('obs:spline:identity')
    tolJ = 8 * delta[None, :, None] / vmax
    for (r, d, v, tag) in ((r1, d1, v1, 'v1'), (r2, d2, v2, 'v2')):
        got = np.einsum('vij,vj->vi', d, v)
        tol = 4 * delta[None, :] + 8 * R.EPS * np.einsum('vij,vj->vi', np.abs(d), np.abs(v))
        if not np.all(np.abs(got - r) <= tol):
            rep.viol('evaluate_spline:identity:%s' % method,
                     'J.values=%s but spline=%s' % (got[0].tolist()[:4], r[0].tolist()[:4]))
            break
    acc.count('obs:spline:jacobian-value-independent')
    if not np.all(np.abs(d1 - d2) <= 2 * tolJ):
        rep.viol('evaluate_spline:jacobian-depends-on-values:%s' % method,
                 'max difference %.3g between Jacobians for two value sets' % float(np.abs(d1 - d2).max()))
    if vec > 1 and not np.all(np.abs(d1[0] - d1[-1]) <= 2 * tolJ[0]):
        rep.viol('evaluate_spline:jacobian-differs-across-vec:%s' % method,
                 'max difference %.3g' % float(np.abs(d1[0] - d1[-1]).max()))
    acc.count('obs:superposition')
    if not np.all(np.abs(r3 - (r1 + alpha * r2)) <= 4 * delta[None, :] * (1 + abs(alpha))):
        rep.viol('evaluate_spline:superposition:%s' % method, 'f(v1+a v2) != f(v1)+a f(v2)')
    rep.done()


def _optkey(opts):
    k = sorted(o for o in opts if o in ('delta_x',) and opts[o])
    return (':' + '+'.join(k)) if k else ''


# ------------------------------------------------------------------------------------------------
# part mmsc
# ------------------------------------------------------------------------------------------------
def _fd7(run, X, ax, h):
    vals = []
    for s in (-3, -2, -1, 0, 1, 2, 3):
        Xs = X.copy()
        Xs[:, ax] += s * h
        vals.append(run(Xs))
    return np.tensordot(W7, np.array(vals), axes=(0, 0)) / h


def judge_mmsc(case, acc):
    import openmdao.api as om
    method = case['method']
    rng, grids, v1, v2 = _table(case)
    rep = _Report(acc, case)
    nd = len(grids)
    K = case['vec']
    tdg = method not in R.FIXED_DIM
    alpha = float(rng.uniform(-2, 2))
    v3 = v1 + alpha * v2
    vmax = float(max(np.abs(v1).max(), np.abs(v2).max(), np.abs(v3).max()))
    P = [_interior(rng, method, grids) for _ in range(K)]
    X = np.array([p[0] for p in P])
    dist = np.array([p[1] for p in P])
    if case.get('outside'):
        # extrapolation (the component is built with extrapolate=True): some coordinates of every point lie
        # beyond an end node by 10-50% of the end cell; the end node is then the nearest breakpoint and the
        # interpolant continues the end cell's piece, so the oracles and kappa (dx <= h_cell) stay valid
        for j in range(K):
            axes = np.flatnonzero(rng.random(nd) < 0.5)
            if not len(axes):
                axes = [int(rng.integers(0, nd))]
            for d in axes:
                g = grids[d]
                u = float(rng.uniform(0.1, 0.5))
                if rng.random() < 0.5:
                    dist[j, d] = u * (g[1] - g[0])
                    X[j, d] = g[0] - dist[j, d]
                else:
                    dist[j, d] = u * (g[-1] - g[-2])
                    X[j, d] = g[-1] + dist[j, d]
    delta = np.array([_delta(method, grids, x, vmax) for x in X])
    if delta.max() / vmax > ILL:
        acc.skip('ill-conditioned-grid')
        return
    names = ['x%d' % d for d in range(nd)]
    # The general N-D akima table is a piecewise polynomial (cubic) only along its FIRST axis: the node values
    # of the axis-0 spline are the sub-table interpolants, and the spline is a non-linear function of them
    # (slope weights |m_i+1 - m_i|).  Along axes >= 1 and along every table value it is therefore piecewise
    # *rational* and loses smoothness wherever a slope difference changes sign - anywhere inside a cell.  No
    # difference stencil is exact there (and one that straddles such a point does not even converge at its
    # nominal order), so these directions are judged by complex step through the component (the component and
    # its tests document complex-step support for the non-scipy methods), which needs no smoothness beyond the
    # query point itself.
    nonpoly = method == 'akima'

    def build(with_train):
        prob = om.Problem()
        ivc = prob.model.add_subsystem('ivc', om.IndepVarComp(), promotes=['*'])
        for d, n in enumerate(names):
            ivc.add_output(n, X[:, d].copy())
        c = om.MetaModelStructuredComp(method=method, extrapolate=True, vec_size=K,
                                       training_data_gradients=with_train)
        for n, g in zip(names, grids):
            c.add_input(n, 0.0, training_data=g.copy())
        c.add_output('f', 0.0, training_data=v1.copy())
        prob.model.add_subsystem('c', c, promotes=['*'])
        prob.setup(force_alloc_complex=nonpoly)
        prob.run_model()
        f1 = np.array(prob.get_val('f')).ravel().copy()
        wrt = list(names) + (['f_train'] if with_train else [])
        J = prob.compute_totals(of=['f'], wrt=wrt, return_format='dict')['f']
        return prob, f1, {k: np.array(v, dtype=float) for k, v in J.items()}

    try:
        prob, f1, J = build(tdg)
    except Exception as e:
        if not tdg:
            rep.viol('raises:%s@%s:mmsc:%s' % (type(_root(e)).__name__, _where(e), method), str(e)[:200])
            return
        rep.viol('raises:%s@%s:mmsc-training_data_gradients:%s:%dD' % (type(_root(e)).__name__, _where(e), method, nd),
                 str(e)[:200])
        tdg = False
        try:
            prob, f1, J = build(False)
        except Exception as e2:
            rep.viol('raises:%s@%s:mmsc:%s' % (type(_root(e2)).__name__, _where(e2), method), str(e2)[:200])
            return
    acc.count('cell:mmsc:' + method)

    def run(Xs, train=None):
        for d, n in enumerate(names):
            prob.set_val(n, Xs[:, d])
        if train is not None:
            prob.set_val('f_train', train)
        prob.run_model()
        return np.array(prob.get_val('f')).ravel().copy()

    def run_cs(Xc, train):
        """Outputs (complex) of the same component for complex inputs."""
        prob.set_complex_step_mode(True)
        try:
            for d, n in enumerate(names):
                prob.set_val(n, Xc[:, d])
            prob.set_val('f_train', train)
            prob.run_model()
            return np.array(prob.get_val('f')).ravel().copy()
        finally:
            for d, n in enumerate(names):      # no imaginary part may survive in the shared vectors
                prob.set_val(n, X[:, d].astype(complex))
            prob.set_val('f_train', v1.astype(complex))
            prob.set_complex_step_mode(False)

    # condition estimate of the akima derivative formulas (see module docstring): the same partials on a table
    # perturbed by 1e-12*max|v|, per unit relative perturbation
    cond_x = cond_t = None
    if nonpoly and tdg:
        try:
            pert = v1 + 1e-12 * vmax * rng.uniform(-1, 1, size=v1.shape)
            run(X, pert)
            Jp = prob.compute_totals(of=['f'], wrt=list(names) + ['f_train'], return_format='dict')['f']
            cond_x = np.array([np.abs(np.diag(np.array(Jp[n], dtype=float).reshape(K, K))
                                      - np.diag(J[n].reshape(K, K))) for n in names]).T / 1e-12    # (K, nd)
            cond_t = np.abs(np.array(Jp['f_train'], dtype=float).reshape(K, v1.size)
                            - J['f_train'].reshape(K, v1.size)).max(axis=1) / 1e-12                 # (K,)
            run(X, v1)
        except Exception as e:
            rep.viol('raises:%s@%s:mmsc:%s' % (type(e).__name__, _where(e), method), str(e)[:200])
            nonpoly = False

    # ---- d f / d x : diagonal K x K blocks
    try:
        for ax, n in enumerate(names):
            Jx = J[n].reshape(K, K)
            off = Jx - np.diag(np.diag(Jx))
            if nonpoly and ax >= 1 and not tdg:
                acc.count('skip:akima-inner-axis-without-training-input')   # (the raise is already reported)
                continue
            if nonpoly and ax >= 1:
                Xc = X.astype(complex)
                Xc[:, ax] += 1j * CS
                fc = run_cs(Xc, v1.astype(complex))
                ref = fc.imag / CS
                tol = 2 * (5.0 * delta / dist[:, ax] + 64 * R.EPS * cond_x[:, ax])
                acc.count('obs:mmsc:d_dx-complex-step')
                rep.judged = True
                if np.any(off != 0.0):
                    rep.viol('mmsc:d_dx-offdiagonal:%s' % method, 'non-zero coupling between vec entries')
                if not np.all(np.abs(fc.real - f1) <= 2 * delta):
                    rep.viol('mmsc:complex-step-changes-value:%s' % method,
                             'outputs %s but real part under complex step %s' % (f1.tolist(), fc.real.tolist()))
                bad = ~(np.abs(np.diag(Jx) - ref) <= tol)
                if bad.any():
                    j = int(np.argmax(bad))
                    rep.viol('mmsc:d_dx:%s' % method,
                             'x=%s axis %d: partial %r, complex step through the component %r (tol %.3g)'
                             % (X[j].tolist(), ax, float(np.diag(Jx)[j]), float(ref[j]), tol[j]))
                    break
                continue
            h = dist[:, ax].min() / 4.0
            D1 = _fd7(run, X, ax, h)
            D2 = _fd7(run, X, ax, h / 2.0)
            tol = (5.0 * delta / dist[:, ax] + (11.0 / 6.0) * 2 * delta / (h / 2.0)
                   + np.array([R.deriv_expanded_roundoff(method, grids, x, vmax)[ax] for x in X]))
            incons = np.abs(D1 - D2) > 2 * tol
            acc.count('obs:mmsc:d_dx')
            if incons.any():
                acc.count('skip:fd-inconsistent', int(incons.sum()))
            good = ~incons
            if good.any():
                rep.judged = True
            if np.any(off != 0.0):
                rep.viol('mmsc:d_dx-offdiagonal:%s' % method, 'non-zero coupling between vec entries')
            bad = good & ~(np.abs(np.diag(Jx) - D2) <= tol + np.abs(D1 - D2))
            if bad.any():
                j = int(np.argmax(bad))
                rep.viol('mmsc:d_dx:%s' % method,
                         'x=%s axis %d: partial %r, 7-point difference of the outputs %r (tol %.3g)'
                         % (X[j].tolist(), ax, np.diag(Jx)[j], D2[j], tol[j]))
                break
        run(X)
    except Exception as e:
        rep.viol('raises:%s@%s:mmsc:%s' % (type(e).__name__, _where(e), method), str(e)[:200])
    # ---- d f / d f_train
    if tdg:
        try:
            Jt = J['f_train'].reshape(K, v1.size)
            if 'akima' in method and cond_t is None:
                acc.count('skip:akima-no-condition-estimate')      # (the raise is already reported)
            elif 'akima' in method:
                # complex step on the table values (akima is only piecewise smooth in them, see above)
                sel = rng.choice(v1.size, size=min(24 if nd < 4 else 8, v1.size), replace=False)
                tol = 2 * (8 * delta / vmax + 64 * R.EPS * cond_t)
                for q in sel:
                    t = v1.astype(complex).ravel()
                    t[q] += 1j * CS
                    fc = run_cs(X.astype(complex), t.reshape(v1.shape))
                    ref = fc.imag / CS
                    acc.count('obs:mmsc:d_dtrain-complex-step')
                    rep.judged = True
                    if not np.all(np.abs(fc.real - f1) <= 2 * delta):
                        rep.viol('mmsc:complex-step-changes-value:%s' % method,
                                 'outputs %s but real part under complex step %s' % (f1.tolist(), fc.real.tolist()))
                        break
                    bad = ~(np.abs(Jt[:, q] - ref) <= tol)
                    if bad.any():
                        j = int(np.argmax(bad))
                        rep.viol('mmsc:d_dtrain:%s:%dD' % (method, nd),
                                 'x=%s table entry %d: partial %r, complex step through the component %r (tol %.3g)'
                                 % (X[j].tolist(), int(q), float(Jt[j, q]), float(ref[j]), tol[j]))
                        break
                # Euler identity, independent of the complex path: every slope and every weight |m_a - m_b| is
                # homogeneous of degree 1 in the table, so f(c*v) = c*f(v) and  <df/dv, v> = f.
                acc.count('obs:mmsc:d_dtrain-euler')
                got = Jt @ v1.ravel()
                tolE = 8 * delta + 64 * R.EPS * cond_t * float(np.abs(v1).sum())
                if not np.all(np.abs(got - f1) <= tolE):
                    j = int(np.argmax(np.abs(got - f1) - tolE))
                    rep.viol('mmsc:d_dtrain-euler-identity:%s:%dD' % (method, nd),
                             'x=%s: <partial, training values>=%r but output=%r (tol %.3g)'
                             % (X[j].tolist(), float(got[j]), float(f1[j]), tolE[j]))
                run(X, v1)
            else:
                acc.count('obs:mmsc:d_dtrain-identity')
                rep.judged = True
                got = Jt @ v1.ravel()
                tol = 4 * delta + 8 * R.EPS * (np.abs(Jt) @ np.abs(v1.ravel()))
                if not np.all(np.abs(got - f1) <= tol):
                    j = int(np.argmax(np.abs(got - f1) - tol))
                    rep.viol('mmsc:d_dtrain-identity:%s' % method,
                             'x=%s: <partial, training values>=%r but output=%r (tol %.3g)'
                             % (X[j].tolist(), got[j], f1[j], tol[j]))
                f2 = run(X, v2)
                J2 = np.array(prob.compute_totals(of=['f'], wrt=['f_train'], return_format='dict')['f']['f_train'],
                              dtype=float).reshape(K, v1.size)
                if not np.all(np.abs(J2 - Jt) <= 16 * delta[:, None] / vmax):
                    rep.viol('mmsc:d_dtrain-depends-on-values:%s' % method,
                             'max difference %.3g' % float(np.abs(J2 - Jt).max()))
                got = Jt @ v2.ravel()
                tol = 4 * delta + 8 * R.EPS * (np.abs(Jt) @ np.abs(v2.ravel()))
                if not np.all(np.abs(got - f2) <= tol):
                    rep.viol('mmsc:d_dtrain-identity:%s' % method, 'second value set: %s vs %s'
                             % (got.tolist()[:3], f2.tolist()[:3]))
                f3 = run(X, v3)
                acc.count('obs:superposition')
                if not np.all(np.abs(f3 - (f1 + alpha * f2)) <= 4 * delta * (1 + abs(alpha))):
                    rep.viol('mmsc:superposition:%s' % method, 'f(v1+a v2) != f(v1)+a f(v2)')
        except Exception as e:
            rep.viol('raises:%s@%s:mmsc-training:%s' % (type(e).__name__, _where(e), method), str(e)[:200])
    try:
        prob.cleanup()
    except Exception:
        pass
    rep.done()


# ------------------------------------------------------------------------------------------------
# part splinecomp
# ------------------------------------------------------------------------------------------------
def judge_splinecomp(case, acc):
    import openmdao.api as om
    method = case['method']
    rng, grid, xi, v1, v2, opts = _spline_setup(case)
    rep = _Report(acc, case)
    vec, n_cp = v1.shape
    n_i = len(xi)
    alpha = float(rng.uniform(-2, 2))
    v3 = v1 + alpha * v2
    vmax = float(max(np.abs(v1).max(), np.abs(v2).max(), np.abs(v3).max()))
    delta = _spline_delta(method, grid, xi, vmax)
    if delta.max() / vmax > ILL:
        acc.skip('ill-conditioned-grid')
        return
    prob = om.Problem()
    try:
        ivc = prob.model.add_subsystem('ivc', om.IndepVarComp(), promotes=['*'])
        ivc.add_output('ycp', v1.copy())
        kw = dict(method=method, x_interp_val=xi.copy(), vec_size=vec, interp_options=opts)
        if method == 'bsplines':
            kw['num_cp'] = n_cp
        else:
            kw['x_cp_val'] = grid.copy()
        c = om.SplineComp(**kw)
        c.add_spline(y_cp_name='ycp', y_interp_name='y', y_cp_val=v1.copy())
        prob.model.add_subsystem('c', c, promotes=['*'])
        prob.setup(force_alloc_complex=(method == 'akima'))
        prob.run_model()
        y1 = np.array(prob.get_val('y')).reshape(vec, n_i).copy()
        J = np.array(prob.compute_totals(of=['y'], wrt=['ycp'], return_format='dict')['y']['ycp'], dtype=float)
        J = J.reshape(vec, n_i, vec, n_cp)
    except Exception as e:
        rep.viol('raises:%s@%s:splinecomp:%s' % (type(e).__name__, _where(e), method), str(e)[:200])
        return
    acc.count('cell:splinecomp:' + method)
    def run(v):
        prob.set_val('ycp', v)
        prob.run_model()
        return np.array(prob.get_val('y')).reshape(vec, n_i).copy()

    try:
        # no coupling across vec entries
        for a in range(vec):
            for b in range(vec):
                if a != b and np.any(J[a, :, b, :] != 0.0):
                    rep.viol('splinecomp:cross-vec-coupling:%s' % method, 'non-zero partial between vec rows')
        Jd = np.array([J[a, :, a, :] for a in range(vec)])     # (vec, n_i, n_cp)
        if method == 'akima':
            # akima is only piecewise smooth in the control values (see module docstring): complex step through
            # the component instead of a difference stencil; conditioning measured on a perturbed table
            pert = v1 + 1e-12 * vmax * rng.uniform(-1, 1, size=v1.shape)
            run(pert)
            Jp = np.array(prob.compute_totals(of=['y'], wrt=['ycp'], return_format='dict')['y']['ycp'],
                          dtype=float).reshape(vec, n_i, vec, n_cp)
            cond = np.abs(np.array([Jp[a, :, a, :] for a in range(vec)]) - Jd).max(axis=2) / 1e-12   # (vec, n_i)
            run(v1)
            tol = 2 * (8 * delta[None, :] / vmax + 64 * R.EPS * cond)
            ref = np.empty_like(Jd)
            prob.set_complex_step_mode(True)
            try:
                for q in range(n_cp):
                    t = v1.astype(complex)
                    t[:, q] += 1j * CS
                    prob.set_val('ycp', t)
                    prob.run_model()
                    yc = np.array(prob.get_val('y')).reshape(vec, n_i)
                    ref[:, :, q] = yc.imag / CS
                    if not np.all(np.abs(yc.real - y1) <= 2 * delta[None, :]):
                        rep.viol('splinecomp:complex-step-changes-value:akima', 'y=%s but Re y(ycp + ih)=%s'
                                 % (y1[0].tolist()[:4], yc.real[0].tolist()[:4]))
            finally:
                prob.set_val('ycp', v1.astype(complex))
                prob.set_complex_step_mode(False)
            acc.count('obs:splinecomp:complex-step')
            rep.judged = True
            err = np.abs(Jd - ref).max(axis=2)
            if not np.all(err <= tol):
                i = np.unravel_index(np.argmax(err - tol), err.shape)
                q = int(np.argmax(np.abs(Jd[i] - ref[i])))
                rep.viol('splinecomp:d_dcp' + _optkey(opts) + ':akima',
                         'x_interp=%r control point %d: partial %r, complex step through the component %r (tol %.3g)'
                         % (float(xi[i[1]]), q, float(Jd[i][q]), float(ref[i][q]), tol[i]))
            if not opts.get('delta_x'):     # Euler identity (degree-1 homogeneity) unless |.| is smoothed
                got = np.einsum('vij,vj->vi', Jd, v1)
                tolE = 8 * delta[None, :] + 64 * R.EPS * cond * np.abs(v1).sum(axis=1)[:, None]
                if not np.all(np.abs(got - y1) <= tolE):
                    rep.viol('splinecomp:euler-identity:akima', 'J.ycp=%s but y=%s'
                             % (got[0].tolist()[:4], y1[0].tolist()[:4]))
            run(v1)
        else:
            acc.count('obs:splinecomp:identity')
            rep.judged = True
            got = np.einsum('vij,vj->vi', Jd, v1)
            tol = 4 * delta[None, :] + 8 * R.EPS * np.einsum('vij,vj->vi', np.abs(Jd), np.abs(v1))
            if not np.all(np.abs(got - y1) <= tol):
                rep.viol('splinecomp:identity:%s' % method, 'J.ycp=%s but y=%s' % (got[0].tolist()[:4],
                                                                                  y1[0].tolist()[:4]))
            y2 = run(v2)
            J2 = np.array(prob.compute_totals(of=['y'], wrt=['ycp'], return_format='dict')['y']['ycp'],
                          dtype=float).reshape(vec, n_i, vec, n_cp)
            if not np.all(np.abs(J2 - J) <= 16 * delta.max() / vmax):
                rep.viol('splinecomp:jacobian-depends-on-values:%s' % method,
                         'max difference %.3g' % float(np.abs(J2 - J).max()))
            y3 = run(v3)
            acc.count('obs:superposition')
            if not np.all(np.abs(y3 - (y1 + alpha * y2)) <= 4 * delta[None, :] * (1 + abs(alpha))):
                rep.viol('splinecomp:superposition:%s' % method, 'y(v1+a v2) != y(v1)+a y(v2)')
    except Exception as e:
        rep.viol('raises:%s@%s:splinecomp:%s' % (type(e).__name__, _where(e), method), str(e)[:200])
    try:
        prob.cleanup()
    except Exception:
        pass
    rep.done()


# ------------------------------------------------------------------------------------------------
JUDGES = {'ddx': judge_ddx, 'train': judge_train, 'spline': judge_spline, 'mmsc': judge_mmsc,
          'splinecomp': judge_splinecomp}
JUDGES.update(KIT.JUDGES)


def judge(case, acc):
    JUDGES[case['part']](case, acc)


def _cases(tier, seed):
    rng = np.random.default_rng(1000003 * seed + (31 if tier == 'quick' else 37))
    reps = {'quick': {'ddx': 6, 'train': 4, 'spline': 5, 'mmsc': 2, 'splinecomp': 3},
            'thorough': {'ddx': 140, 'train': 80, 'spline': 100, 'mmsc': 40, 'splinecomp': 60}}[tier]
    out = []
    sid = [0]

    def base(part, method, nd, hi=7):
        lo = 2 if method in R.SCIPY_ORDER else R.MIN_POINTS.get(method, 4)
        if nd >= 3:
            hi = min(hi, 5)
        npts = [int(rng.integers(lo, hi + 1)) for _ in range(nd)]
        kinds = [str(rng.choice(R.LOC_KINDS)) for _ in range(nd)]
        sid[0] += 1
        return {'part': part, 'method': method, 'npts': npts, 'kinds': kinds,
                'max_ratio': float(rng.choice([1.0001, 3.0, 20.0])),
                'seed': int(seed * 10000019 + sid[0] * 7919 + (0 if tier == 'quick' else 5000000))}

    def akima_opts():
        o = {}
        if rng.random() < 0.5:
            o['delta_x'] = float(rng.choice([0.05, 0.5]))
        if rng.random() < 0.3:
            o['eps'] = 1e-20
        return o

    # directed cases: input classes that must be visited in every run (structure fixed, values random)
    def directed(part, method, npts, **kw):
        c = base(part, method, len(npts))
        c['npts'] = list(npts)
        c.update(kw)
        out.append(c)

    directed('ddx', 'akima', [5, 5, 5], extrapolate=True, opts={'delta_x': 0.05})
    directed('ddx', 'akima', [5, 6], extrapolate=False, opts={})
    directed('ddx', '1D-akima', [4], extrapolate=True, opts={})
    directed('ddx', 'akima', [4, 4], extrapolate=True, opts={})
    directed('spline', 'bsplines', [6], opts={'order': 4}, cp_ends=False, n_interp=2, vec=2, flat_values=False)
    directed('splinecomp', 'bsplines', [7], opts={'order': 4}, cp_ends=True, n_interp=3, vec=3, flat_values=False)
    directed('mmsc', 'akima', [5, 5], vec=3)
    directed('mmsc', 'akima', [4, 5, 5], vec=4)
    directed('mmsc', 'akima', [6], vec=3)
    directed('mmsc', 'akima', [4, 4, 5, 4], vec=2)               # a middle table with two sub-dimensions
    directed('mmsc', 'akima', [5, 5], vec=3, outside=True)
    directed('mmsc', 'akima', [4, 5, 4], vec=3, outside=True)

    for _ in range(reps['ddx']):
        for m in GENERAL + FIXED:
            c = base('ddx', m, R.FIXED_DIM.get(m) or int(rng.integers(1, 4)))
            c['extrapolate'] = bool(rng.random() < 0.5)
            if 'akima' in m:
                c['opts'] = akima_opts()
            out.append(c)
    for _ in range(reps['train']):
        for m in LINEAR:
            out.append(base('train', m, int(rng.integers(1, 4)), hi=6))
    for part in ('spline', 'splinecomp'):
        for _ in range(reps[part]):
            for m in SPLINE:
                c = base(part, m, 1, hi=9)
                if m == 'bsplines':
                    order = int(rng.choice([3, 4, 5]))
                    c['npts'] = [int(rng.integers(order + 1, 11))]
                    c['opts'] = {'order': order}
                    c['cp_ends'] = bool(rng.random() < 0.5)
                if m == 'akima':
                    c['opts'] = akima_opts()
                c['n_interp'] = int(rng.integers(2, 9))
                c['vec'] = int(rng.integers(1, 4))
                c['flat_values'] = bool(rng.random() < 0.5)
                out.append(c)
    for _ in range(reps['mmsc']):
        for m in GENERAL + FIXED:
            c = base('mmsc', m, R.FIXED_DIM.get(m) or int(rng.integers(1, 4)), hi=6)
            c['vec'] = int(rng.integers(2, 5))
            out.append(c)
            if m == 'akima' and len(c['npts']) > 1:
                c = dict(c, outside=True, seed=c['seed'] + 1)
                out.append(c)
    # shared / cached derivative state (appended last: the cases above keep their random streams)
    out.extend(KIT.cases(tier, seed, rng, base, akima_opts, GENERAL, FIXED, SPLINE))
    return out


N_SHARDS = {'quick': 16, 'thorough': 48}


def shards(tier, seed):
    n = N_SHARDS[tier]
    return [{'tier': tier, 'seed': seed, 'part': i, 'of': n} for i in range(n)]


def run_shard(shard, acc):
    for case in _cases(shard['tier'], shard['seed'])[shard['part']::shard['of']]:
        judge(case, acc)


def run_case(case, acc):
    judge(case, acc)


def coverage_extra(tier, agg):
    c = agg['counters']
    return {'exhaustive': False,
            'cells_visited': {k: v for k, v in sorted(c.items()) if k.startswith('cell:')},
            'points_discarded': {k: v for k, v in sorted(c.items()) if k.startswith('skip:')}}
