"""C13 - Derivative checks report exactly what they compare.

Monitor: harness components log what their compute_partials wrote; the harness evaluates the documented
difference quotient itself (omv/ref/derivcheck.py) at the same point/step; the dict returned by
check_partials / check_totals is compared entry by entry:
  * analytic block   == what the component wrote (expanded to dense),
  * approximated block == harness quotient restricted to the declared sparsity (that is where check_partials
    stores it; the rest is only visible through 'uncovered_nz'),
  * 'tol violation', 'vals_at_max_error', 'abs error', 'rel error', 'magnitude' == documented functions of the
    two reported blocks,
  * 'uncovered_nz' == { (r, c) : |quotient[r, c]| > threshold and (r, c) not in the declared pattern }, all
    columns,
  * the text report names the same number of uncovered entries.
check_totals: explicit chain ivc -> c1 -> c2; analytic total == product of the written partials (closed form),
approximated total == harness quotient of the composed function, both under driver scaling = closed-form
scaler ratio.
"""
import io
import random

import numpy as np

from omv.core import fingerprint
from omv.ref import derivcheck as R

PROPERTY = 'C13'
LEVEL = 'exploration'
TECHNIQUE = 'runtime monitoring: harness log + own difference quotient + pattern arithmetic vs returned dict'
RULE = ('generated explicit components y_o = sum_i A_oi g_i(x_i) (1-2 outputs, 1-2 inputs, sizes 1-4) whose '
        'analytic partials are correct, wrong in k entries, over-declared or UNDER-declared in one or several '
        'columns, for every declaration style (dense, rows/cols, diagonal, scipy coo/csr/csc), methods fd '
        '(forward/backward/central, step 1e-6/1e-5, step lists) and cs, Problem- and Component-level API, '
        'with/without text report (compact or full); check_totals on explicit chains in fwd/rev with and without '
        'driver scaling; distinct = distinct structural description; non-trivial = at least one block with wrong '
        'or under-declared partials')
ASSUMPTIONS = ['step_calc="abs" only (relative step rules belong to C12)',
               'inputs are kept in [0.5, 1.5] so that every structural dependency has a derivative >= 0.5',
               "the approximated block of a sparse-declared partial is the quotient restricted to the declared "
               "pattern (check_partials stores it in a subjac of that pattern)",
               'an fd block equals the harness quotient up to the round-off of the four function evaluations involved '
               '(4 (n+9) u S / h with S = sum of operand magnitudes of the inner product, derivation in '
               'omv/ref/derivcheck.py: eval_roundoff, fd_tolerance) plus 1e-12 relative',
               'rel error is judged only where the approximated entry is nonzero',
               "'magnitude' is judged for single-step calls only (with several steps one accumulating object is "
               "reported for all of them)",
               'directional checks are not generated']
MIN_JUDGED = {'quick': 150, 'thorough': 3000}
STYLES = ['dense', 'rowcol', 'diag', 'coo', 'csr', 'csc']
REQUIRED_COUNTERS = (['obs:analytic-block', 'obs:approx-block', 'obs:error-fields', 'obs:uncovered-expected',
                      'obs:uncovered-multi-column', 'obs:text-report', 'obs:totals-block', 'obs:totals-scaled',
                      'hook:compute_partials-logged', 'hook:_CheckingJacobian.set_col', 'cell:method/fd',
                      'cell:method/cs', 'cell:totals/fwd', 'cell:totals/rev'] +
                     ['cell:style/%s' % s for s in STYLES] +
                     ['cell:under-declared/%s' % s for s in STYLES if s != 'dense'])
SHARD_TIMEOUT = {'quick': 900, 'thorough': 3000}

_hook = {}


def install_hooks(acc):
    from openmdao.jacobians.dictionary_jacobian import _CheckingJacobian
    if _hook.get('acc') is None:
        orig = _CheckingJacobian.set_col

        def set_col(self, system, icol, column):
            _hook['acc'].count('hook:_CheckingJacobian.set_col')
            return orig(self, system, icol, column)
        _CheckingJacobian.set_col = set_col
    _hook['acc'] = acc


# ----------------------------------------------------------------------------------------------
# generation
# ----------------------------------------------------------------------------------------------
def _randmat(rng, r, c, dens):
    return [[round(rng.uniform(1.0, 2.0) * rng.choice([1, -1]), 3) if rng.random() < dens else 0.0
             for _ in range(c)] for _ in range(r)]


def gen_partials_case(rng, idx, force_style=None):
    nin = rng.choice([1, 1, 2])
    nout = rng.choice([1, 1, 2])
    ins = [{'name': 'x%d' % i, 'size': rng.choice([1, 2, 3, 4]), 'g': rng.choice(['lin', 'sq', 'sin'])}
           for i in range(nin)]
    outs = [{'name': 'y%d' % o, 'size': rng.choice([1, 2, 3, 4])} for o in range(nout)]
    if force_style == 'diag':          # diagonal declarations need square blocks
        sq = rng.choice([2, 3, 4])
        for v in ins + outs:
            v['size'] = sq
    blocks = {}
    for o in outs:
        for i in ins:
            r, c = o['size'], i['size']
            A = np.array(_randmat(rng, r, c, rng.choice([0.5, 0.8, 1.0])))
            if not A.any():
                A[rng.randrange(r), rng.randrange(c)] = 1.5
            T = A != 0
            styles = [s for s in STYLES if s != 'diag' or r == c]
            style = force_style if (force_style in styles) else rng.choice(styles)
            kind = rng.choice(['correct', 'wrong', 'under', 'under', 'over', 'under+wrong'])
            if style == 'dense':
                P = np.ones((r, c), bool)
                if 'under' in kind or kind == 'over':
                    kind = rng.choice(['correct', 'wrong'])
            elif style == 'diag':
                P = np.eye(r, dtype=bool)
                # the true matrix decides whether this is under-declared
                if kind in ('correct', 'wrong', 'over'):
                    A = A * P
                    if not A.any():
                        A[0, 0] = 1.25
                T = A != 0
            else:
                P = T.copy()
                if kind == 'over' or rng.random() < 0.2:
                    P |= np.array([[rng.random() < 0.3 for _ in range(c)] for _ in range(r)])
                if 'under' in kind:
                    nz = list(zip(*np.nonzero(T)))
                    rng.shuffle(nz)
                    ndrop = rng.randrange(1, max(2, len(nz)))      # keep at least one
                    for (a, b) in nz[:ndrop]:
                        P[a, b] = False
                    if not P.any():
                        P[nz[-1]] = True
            err = []
            if 'wrong' in kind:
                cand = list(zip(*np.nonzero(P)))
                rng.shuffle(cand)
                for (a, b) in cand[:rng.randrange(1, 3)]:
                    err.append([int(a), int(b), round(rng.choice([-1, 1]) * rng.choice([0.5, 1e-3, 1e-5, 3.0]), 6)])
            blocks['%s,%s' % (o['name'], i['name'])] = {
                'A': A.tolist(), 'style': style, 'P': P.astype(int).tolist(), 'err': err}
    x0 = {i['name']: [round(rng.uniform(0.5, 1.5), 4) for _ in range(i['size'])] for i in ins}
    method = rng.choice(['fd', 'fd', 'cs'])
    form = rng.choice(['forward', 'backward', 'central']) if method == 'fd' else None
    if method == 'fd':
        step = rng.choice([None, 1e-6, 1e-5, [1e-6, 1e-4]])
    else:
        step = rng.choice([None, 1e-30])
    return {'kind': 'partials', 'idx': idx, 'ins': ins, 'outs': outs, 'blocks': blocks, 'x0': x0,
            'method': method, 'form': form, 'step': step,
            'abs_err_tol': rng.choice([0.0, 1e-6, 1e-2]), 'rel_err_tol': rng.choice([1e-6, 1e-3, 0.0]),
            'api': rng.choice(['problem', 'problem', 'component']),
            'stream': rng.random() < 0.5, 'compact': rng.random() < 0.4}


def gen_totals_case(rng, idx):
    n, r, q = rng.choice([1, 2, 3]), rng.choice([1, 2, 3]), rng.choice([1, 2, 3])
    A = np.array(_randmat(rng, r, n, 0.8))
    if not A.any():
        A[0, 0] = 1.5
    B = np.array(_randmat(rng, q, r, 0.8))
    if not B.any():
        B[0, 0] = -1.25
    err = []
    if rng.random() < 0.6:
        nz = list(zip(*np.nonzero(A)))
        rng.shuffle(nz)
        for (a, b) in nz[:rng.randrange(1, 3)]:
            err.append([int(a), int(b), round(rng.choice([-1, 1]) * rng.choice([0.5, 1e-3, 2.0]), 6)])
    method = rng.choice(['fd', 'fd', 'cs'])
    scal = None
    if rng.random() < 0.6:
        scal = {'dv': [round(rng.uniform(0.2, 5.0), 3) for _ in range(n)] if rng.random() < 0.5
                else round(rng.uniform(0.2, 5.0), 3),
                'con': [round(rng.uniform(0.2, 5.0), 3) for _ in range(q)] if rng.random() < 0.5
                else round(rng.uniform(0.2, 5.0), 3),
                'dv_adder': rng.choice([None, 0.5]), 'con_adder': rng.choice([None, -1.0])}
    return {'kind': 'totals', 'idx': idx, 'n': n, 'r': r, 'q': q, 'A': A.tolist(), 'B': B.tolist(),
            'g': rng.choice(['lin', 'sq', 'sin']), 'g2': rng.choice(['lin', 'sq']), 'err': err,
            'x0': [round(rng.uniform(0.5, 1.5), 4) for _ in range(n)],
            'mode': rng.choice(['fwd', 'rev']), 'method': method,
            'form': rng.choice(['forward', 'backward', 'central', None]) if method == 'fd' else None,
            'step': rng.choice([None, 1e-6, 1e-5, [1e-6, 1e-4]]) if method == 'fd' else rng.choice([None, 1e-30]),
            'scaling': scal, 'driver_scaling': bool(scal) and rng.random() < 0.7,
            'abs_err_tol': rng.choice([0.0, 1e-6]), 'rel_err_tol': rng.choice([1e-6, 1e-3]),
            'stream': rng.random() < 0.3, 'compact': rng.random() < 0.5}


def structure(case):
    if case['kind'] == 'totals':
        return ['totals', case['n'], case['r'], case['q'], case['mode'], case['method'], case['form'],
                isinstance(case['step'], list), bool(case['err']), bool(case['scaling']), case['driver_scaling'],
                case['g'], case['g2']]
    bl = []
    for k in sorted(case['blocks']):
        b = case['blocks'][k]
        A = np.array(b['A'])
        P = np.array(b['P'], bool)
        T = A != 0
        bl.append([k, A.shape, b['style'], int((T & ~P).sum()), int(len(set(np.nonzero(T & ~P)[1]))),
                   int((P & ~T).sum()), len(b['err'])])
    return ['partials', bl, [i['g'] for i in case['ins']], case['method'], case['form'],
            isinstance(case['step'], list), case['api'], case['stream'], case['compact']]


# ----------------------------------------------------------------------------------------------
# harness component
# ----------------------------------------------------------------------------------------------
def make_comp(case, log):
    import openmdao.api as om
    import scipy.sparse as sp
    ins, outs, blocks = case['ins'], case['outs'], case['blocks']

    def fmt(style, P):
        rows, cols = np.nonzero(P)
        m = sp.coo_matrix((np.ones(rows.size), (rows, cols)), shape=P.shape)
        return {'coo': m, 'csr': m.tocsr(), 'csc': m.tocsc()}[style]

    class Pat(om.ExplicitComponent):
        def setup(self):
            for i in ins:
                self.add_input(i['name'], np.ones(i['size']))
            for o in outs:
                self.add_output(o['name'], np.ones(o['size']))
            for key, b in blocks.items():
                on, inn = key.split(',')
                P = np.array(b['P'], bool)
                st = b['style']
                if st == 'dense':
                    self.declare_partials(on, inn)
                elif st == 'rowcol':
                    rows, cols = np.nonzero(P)
                    self.declare_partials(on, inn, rows=rows, cols=cols)
                elif st == 'diag':
                    self.declare_partials(on, inn, diagonal=True)
                else:
                    self.declare_partials(on, inn, val=fmt(st, P))

        def compute(self, inputs, outputs):
            for o in outs:
                acc_ = 0.0
                for i in ins:
                    A = np.array(blocks['%s,%s' % (o['name'], i['name'])]['A'])
                    acc_ = acc_ + A.dot(R.G[i['g']][0](inputs[i['name']]))
                outputs[o['name']] = acc_

        def compute_partials(self, inputs, partials):
            for key, b in blocks.items():
                on, inn = key.split(',')
                i = [q for q in ins if q['name'] == inn][0]
                A = np.array(b['A'])
                P = np.array(b['P'], bool)
                W = A * R.G[i['g']][1](np.asarray(inputs[inn], dtype=float).real)[None, :]
                W = W * P
                for (a, c, d) in b['err']:
                    W[a, c] += d
                log[key] = W.copy()
                log['__n__'] = log.get('__n__', 0) + 1
                st = b['style']
                if st == 'dense':
                    partials[on, inn] = W
                elif st == 'rowcol':
                    rows, cols = np.nonzero(P)
                    partials[on, inn] = W[rows, cols]
                elif st == 'diag':
                    partials[on, inn] = np.diag(W).copy()
                else:
                    m = fmt(st, P)
                    co = m.tocoo()
                    m.data = W[co.row, co.col].astype(float)
                    partials[on, inn] = m
    return Pat()


def harness_f(case, oname):
    """f(xfull) for one output, xfull = concatenation of all inputs in declaration order."""
    ins, blocks = case['ins'], case['blocks']
    offs, o = {}, 0
    for i in ins:
        offs[i['name']] = slice(o, o + i['size'])
        o += i['size']

    def f(xf):
        acc_ = 0.0
        for i in ins:
            A = np.array(blocks['%s,%s' % (oname, i['name'])]['A'])
            acc_ = acc_ + A.dot(R.G[i['g']][0](xf[offs[i['name']]]))
        return acc_
    return f, offs, o


def steps_of(case):
    st = case['step']
    return st if isinstance(st, list) else [st if st is not None else default_step(case['method'])]


def harness_eval_roundoff(case, oname):
    """Round-off bound of one evaluation of output `oname` at ANY point the quotients visit, one value per row:
    R.eval_roundoff of the operand magnitudes S = sum_i |A_oi| |g_i(x_i)|.  All g are positive and increasing on
    the generated domain (x in [0.5, 1.5]), so S at x + hmax bounds S at every perturbed point."""
    hmax = max(steps_of(case)) if case['method'] == 'fd' else 0.0
    S, n = 0.0, 0
    for i in case['ins']:
        A = np.array(case['blocks']['%s,%s' % (oname, i['name'])]['A'])
        S = S + np.abs(A).dot(np.abs(R.G[i['g']][0](np.array(case['x0'][i['name']], dtype=float) + hmax)))
        n += i['size']
    return R.eval_roundoff(S, n)[:, None]


# ----------------------------------------------------------------------------------------------
# judging
# ----------------------------------------------------------------------------------------------
def _ed(x, which):
    """_ErrorData / _MagnitudeData field access without importing their classes."""
    return getattr(x, which)


def default_step(method):
    return 1e-6 if method == 'fd' else 1e-40


class Reporter(object):
    """Counts a case once however many discrepancies it shows."""

    def __init__(self, acc, case):
        self.acc, self.case, self.any = acc, case, False

    def viol(self, key, what):
        self.acc.viol(key, what, self.case, new_case=not self.any)
        self.any = True


def judge_block(acc, case, key_prefix, entry, Jkey, W, quot_of_step, P, everr, atol, rtol, which, rep,
                scale_note=''):
    """Common comparison of one (of, wrt) entry.  quot_of_step(h) -> full dense reference quotient;
    everr = round-off bound of ONE function evaluation, per row (R.eval_roundoff), broadcastable to the block.
    Returns True if something was reported."""
    bad = False

    def viol(key, what):
        nonlocal bad
        rep.viol('%s:%s' % (key_prefix, key), what + scale_note)
        bad = True
    method, form = case['method'], case['form'] or 'forward'
    steps = case['step']
    multi = isinstance(steps, list)
    steplist = steps if multi else [steps if steps is not None else default_step(method)]
    # ---- analytic block
    if Jkey not in entry:
        viol('analytic-block-missing', '%s not in returned entry (keys %s)' % (Jkey, sorted(entry)))
        return bad
    Ja = np.asarray(entry[Jkey], dtype=float)
    acc.count('obs:analytic-block')
    if Ja.shape != W.shape:
        viol('analytic-block-shape', 'reported %s, written %s' % (Ja.shape, W.shape))
        return bad
    tolW = 1e-12 * (np.abs(W) + np.abs(W).max() * 1e-3 + 1e-300)
    if np.any(np.abs(Ja - W) > tolW):
        k = np.unravel_index(np.argmax(np.abs(Ja - W)), W.shape)
        viol('analytic-block-differs-from-written', 'entry %s: reported %r, component wrote %r' %
             (tuple(int(v) for v in k), Ja[k], W[k]))
    # ---- approximated block(s)
    Jfd = entry.get('J_fd')
    if Jfd is None:
        viol('approx-block-missing', 'J_fd not in returned entry')
        return bad
    Jfds = list(Jfd) if multi else [Jfd]
    if len(Jfds) != len(steplist):
        viol('approx-block-count', '%d approximated blocks for %d steps' % (len(Jfds), len(steplist)))
        return bad

    def field(name, k):
        v = entry.get(name)
        if v is None:
            return None
        return v[k] if multi else v
    for k, (h, Jd) in enumerate(zip(steplist, Jfds)):
        Jd = np.asarray(Jd, dtype=float)
        Q = quot_of_step(h)
        ref = Q * P
        acc.count('obs:approx-block')
        if Jd.shape != ref.shape:
            viol('approx-block-shape', 'reported %s expected %s' % (Jd.shape, ref.shape))
            continue
        if method == 'fd':
            tol = R.fd_tolerance(everr, h, form, ref)
        else:
            tol = 1e-12 * (np.abs(ref) + np.abs(ref).max() + 1e-300)
        if np.any(np.abs(Jd - ref) > tol) and multi and k < len(steplist) - 1 and \
                not np.any(np.abs(Jd - quot_of_step(steplist[-1]) * P) >
                           (R.fd_tolerance(everr, steplist[-1], form, ref) if method == 'fd' else tol)):
            viol('multi-step:approx-block-holds-last-steps-quotient',
                 'steps %s: block reported for step %g equals the quotient of the LAST step %g, e.g. entry '
                 '(0, 0): reported %r, quotient for its own step %r' %
                 (steplist, h, steplist[-1], Jd.flat[0], ref.flat[0]))
        elif np.any(np.abs(Jd - ref) > tol):
            kk = np.unravel_index(np.argmax(np.abs(Jd - ref) - tol), ref.shape)
            viol('approx-block-differs-from-difference-quotient',
                 'step %g %s entry %s: reported %r, harness quotient %r (tol %.3g)' %
                 (h, form if method == 'fd' else 'cs', tuple(int(v) for v in kk), Jd[kk], ref[kk],
                  float(np.broadcast_to(tol, ref.shape)[kk])))
        # ---- error fields: documented functions of the two REPORTED blocks
        tv, vals, ae, re_ = field('tol violation', k), field('vals_at_max_error', k), \
            field('abs error', k), field('rel error', k)
        if tv is None or vals is None or ae is None or re_ is None:
            viol('error-fields-missing', 'tol violation / vals_at_max_error / abs error / rel error missing')
            continue
        acc.count('obs:error-fields')
        res = R.judge_error_fields(Ja, Jd, atol, rtol, _ed(tv, which), _ed(vals, which), _ed(ae, which),
                                   _ed(re_, which))
        for fld, text in res:
            viol('error-field:%s' % fld.replace(' ', '-'), text)
        if not multi:
            mg = entry.get('magnitude')
            if mg is not None:
                ma = np.abs(Ja).max() if Ja.size else 0.0
                md = np.abs(Jd).max() if Jd.size else 0.0
                if abs(_ed(mg, which) - ma) > 1e-12 * max(ma, 1e-300) or abs(mg.fd - md) > 1e-12 * max(md, 1e-300):
                    viol('error-field:magnitude', 'reported (%r, fd %r), max|Ja|=%r max|Jfd|=%r' %
                         (_ed(mg, which), mg.fd, ma, md))
    return bad


def run_partials(case, acc):
    import openmdao.api as om
    install_hooks(acc)
    log = {}
    p = om.Problem()
    ivc = p.model.add_subsystem('ivc', om.IndepVarComp())
    for i in case['ins']:
        ivc.add_output(i['name'], np.array(case['x0'][i['name']]))
        p.model.connect('ivc.' + i['name'], 'c.' + i['name'])
    comp = p.model.add_subsystem('c', make_comp(case, log))
    kw = dict(method=case['method'], abs_err_tol=case['abs_err_tol'], rel_err_tol=case['rel_err_tol'],
              compact_print=case['compact'])
    if case['step'] is not None:
        kw['step'] = case['step']
    if case['form'] is not None:
        kw['form'] = case['form']
    stream = io.StringIO() if case['stream'] else None
    styles = sorted(set(b['style'] for b in case['blocks'].values()))
    under_styles = sorted(set(b['style'] for b in case['blocks'].values()
                              if ((np.array(b['A']) != 0) & ~np.array(b['P'], bool)).any()))
    tag = '+'.join(under_styles) if under_styles else 'declared-ok'
    try:
        p.setup(force_alloc_complex=True)
        p.run_model()
    except Exception as e:
        acc.viol('setup-or-run-raises:%s' % type(e).__name__, str(e)[:300], case)
        return
    try:
        try:
            if case['api'] == 'problem':
                data = p.check_partials(out_stream=stream, **kw)
            else:
                data, _ = comp.check_partials(out_stream=stream, **kw)
                if not isinstance(case['step'], list):
                    from openmdao.core.problem import _fix_check_data
                    _fix_check_data(data)
        except Exception as e:
            import traceback
            import sys
            import os
            tb = traceback.extract_tb(sys.exc_info()[2])
            where = ''
            for fr in reversed(tb):
                if '/openmdao/' in fr.filename:
                    where = '%s:%s' % (os.path.basename(fr.filename), fr.name)
                    break
            tagkey = 'diag:under-declared' if 'diag' in under_styles else \
                ('under-declared' if under_styles else 'declared-ok')
            acc.viol('%s:check_partials-raises:%s@%s' % (tagkey, type(e).__name__, where),
                     '%s: %s' % (type(e).__name__, str(e)[:200]), case)
            for s in styles:
                acc.count('cell:style/%s' % s)
            for s in under_styles:
                acc.count('cell:under-declared/%s' % s)
            return
        if log.get('__n__'):
            acc.count('hook:compute_partials-logged')
        acc.count('cell:method/%s' % case['method'])
        cdata = data.get('c')
        if cdata is None:
            acc.viol('component-missing-from-result', 'keys %s' % list(data), case)
            return
        rep = Reporter(acc, case)
        nexp_total = 0
        for o in case['outs']:
            f, offs, nx = harness_f(case, o['name'])
            xf = np.concatenate([np.array(case['x0'][i['name']], dtype=float) for i in case['ins']])
            everr = harness_eval_roundoff(case, o['name'])
            cache = {}

            def quot(h, f=f, xf=xf, cache=cache):
                if h not in cache:
                    if case['method'] == 'fd':
                        cache[h] = R.fd_jac(f, xf, h, case['form'] or 'forward')
                    else:
                        cache[h] = R.cs_jac(f, xf, h)
                return cache[h]
            for i in case['ins']:
                key = '%s,%s' % (o['name'], i['name'])
                b = case['blocks'][key]
                st = b['style']
                acc.count('cell:style/%s' % st)
                P = np.array(b['P'], bool)
                A = np.array(b['A'])
                T = A != 0
                sl = offs[i['name']]
                entry = cdata.get((o['name'], i['name']))
                if entry is None:
                    rep.viol('%s:pair-missing-from-result' % st, 'no entry for %s' % key)
                    continue
                W = log.get(key)
                if W is None:
                    rep.viol('harness-error:compute_partials-not-logged', key)
                    continue
                judge_block(acc, case, st, entry, 'J_fwd', W, lambda h, q=quot, sl=sl: q(h)[:, sl], P, everr,
                            case['abs_err_tol'], case['rel_err_tol'], 'forward', rep)
                # ---- uncovered nonzeros (first step's quotient; all steps see the same dependency set)
                h0 = (case['step'][0] if isinstance(case['step'], list) else case['step']) or \
                    default_step(case['method'])
                thr = entry.get('uncovered_threshold', 1e-16)
                Q = quot(h0)[:, sl]
                exp = set((int(a), int(c)) for a, c in zip(*np.nonzero((np.abs(Q) > thr) & ~P)))
                exp_struct = set((int(a), int(c)) for a, c in zip(*np.nonzero(T & ~P)))
                if exp != exp_struct:
                    if not rep.any:
                        acc.skip('quotient-pattern-differs-from-structural-pattern')
                    return
                got_raw = entry.get('uncovered_nz')
                got = set((int(a), int(c)) for a, c in got_raw) if got_raw is not None else None
                # the list is what the report counts ("Sparsity excludes N entries"): an entry listed twice
                # (once per step of a step list, or left over from an earlier check) is not "exactly the set"
                if got is not None and len(list(got_raw)) != len(got):
                    rep.viol('%s:uncovered_nz:duplicate-entries' % st,
                             '%d entries listed, %d distinct: %s' %
                             (len(list(got_raw)), len(got), sorted((int(a), int(c)) for a, c in got_raw)))
                if exp:
                    acc.count('obs:uncovered-expected')
                    acc.count('cell:under-declared/%s' % st)
                    nexp_total += len(exp)
                    ncols = len(set(c for _, c in exp))
                    if ncols > 1:
                        acc.count('obs:uncovered-multi-column')
                if (got or set()) != exp:
                    if not exp:
                        kind = 'spurious-entries'
                    elif got is None:
                        kind = 'key-missing'
                    elif not got:
                        kind = 'empty-list'
                    elif got < exp:
                        firstcol = min(c for _, c in exp)
                        only_first = set(rc for rc in exp if rc[1] == firstcol)
                        kind = 'only-first-affected-column' if got == only_first else 'incomplete'
                    else:
                        kind = 'wrong-entries'
                    rep.viol('%s:uncovered_nz:%s' % (st, kind),
                             'reported %s, expected all of %s (declared pattern %s)' %
                             (sorted(got) if got is not None else None, sorted(exp), P.astype(int).tolist()))
        # ---- the text report must flag the same number of entries (full format only)
        if stream is not None:
            acc.count('obs:text-report')
            text = stream.getvalue()
            if not case['compact'] and not rep.any:
                import re
                n_text = sum(int(m) for m in re.findall(r'Sparsity excludes (\d+) entries', text))
                if n_text != nexp_total:
                    rep.viol('text-report:uncovered-count', 'report names %d uncovered entries, expected %d' %
                             (n_text, nexp_total))
        if not rep.any:
            nontriv = any(b['err'] for b in case['blocks'].values()) or bool(under_styles)
            acc.ok(fingerprint(structure(case)), nontrivial=nontriv,
                   sample=case if case['idx'] % 211 == 0 else None)
    finally:
        try:
            p.cleanup()
        except Exception:
            pass


def run_totals(case, acc):
    import openmdao.api as om
    install_hooks(acc)
    n, r, q = case['n'], case['r'], case['q']
    A, B = np.array(case['A']).reshape(r, n), np.array(case['B']).reshape(q, r)
    g, gp = R.G[case['g']]
    g2, g2p = R.G[case['g2']]
    log = {}

    class C1(om.ExplicitComponent):
        def setup(self):
            self.add_input('x', np.ones(n))
            self.add_output('y', np.ones(r))
            self.declare_partials('y', 'x')

        def compute(self, inputs, outputs):
            outputs['y'] = A.dot(g(inputs['x']))

        def compute_partials(self, inputs, partials):
            W = A * gp(np.asarray(inputs['x']).real)[None, :]
            for (a, c, d) in case['err']:
                W[a, c] += d
            log['W1'] = W.copy()
            partials['y', 'x'] = W

    class C2(om.ExplicitComponent):
        def setup(self):
            self.add_input('y', np.ones(r))
            self.add_output('z', np.ones(q))
            self.declare_partials('z', 'y')

        def compute(self, inputs, outputs):
            outputs['z'] = B.dot(g2(inputs['y']))

        def compute_partials(self, inputs, partials):
            W = B * g2p(np.asarray(inputs['y']).real)[None, :]
            log['W2'] = W.copy()
            partials['z', 'y'] = W

    p = om.Problem()
    m = p.model
    m.add_subsystem('ivc', om.IndepVarComp('x', np.array(case['x0'], dtype=float)))
    m.add_subsystem('c1', C1())
    m.add_subsystem('c2', C2())
    m.connect('ivc.x', 'c1.x')
    m.connect('c1.y', 'c2.y')
    sc = case['scaling']
    dvkw, conkw = {}, {}
    if sc:
        dvkw['scaler'] = np.array(sc['dv']) if isinstance(sc['dv'], list) else sc['dv']
        conkw['scaler'] = np.array(sc['con']) if isinstance(sc['con'], list) else sc['con']
        if sc['dv_adder'] is not None:
            dvkw['adder'] = sc['dv_adder']
        if sc['con_adder'] is not None:
            conkw['adder'] = sc['con_adder']
    m.add_design_var('ivc.x', **dvkw)
    m.add_constraint('c2.z', upper=1e3, **conkw)
    kw = dict(method=case['method'], abs_err_tol=case['abs_err_tol'], rel_err_tol=case['rel_err_tol'],
              compact_print=case['compact'], driver_scaling=case['driver_scaling'])
    if case['step'] is not None:
        kw['step'] = case['step']
    if case['form'] is not None:
        kw['form'] = case['form']
    stream = io.StringIO() if case['stream'] else None
    try:
        p.setup(mode=case['mode'], force_alloc_complex=True)
        p.run_model()
    except Exception as e:
        acc.viol('totals:setup-or-run-raises:%s' % type(e).__name__, str(e)[:300], case)
        return
    try:
        try:
            data = p.check_totals(out_stream=stream, **kw)
        except Exception as e:
            acc.viol('totals:check_totals-raises:%s' % type(e).__name__, str(e)[:300], case)
            return
        acc.count('cell:totals/%s' % case['mode'])
        acc.count('cell:method/%s' % case['method'])
        entry = data.get(('c2.z', 'ivc.x'))
        if entry is None:
            acc.viol('totals:pair-missing-from-result', 'keys %s' % list(data), case)
            return
        if 'W1' not in log or 'W2' not in log:
            acc.viol('harness-error:compute_partials-not-logged', 'totals', case)
            return
        acc.count('hook:compute_partials-logged')
        x0 = np.array(case['x0'], dtype=float)
        # closed form of what the framework computed: product of the written partials at the run point
        y0 = A.dot(g(x0))
        W2 = B * g2p(y0)[None, :]
        W1 = A * gp(x0)[None, :]
        for (a, c, d) in case['err']:
            W1[a, c] += d
        Wtot = W2.dot(W1)
        sdv = np.ones(n)
        scon = np.ones(q)
        note = ''
        if case['driver_scaling'] and sc:
            sdv = np.array(sc['dv'], dtype=float) * np.ones(n)
            scon = np.array(sc['con'], dtype=float) * np.ones(q)
            note = ' [driver_scaling]'
            acc.count('obs:totals-scaled')
        S = scon[:, None] / sdv[None, :]

        def F(x):
            return B.dot(g2(A.dot(g(x))))
        # round-off of one evaluation of F, per row (first order in U; see R.eval_roundoff): the inner product
        # y = A g(x) is off by e1; that error is carried through g2 and B (|B| |g2'(y)| e1) and the outer inner
        # product adds its own round-off on its operand magnitudes |B| |g2(y)|.  All magnitudes are taken at
        # |.| + the largest displacement any perturbed point can have, g, g', g2, g2' being increasing in |.|.
        hmax = max(steps_of(case)) if case['method'] == 'fd' else 0.0
        e1 = R.eval_roundoff(np.abs(A).dot(np.abs(g(x0 + hmax))), n)
        gpmax = np.max(np.abs([gp(x0 - hmax), gp(x0), gp(x0 + hmax)]), axis=0)    # g' is monotone on the domain
        ybound = np.abs(A.dot(g(x0))) + np.abs(A).dot(gpmax) * hmax + e1
        e2 = np.abs(B).dot(np.abs(g2p(ybound)) * e1) + R.eval_roundoff(np.abs(B).dot(np.abs(g2(ybound))), r)
        everr = e2[:, None] * S
        cache = {}

        def quot(h):
            if h not in cache:
                if case['method'] == 'fd':
                    cache[h] = R.fd_jac(F, x0, h, case['form'] or 'forward') * S
                else:
                    cache[h] = R.cs_jac(F, x0, h) * S
            return cache[h]
        acc.count('obs:totals-block')
        Jkey = 'J_fwd' if case['mode'] == 'fwd' else 'J_rev'
        which = 'forward' if case['mode'] == 'fwd' else 'reverse'
        rep = Reporter(acc, case)
        bad = judge_block(acc, case, 'totals', entry, Jkey, Wtot * S, quot, np.ones((q, n), bool), everr,
                          case['abs_err_tol'], case['rel_err_tol'], which, rep, scale_note=note)
        if stream is not None:
            acc.count('obs:text-report')
        if not bad:
            acc.ok(fingerprint(structure(case)), nontrivial=bool(case['err']),
                   sample=case if case['idx'] % 211 == 0 else None)
    finally:
        try:
            p.cleanup()
        except Exception:
            pass


def run_one(case, acc):
    if case['kind'] == 'totals':
        run_totals(case, acc)
    else:
        run_partials(case, acc)


# ----------------------------------------------------------------------------------------------
def shards(tier, seed):
    n = 16 if tier == 'quick' else 48
    per = 60 if tier == 'quick' else 110
    return [{'seed': seed * 10007 + k, 'n': per} for k in range(n)]


def run_shard(shard, acc):
    rng = random.Random(shard['seed'])
    for i in range(shard['n']):
        if i % 4 == 3:
            case = gen_totals_case(rng, i)
        else:
            case = gen_partials_case(rng, i, force_style=STYLES[(i + shard['seed']) % len(STYLES)])
        case['seed'] = shard['seed']
        try:
            run_one(case, acc)
        except Exception as e:
            import traceback
            acc.viol('harness-error:%s' % type(e).__name__, traceback.format_exc()[-600:], case)


def run_case(case, acc):
    run_one(case, acc)


def coverage_extra(tier, agg):
    return {'exhaustive': False,
            'exhaustive_subspace': 'none (random exploration); every declaration style, every under-declared '
                                   'style, both methods and both total modes are required cells'}
