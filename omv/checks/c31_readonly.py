"""C31 - Evaluations are deterministic and derivative queries are read-only.

Monitor: snapshots around API calls + twin histories.

For every generated case a G-model (omv/gen/models.py: Newton / Broyden / NLBGS(+Aitken) / NLBJ stacks, approximated and
matrix-free partials, output scaling, units, index chains; plus three small components carrying DISCRETE variables,
omv/gen/c31_kit.py) is built TWICE in the same process (instances A and B), given the same initial values and run once.
Then a random history of 5-15 API calls (+ closing probes) is executed:

 (1) determinism   - `rerun` steps: record (inputs, outputs, discrete) -> run_model -> O1 -> put the recorded state
                     back -> run_model -> O2; O1 and O2 must be BITWISE equal (solver-internal memory such as
                     Broyden's inverse jacobian or Aitken's factor is hidden state that must not leak); the first
                     run_model of A and of B (same program, same process) must be bitwise equal as well.
 (2) read-only     - around EVERY query call (compute_totals analytic/approx, driver._compute_totals,
                     compute_jacvec_product, check_partials, check_totals, get_total_coloring / compute_total_coloring,
                     list_inputs/list_outputs/list_vars with random flags, get_val, driver value getters,
                     list_driver_vars, list_indep_vars) the flat nonlinear input vector, output vector and all discrete
                     values are snapshotted; they must be BITWISE unchanged (residual vectors are not examined).  Many
                     query calls are made on a STALE model (set_val without run_model), which is legal.
 (3) hidden state  - instance B executes the same history WITHOUT the query calls that are not marked `keep`; the
                     results of all kept steps (vectors after run_model, totals, jvp, check data, values) must be
                     bitwise equal between A and B; a run_model / set_val that raises in one history only is a
                     violation too.  When a total coloring is in play (declared on the driver or installed by
                     get_total_coloring) total-derivative results are compared with the G tolerance instead (a colored
                     solve is a different floating-point program), everything else stays bitwise.

Mechanism keys.  A change is first reported under the generic key `<api>:<vector>-changed[:stale-model]`,
`run_model-twice:<vector>-differ:nl=<solvers>`, `hidden-state:<culprit api>:<later result>`.  The culprit of a
hidden-state discrepancy is found by re-running the history with single query calls.  DIAGNOSED mechanisms get their
own key `<mechanism>:...` - the diagnosis is made by intervention (the named piece of internal state is put back right
after the suspected call and the discrepancy must disappear) or by a narrow numerical signature:
   scaling-roundtrip, stale-explicit-apply-roundoff, perturbed-evaluation-leaves-discrete-outputs   (vector changes)
   leftover-linear-vectors, leftover-residual-vector, leftover-relevance-state, broyden-jacobian-carried-over,
   approx-options-overwritten, approximations-pruned-by-relevance                                     (hidden state)
Anything that does not fit a diagnosed mechanism keeps its generic key, so a new defect is never hidden by a listed one.
A later discrepancy that follows from a vector change already reported in the same history is not reported twice.
Exceptions escaping a query call say nothing about read-only-ness: the case is discarded under
`query-call-raises:<where>` (visible in the evidence).
"""
import contextlib
import copy
import io
import os
import random

import numpy as np

from omv.core import fingerprint
from omv.kit.gmon import FailureMonitor, exc_key, tree_solvers

PROPERTY = 'C31'
LEVEL = 'exploration'
TECHNIQUE = ('runtime monitoring: bitwise snapshots of the nonlinear input/output vectors and discrete variables around '
             'every query call; repeated run_model from a restored state; twin problem instance running the same '
             'history without the query calls')
RULE = ('random G-model specs (feed-forward and contractive feedback loops; Newton/Broyden/NLBGS+-Aitken/NLBJ x '
        'direct/krylov/block linear solvers; approximated, sparse and matrix-free partials; output scaling; discrete '
        'variables) x configuration (fwd/rev/auto, force_alloc_complex, approx_totals fd/cs, driver coloring) x random '
        'histories of 5-15 calls drawn from {set_val, run_model, rerun, query calls with random arguments}; distinct = '
        '(solver tree, configuration, sequence of call kinds); non-trivial = the history contains at least one query '
        'call made on a model with a solver loop, an implicit component, approximated partials or stale inputs')
MIN_JUDGED = {'quick': 90, 'thorough': 1800}
_APIS = ['compute_totals', 'compute_totals-approx', 'compute_jacvec_product', 'check_partials-fd', 'check_partials-cs',
         'check_totals-fd', 'check_totals-cs', 'get_total_coloring', 'compute_total_coloring', 'list_inputs',
         'list_outputs', 'list_outputs-residuals', 'list_vars', 'get_val', 'driver-values', 'list_driver_vars',
         'list_indep_vars']
REQUIRED_COUNTERS = (['obs:' + a for a in _APIS] +
                     ['obs:rerun', 'obs:rebuild-compare', 'obs:hidden-probe:run_model', 'obs:hidden-probe:compute_totals',
                      'obs:stale-query', 'obs:discrete-snapshots', 'cell:nl=newton', 'cell:nl=broyden', 'cell:nl=nlbgs',
                      'cell:aitken', 'cell:coloring-declared', 'cell:approx-partials', 'cell:matfree',
                      'cell:approx_totals', 'cell:scaling', 'cell:mode=fwd', 'cell:mode=rev'])
ASSUMPTIONS = ['"same state" = same nonlinear input vector, output vector and discrete values (put back through the '
               'vector API); residual vectors, linear vectors and solver objects are NOT restored - a dependence on them '
               'is exactly the hidden state the property excludes',
               'query calls are only issued after the first run_model (check_partials/check_totals document that they '
               'run a never-run model) and never with run_model=True / setup=True arguments',
               'total derivatives are compared with tolerance (1e-8 direct, 1e-6 iterative linear solvers) instead of '
               'bitwise when a total coloring is declared or was installed by get_total_coloring, and not at all for '
               'approx_totals + coloring; the "resids" column of list_outputs is not compared',
               'argument combinations that make a query RAISE for reasons unrelated to the property are not generated '
               '(directional checks, force_dense=False, residuals_tol / list_indep_vars printing with string-valued '
               'discrete variables, is_indep_var on a subsystem, compute_jacvec_product under approx_totals); a query '
               'that raises anyway discards the case; a refusal of identical fd options is accepted as documented',
               'histories that compute colorings use direct linear solvers, and at most one iterative linear solver '
               'sits on any root-to-leaf path with maxiter capped at 60 (cost control only)',
               'no MPI; files written by coloring go to the worker temp cwd']
SHARD_TIMEOUT = {'quick': 1500, 'thorough': 7200}

OPTS = dict(p_index=0.5, p_units=0.5, p_chain2=0.3, p_param=0.4, p_matfree=0.15, p_sparse=0.5, p_cycle=0.6,
            p_implicit=0.35, p_approx=0.12, max_comps=5)

RO_KINDS = ['compute_totals', 'compute_totals', 'jacvec', 'check_partials', 'check_totals', 'coloring', 'list_inputs',
            'list_outputs', 'list_outputs', 'list_vars', 'get_val', 'get_val', 'driver_values', 'list_driver_vars',
            'list_indep_vars']
TOLERANT = ('compute_totals', 'check_totals', 'coloring')


def shards(tier, seed):
    n = 16 if tier == 'quick' else 64
    per = 8 if tier == 'quick' else 40
    per = int(os.environ.get('OMV_C31_PER', per))     # development aid: smoke-test a tier with fewer cases
    return [{'seed': seed * 100000 + i * 1000, 'n': per, 'tier': tier} for i in range(n)]


def run_shard(shard, acc):
    for k in range(shard['n']):
        run_case({'seed': shard['seed'] + k}, acc)


# ----------------------------------------------------------------------------------------------------------
# plan = everything a case does, derived from the seed only
# ----------------------------------------------------------------------------------------------------------
def _walk(node, fn):
    if 'comp' in node:
        return
    fn(node)
    for ch in node['children']:
        _walk(ch, fn)


def _boost_solvers(spec, rng):
    """more of the solvers that keep memory between solves (Broyden, NLBGS+Aitken, Newton)."""
    has_mf = any(c.get('matfree') for c in spec['comps'])

    def fn(node):
        if not node.get('cyclic') and node is not spec['tree']:
            return
        r = rng.random()
        if node.get('cyclic'):
            if r < 0.22:
                node['nl'] = {'type': 'broyden'}
                node['ln'] = {'type': 'direct', 'assemble_jac': (rng.random() < 0.6) and not has_mf,
                              'jac_type': rng.choice(['dense', 'csc'])}
            elif r < 0.40:
                node['nl'] = {'type': 'nlbgs', 'use_aitken': True, 'use_apply_nonlinear': rng.random() < 0.4}
                if node['ln'].get('type') == 'runonce':
                    node['ln'] = {'type': 'direct', 'assemble_jac': False}
            elif r < 0.5:
                node['nl'] = {'type': 'newton', 'solve_subsystems': rng.random() < 0.5,
                              'linesearch': rng.choice([None, 'bounds', 'armijo'])}
                if node['ln'].get('type') == 'runonce':
                    node['ln'] = {'type': 'direct', 'assemble_jac': False}
    _walk(spec['tree'], fn)


def _direct_linear(spec):
    """While a total coloring is computed the partials are replaced by random numbers: the loops are no longer
    contractions, nested iterative LINEAR solvers then run maxiter^depth sweeps.  Histories that compute colorings
    therefore use direct linear solvers only."""
    has_mf = any(c.get('matfree') for c in spec['comps'])

    def fn(node):
        if node.get('ln', {}).get('type') in ('lnbgs', 'lnbj', 'krylov', 'krylov+lnbgs'):
            node['ln'] = {'type': 'direct', 'assemble_jac': False}
    _walk(spec['tree'], fn)


def _denest_linear(spec):
    """An iterative linear solver that cannot reach its tolerance (round-off floor under output scaling) runs to
    maxiter; nested three deep that is maxiter^3 sweeps.  Keep at most ONE iterative linear solver on any root-to-leaf
    path; the groups below it get a DirectSolver."""
    def rec(node, above):
        if 'comp' in node:
            return
        it = node.get('ln', {}).get('type') in ('lnbgs', 'lnbj', 'krylov', 'krylov+lnbgs')
        if it and above:
            node['ln'] = {'type': 'direct', 'assemble_jac': False}
            it = False
        for ch in node['children']:
            rec(ch, above or it)
    rec(spec['tree'], False)


def _avoid_known_c08(spec):
    """array ref0 + scalar ref + src_indices subset makes final_setup raise (recorded C08 finding): give such
    outputs an array ref as well."""
    for c in spec['comps']:
        for oo in c['outputs']:
            if isinstance(oo.get('ref0'), list) and not isinstance(oo.get('ref'), list):
                r = float(oo.get('ref', 1.0))
                r0 = np.asarray(oo['ref0'], dtype=float)
                if np.any(np.abs(r - r0) < 1e-3):
                    oo.pop('ref0')
                else:
                    oo['ref'] = np.full(r0.shape, r).tolist()


def _var_tables(spec):
    from omv.gen import models as G
    outs, ins = [], []
    for c in spec['comps']:
        for oo in c['outputs']:
            outs.append({'name': oo['name'], 'shape': oo['shape'], 'units': oo.get('units'), 'kind': c['kind'],
                         'abs': G.abs_name(spec, oo['name']), 'top': G.top_name(spec, oo['name'])})
        for ii in c['inputs']:
            ins.append({'name': ii['name'], 'shape': ii['shape'], 'units': ii.get('units'),
                        'abs': G.abs_name(spec, ii['name'])})
    params = [{'name': p['name'], 'shape': p['shape'], 'units': p.get('units'), 'top': p['name'], 'kind': 'param'}
              for p in spec['params'] if any(cn['src'] == p['name'] for cn in spec['conns'])]
    return outs, ins, params


def _other_units(rng, u):
    from omv.ref.flatmodel import FAMILIES
    if u is None or rng.random() < 0.4:
        return None
    fam = [f for f in FAMILIES if u in f]
    return rng.choice(fam[0]) if fam else None


def _rand_val(rng, shape, lo=-2.0, hi=2.0):
    n = int(np.prod(shape)) if shape else 1
    return [round(rng.uniform(lo, hi), 3) for _ in range(n)]


def _rand_indices(rng, shape):
    n = shape[0] if shape else 1
    k = rng.random()
    if k < 0.4 or not shape:
        return None
    if k < 0.6:
        return rng.randrange(-n, n)
    if k < 0.8:
        return {'s': [None, None, rng.choice([1, 2, -1])]}
    return {'l': [rng.randrange(n) for _ in range(rng.randint(1, 3))]}


def _dec_idx(j):
    if isinstance(j, dict):
        if 's' in j:
            return slice(*j['s'])
        return list(j['l'])
    return j


def _flags(rng, names, p=0.5):
    return {n: rng.random() < p for n in names}


def _gen_op(rng, kind, spec, cfg, tabs):
    """random arguments for one query call (JSON-able)."""
    outs, ins, params = tabs
    of, wrt = cfg['of_names'], cfg['wrt_names']
    op = {'op': kind}
    out = 'sio' if rng.random() < 0.35 else None
    if kind == 'compute_totals':
        op['driver'] = rng.random() < 0.5           # of/wrt = None -> the driver's
        op['return_format'] = rng.choice(['array', 'dict', 'flat_dict'])
        op['driver_scaling'] = rng.random() < 0.4
        if not op['driver']:
            op['of'] = rng.sample(of, rng.randint(1, len(of)))
            op['wrt'] = rng.sample(wrt, rng.randint(1, len(wrt)))
        if rng.random() < 0.2:
            # the driver's own (caching) entry point, always called the way a driver calls it
            op['via'] = 'driver._compute_totals'
            op['driver'] = True
            op['return_format'] = 'array'
            op['driver_scaling'] = True
    elif kind == 'jacvec':
        op['vseed'] = rng.randrange(10 ** 6)
        op['as_dict'] = rng.random() < 0.5
    elif kind == 'check_partials':
        op['method'] = rng.choice(['fd', 'fd', 'cs'])
        op['compact_print'] = rng.random() < 0.5
        op['out'] = out
        if op['method'] == 'fd':
            op['form'] = rng.choice(['forward', 'central', 'backward'])
            op['step'] = rng.choice([None, 1e-6, 1e-5, [1e-5, 1e-6]])
            op['step_calc'] = rng.choice(['abs', 'abs', 'rel_avg', 'rel_element'])
        else:
            op['step'] = rng.choice([None, 1e-30])
        op['show_only_incorrect'] = rng.random() < 0.2
        op['force_dense'] = True    # (False + sparse partials: AttributeError in get_tol_violation - not C31)
        if rng.random() < 0.3:
            op['includes'] = ['*' + rng.choice([c['name'] for c in spec['comps'] if c['kind'] != 'ivc'])]
    elif kind == 'check_totals':
        op['method'] = 'cs' if (cfg['fac'] and rng.random() < 0.4) else 'fd'
        op['compact_print'] = rng.random() < 0.5
        op['out'] = out
        op['driver'] = rng.random() < 0.5
        op['driver_scaling'] = rng.random() < 0.3
        # (directional=True with indexed design variables / approx_totals raises inside the check - not C31)
        op['directional'] = False
        if op['method'] == 'fd':
            op['form'] = rng.choice([None, 'forward', 'central'])
            op['step'] = rng.choice([None, 1e-6, [1e-5, 1e-6]])
        if not op['driver']:
            op['of'] = rng.sample(of, rng.randint(1, len(of)))
            op['wrt'] = rng.sample(wrt, rng.randint(1, len(wrt)))
    elif kind == 'coloring':
        op['fn'] = rng.choice(['get_total_coloring', 'compute_total_coloring'])
        op['explicit'] = rng.random() < 0.3
        op['num_full_jacs'] = rng.choice([1, 2, 3])
    elif kind in ('list_inputs', 'list_outputs', 'list_vars'):
        op['out'] = out
        names = ['val', 'prom_name', 'units', 'shape', 'desc', 'print_arrays', 'print_min', 'print_max', 'print_mean']
        if kind != 'list_vars':
            names.append('hierarchical')
        if kind != 'list_inputs':
            names += ['residuals', 'bounds', 'scaling', 'list_autoivcs']
        op['flags'] = _flags(rng, names)
        if kind == 'list_outputs':
            op['flags']['explicit'] = rng.random() < 0.85
            op['flags']['implicit'] = rng.random() < 0.85 or not op['flags']['explicit']
        # (residuals_tol with a string-valued discrete output raises ValueError - not a C31 matter)
        if kind != 'list_inputs' and rng.random() < 0.3 and not cfg['discrete']:
            op['flags']['residuals_tol'] = rng.choice([1e-12, 1e-3, 10.0])
        op['return_format'] = rng.choice(['list', 'dict'])
        paths = [''] + sorted(set(v['abs'].rsplit('.', 1)[0] for v in outs if v['kind'] != 'ivc'))
        groups = sorted(set(p.rsplit('.', 1)[0] for p in paths if '.' in p))
        op['system'] = rng.choice(paths + groups) if rng.random() < 0.4 else ''
        # (is_indep_var / is_design_var on a subsystem whose sources live outside it raise KeyError - not C31)
        for nm in ('is_indep_var', 'is_design_var'):
            if rng.random() < 0.2 and op['system'] == '':
                op['flags'][nm] = rng.random() < 0.5
    elif kind == 'get_val':
        pool = [('out', v) for v in outs] + [('in', v) for v in ins] + [('out', v) for v in params]
        io_, v = rng.choice(pool)
        if io_ == 'in':
            op['name'] = v['abs']
        else:
            op['name'] = v['top'] if (rng.random() < 0.6 or 'abs' not in v) else v['abs']
        op['units'] = _other_units(rng, v['units'])
        op['indices'] = _rand_indices(rng, v['shape'])
        op['api'] = rng.choice(['prob.get_val', 'prob.get_val', 'prob[]', 'model.get_val'])
        op['from_src'] = rng.random() < 0.7
        op['copy'] = rng.random() < 0.5
    elif kind == 'driver_values':
        op['driver_scaling'] = rng.random() < 0.5
        op['ctype'] = rng.choice(['all', 'eq', 'ineq'])
    elif kind == 'list_driver_vars':
        op['out'] = out
        op['print_arrays'] = rng.random() < 0.5
        op['driver_scaling'] = rng.random() < 0.5
        op['show_promoted_name'] = rng.random() < 0.5
        op['return_format'] = rng.choice(['list', 'dict'])
    elif kind == 'list_indep_vars':
        # (with discrete independent variables the table writer raises KeyError('units'): not a C31 matter)
        op['out'] = None if cfg['discrete'] else out
        op['include_design_vars'] = rng.random() < 0.5
        op['print_arrays'] = rng.random() < 0.5
    return op


def _rand_scale(rng, n, scalar=False):
    k = rng.random()
    if k < 0.4:
        return {}
    if k < 0.75 or scalar or n == 1:
        if rng.random() < 0.5:
            return {'scaler': round(10 ** rng.uniform(-2, 2), 3) * rng.choice([1, 1, -1]),
                    'adder': round(rng.uniform(-2, 2), 2)}
        ref0 = round(rng.uniform(-2, 2), 2)
        return {'ref': ref0 + round(10 ** rng.uniform(-1, 1.5), 3) * rng.choice([1, 1, -1]), 'ref0': ref0}
    return {'scaler': [round(10 ** rng.uniform(-2, 2), 3) for _ in range(n)]}


def make_plan(seed):
    from omv.gen import models as G
    rng = random.Random(seed)
    opts = dict(OPTS)
    opts['p_scaling'] = 0.4 if rng.random() < 0.4 else 0.0
    if rng.random() < 0.5:
        opts['p_approx'] = 0.0
    spec = G.gen_spec(rng, opts)
    _boost_solvers(spec, rng)
    _avoid_known_c08(spec)
    colorable = rng.random() < 0.5
    if colorable:
        _direct_linear(spec)
    _denest_linear(spec)
    tabs = _var_tables(spec)
    outs, ins, params = tabs
    sizes = {v['name']: int(np.prod(v['shape'])) for v in outs + params}
    nls = sorted(set(nl for nl, _ in tree_solvers(spec)))
    lns = sorted(set(ln for _, ln in tree_solvers(spec)))
    cfg = {'mode': rng.choice(['fwd', 'rev', 'fwd', 'rev', 'auto']),
           'fac': rng.random() < 0.5,
           'colorable': colorable,
           'coloring': colorable and rng.random() < 0.6,
           'discrete': rng.random() < 0.6 and spec['tree']['nl']['type'] not in ('newton', 'broyden'),
           'approx_totals': None}
    # root approx_totals (model-level fd/cs); full-model Broyden/Newton at the root would then approximate the
    # root jacobian inside every nonlinear iteration, which is legal but slow - keep it to run-once/GS roots
    if rng.random() < 0.18 and spec['tree']['nl']['type'] in ('runonce', 'nlbgs', 'nlbj'):
        m = rng.choice(['fd', 'fd', 'cs']) if cfg['fac'] else 'fd'
        cfg['approx_totals'] = {'method': m}
        if m == 'fd' and rng.random() < 0.5:
            cfg['approx_totals'].update(step=rng.choice([1e-6, 1e-5]), form=rng.choice(['forward', 'central']))
    # declared design variables / responses
    dvs, resps = [], []
    for w in spec['wrt']:
        n = sizes[w]
        idx = None
        if n > 1 and rng.random() < 0.4:
            idx = sorted(rng.sample(range(n), rng.randint(1, n - 1)))
        dvs.append({'name': w, 'idx': idx, 'kw': _rand_scale(rng, n if idx is None else len(idx))})
    for k, o in enumerate(spec['of']):
        n = sizes[o]
        if k == 0:
            resps.append({'name': o, 'obj': True, 'idx': [rng.randrange(n)], 'kw': _rand_scale(rng, 1, scalar=True)})
        else:
            idx = None
            if n > 1 and rng.random() < 0.4:
                idx = sorted(rng.sample(range(n), rng.randint(1, n - 1)))
            resps.append({'name': o, 'obj': False, 'idx': idx, 'kw': _rand_scale(rng, n if idx is None else len(idx)),
                          'eq': rng.random() < 0.3})
    cfg['dvs'], cfg['resps'] = dvs, resps
    cfg['of_names'] = [G.top_name(spec, o) for o in spec['of']]
    cfg['wrt_names'] = [G.top_name(spec, w) for w in spec['wrt']]
    if cfg['discrete']:
        st = rng.choice([v for v in outs if v['kind'] != 'ivc'])
        cfg['discrete_src'] = {'top': st['top'], 'n': min(3, int(np.prod(st['shape'])))}
    # initial values
    init = []
    settable = [v for v in outs if v['kind'] == 'ivc'] + params
    for v in settable:
        if rng.random() < 0.7:
            init.append({'op': 'set_val', 'name': v['top'], 'val': _rand_val(rng, v['shape']), 'shape': v['shape']})
    # history
    nops = rng.randint(5, 15)
    hist = []
    guesses = [v for v in outs if v['kind'] != 'ivc']
    for _ in range(nops):
        r = rng.random()
        if r < 0.16:
            v = rng.choice(settable)
            op = {'op': 'set_val', 'name': v['top'], 'val': _rand_val(rng, v['shape']), 'shape': v['shape'],
                  'keep': True}
            if rng.random() < 0.3:
                op['units'] = _other_units(rng, v['units'])
            hist.append(op)
        elif r < 0.20:
            v = rng.choice(guesses)       # a new initial guess for a state
            hist.append({'op': 'set_val', 'name': v['abs'], 'val': _rand_val(rng, v['shape'], -0.5, 0.5),
                         'shape': v['shape'], 'keep': True})
        elif r < 0.23 and cfg['discrete']:
            hist.append({'op': 'set_discrete', 'k': rng.randrange(1, 6), 'tag': rng.choice('abc'), 'keep': True})
        elif r < 0.33:
            hist.append({'op': 'run_model', 'keep': True})
        elif r < 0.41:
            hist.append({'op': 'rerun', 'keep': True})
        else:
            kind = rng.choice(RO_KINDS)
            if kind == 'coloring' and not cfg['colorable']:
                kind = 'compute_totals'
            if kind == 'jacvec' and cfg['approx_totals']:
                kind = 'compute_totals'      # no linear solve exists for an approximated root jacobian
            op = _gen_op(rng, kind, spec, cfg, tabs)
            op['keep'] = rng.random() < 0.25
            hist.append(op)
    # closing probes: new point -> run -> totals (kept in both histories)
    v = rng.choice(settable)
    hist.append({'op': 'set_val', 'name': v['top'], 'val': _rand_val(rng, v['shape']), 'shape': v['shape'],
                 'keep': True})
    hist.append({'op': 'run_model', 'keep': True})
    op = _gen_op(rng, 'compute_totals', spec, cfg, tabs)
    op['keep'] = True
    hist.append(op)
    if cfg['approx_totals'] is None:
        op = _gen_op(rng, 'jacvec', spec, cfg, tabs)
        op['keep'] = True
        hist.append(op)
    return {'seed': seed, 'spec': spec, 'cfg': cfg, 'init': init, 'hist': hist, 'nls': nls, 'lns': lns}


# ----------------------------------------------------------------------------------------------------------
# comparison helpers (bitwise)
# ----------------------------------------------------------------------------------------------------------
def _canon(o):
    """nested structure -> hashable/bitwise comparable structure."""
    import scipy.sparse as sp
    if isinstance(o, np.ndarray):
        if o.dtype == object:
            return ('objarr', tuple(_canon(x) for x in o.ravel().tolist()))
        return ('nd', str(o.dtype), o.shape, np.ascontiguousarray(o).tobytes())
    if sp.issparse(o):
        return _canon(np.asarray(o.todense()))
    if isinstance(o, dict):
        return ('dict', tuple(sorted(((repr(k), _canon(v)) for k, v in o.items()), key=lambda t: t[0])))
    if isinstance(o, (list, tuple)):
        return ('seq', tuple(_canon(x) for x in o))
    if isinstance(o, (float, np.floating)):
        return ('f', np.float64(o).tobytes())
    if isinstance(o, (int, str, bool, np.integer, np.bool_)) or o is None:
        return ('v', repr(o))
    if isinstance(o, complex):
        return ('c', np.complex128(o).tobytes())
    return ('r', type(o).__name__)


def _numeric_leaves(o, path=''):
    if isinstance(o, np.ndarray) and o.dtype != object:
        yield path, np.asarray(o, dtype=float) if o.dtype.kind != 'c' else o
    elif isinstance(o, dict):
        for k in sorted(o, key=repr):
            yield from _numeric_leaves(o[k], path + '/' + repr(k))
    elif isinstance(o, (list, tuple)):
        for i, x in enumerate(o):
            yield from _numeric_leaves(x, path + '/%d' % i)
    elif isinstance(o, (float, np.floating)):
        yield path, np.array([float(o)])


def _close(a, b, tol):
    la, lb = list(_numeric_leaves(a)), list(_numeric_leaves(b))
    if [p for p, _ in la] != [p for p, _ in lb]:
        return False, 'structure differs'
    worst = 0.0
    for (p, x), (_, y) in zip(la, lb):
        if x.shape != y.shape:
            return False, 'shape differs at %s' % p
        if x.size == 0:
            continue
        if not (np.all(np.isfinite(x)) and np.all(np.isfinite(y))):
            if _canon(x) != _canon(y):
                return False, 'non-finite differs at %s' % p
            continue
        e = float(np.max(np.abs(x - y)) / max(1.0, float(np.max(np.abs(y)))))
        worst = max(worst, e)
    return worst <= tol, 'rel diff %.3e' % worst


def _maxdiff(a, b):
    """largest |a-b| relative to max(1,|b|) over numeric leaves (diagnostic text only)."""
    try:
        return _close(a, b, 0.0)[1]
    except Exception:
        return '?'


EPS = 2.220446049250313e-16


def _classify_change(model, which, a, b, stale):
    """Mechanism tag for a bitwise change of a nonlinear vector across a query call ('' = not identified).
    Only used to give DIAGNOSED round-off mechanisms their own key; anything that does not fit the narrow
    description keeps the generic key.

    scaling-roundtrip : every changed entry belongs to a variable with solver scaling (ref/ref0) and moved by no more
        than the round-off of the map phys -> (y-ref0)/(ref-ref0) -> phys, which every API entry point applies to
        the whole vector (System._scaled_context_all).
    perturbed-evaluation-leaves-discrete-outputs (assigned by the caller) : a finite-difference based call leaves the
        discrete outputs that `compute` wrote at the last perturbed point.
    stale-explicit-apply-roundoff : the outputs hold a user-set value that is not the component's own result
        (set_val without run_model) and moved by round-off only: ExplicitComponent._apply_nonlinear restores the
        outputs as y_new - (y_new - y_old).
    """
    if which not in ('inputs', 'outputs') or a is None or a.shape != b.shape:
        return ''
    idx = np.nonzero(a != b)[0]
    if idx.size == 0 or not (np.all(np.isfinite(a[idx])) and np.all(np.isfinite(b[idx]))):
        return ''
    d = np.abs(a[idx] - b[idx])
    vec = model._outputs if which == 'outputs' else model._inputs
    sc = vec._scaling
    if sc is not None:
        scaler, adder = sc
        adder = np.zeros(a.size) if adder is None else np.asarray(adder, dtype=float)
        scaler = np.broadcast_to(np.asarray(scaler, dtype=float), a.shape)
        scaled = (scaler[idx] != 1.0) | (adder[idx] != 0.0)
        small = d <= 32 * EPS * (np.abs(a[idx]) + np.abs(b[idx]) + np.abs(adder[idx]))
        if np.all(scaled & small):
            return 'scaling-roundtrip'
    if stale and which == 'outputs':
        if np.all(d <= 64 * EPS * max(1.0, float(np.max(np.abs(a))), float(np.max(np.abs(b))))):
            return 'stale-explicit-apply-roundoff'
    return ''


def _zero_linear(model):
    model._doutputs.set_val(0.0)
    model._dresiduals.set_val(0.0)
    model._dinputs.set_val(0.0)


_BROYDEN_ATTRS = ('Gm', 'xm', 'fxm', 'delta_xm', 'delta_fxm', '_recompute_jacobian', '_converge_failures',
                  '_computed_jacobians')


def _broydens(model):
    from openmdao.solvers.nonlinear.broyden import BroydenSolver
    return [s._nonlinear_solver for s in model.system_iter(include_self=True, recurse=True)
            if isinstance(getattr(s, '_nonlinear_solver', None), BroydenSolver)]


def _save_broyden(model):
    return [{a: copy.deepcopy(getattr(b, a, None)) for a in _BROYDEN_ATTRS} for b in _broydens(model)]


def _restore_broyden(model, saved):
    for b, d in zip(_broydens(model), saved):
        for a, v in d.items():
            setattr(b, a, copy.deepcopy(v))


def _fresh_broyden(model):
    for b in _broydens(model):
        b._recompute_jacobian = True


def _save_linear(model):
    return [v.asarray(copy=True) for v in (model._doutputs, model._dresiduals, model._dinputs)]


def _restore_linear(model, saved):
    for v, a in zip((model._doutputs, model._dresiduals, model._dinputs), saved):
        v.set_val(a)


class Snap:
    def __init__(self, model):
        from omv.gen.c31_kit import discrete_snapshot
        self.inputs = model._inputs.asarray(copy=True)
        self.outputs = model._outputs.asarray(copy=True)
        self.discrete = discrete_snapshot(model)

    def diff(self, other):
        """-> list of (which, text)"""
        out = []
        for which in ('inputs', 'outputs'):
            a, b = getattr(self, which), getattr(other, which)
            if a.shape != b.shape or a.tobytes() != b.tobytes():
                if a.shape == b.shape:
                    d = np.abs(a - b)
                    k = int(np.nanargmax(d)) if d.size else 0
                    rel = float(np.nanmax(d / np.maximum(np.abs(a), 1e-300))) if d.size else 0.0
                    txt = 'max |delta| %.3e (rel %.2e) at flat index %d: %r -> %r; %d entries differ' % (
                        float(np.nanmax(d)), rel, k, float(a[k]), float(b[k]), int(np.sum(a != b)))
                else:
                    txt = 'size changed %s -> %s' % (a.shape, b.shape)
                out.append((which, txt))
        da, db = self.discrete, other.discrete
        ch = sorted(k for k in set(da) | set(db) if repr(da.get(k)) != repr(db.get(k)))
        ins = [k for k in ch if k.startswith('inputs:')]
        outs = [k for k in ch if k.startswith('outputs:')]
        if ins:
            out.append(('discrete-inputs', '%s: %r -> %r' % (ins[0], da.get(ins[0]), db.get(ins[0]))))
        if outs:
            out.append(('discrete-outputs', '%s: %r -> %r' % (outs[0], da.get(outs[0]), db.get(outs[0]))))
        return out

    def as_result(self):
        return {'inputs': self.inputs, 'outputs': self.outputs, 'discrete': dict(self.discrete)}


# ----------------------------------------------------------------------------------------------------------
# running one history on a fresh problem instance
# ----------------------------------------------------------------------------------------------------------
def _build(plan):
    from omv.gen import models as G
    spec, cfg = plan['spec'], plan['cfg']
    sp = copy.deepcopy(spec)
    prob = G.build(sp)
    model = prob.model
    if cfg['discrete']:
        from omv.gen.c31_kit import attach_discrete
        attach_discrete(prob, cfg['discrete_src']['top'], cfg['discrete_src']['n'])
    for dv in cfg['dvs']:
        kw = {k: (np.array(v) if isinstance(v, list) else v) for k, v in dv['kw'].items()}
        if dv['idx'] is not None:
            kw.update(indices=dv['idx'], flat_indices=True)
        model.add_design_var(G.top_name(spec, dv['name']), **kw)
    for r in cfg['resps']:
        kw = {k: (np.array(v) if isinstance(v, list) else v) for k, v in r['kw'].items()}
        if r['obj']:
            model.add_objective(G.top_name(spec, r['name']), index=r['idx'][0], flat_indices=True, **kw)
        else:
            if r['idx'] is not None:
                kw.update(indices=r['idx'], flat_indices=True)
            if r.get('eq'):
                model.add_constraint(G.top_name(spec, r['name']), equals=0.25, **kw)
            else:
                model.add_constraint(G.top_name(spec, r['name']), upper=1e3, **kw)
    if cfg['coloring']:
        prob.driver.declare_coloring(show_summary=False, show_sparsity=False)
    if cfg['approx_totals']:
        model.approx_totals(**cfg['approx_totals'])
    prob.setup(mode=cfg['mode'], force_alloc_complex=cfg['fac'])
    # bound the cost of iterative solvers that sit on their round-off floor
    for s in model.system_iter(include_self=True, recurse=True):
        ln = getattr(s, '_linear_solver', None)
        if ln is not None and 'maxiter' in ln.options:
            ln.options['maxiter'] = min(ln.options['maxiter'], 60)
    return prob


def _label(op, cfg):
    k = op['op']
    if k == 'compute_totals':
        return 'compute_totals-approx' if cfg['approx_totals'] else 'compute_totals'
    if k == 'jacvec':
        return 'compute_jacvec_product'
    if k in ('check_partials', 'check_totals'):
        return '%s-%s' % (k, op['method'])
    if k == 'coloring':
        return op['fn']
    if k in ('list_outputs', 'list_vars') and op['flags'].get('residuals'):
        return 'list_outputs-residuals' if k == 'list_outputs' else 'list_vars'
    if k == 'driver_values':
        return 'driver-values'
    return k


def _check_data(d):
    """keep only the numeric derivative arrays of check_partials / check_totals return values."""
    out = {}
    for k, v in d.items():
        if isinstance(v, dict):
            if any(isinstance(x, dict) for x in v.values()):
                out[repr(k)] = _check_data(v)
            else:
                out[repr(k)] = {kk: vv for kk, vv in v.items() if kk in ('J_fwd', 'J_rev', 'J_fd', 'steps')}
    return out


def _query(prob, op, plan):
    """execute one query call, return a comparable result."""
    import openmdao.api as om
    cfg = plan['cfg']
    k = op['op']
    stream = io.StringIO() if op.get('out') == 'sio' else None
    if k == 'compute_totals':
        kw = dict(return_format=op['return_format'], driver_scaling=op['driver_scaling'])
        if op.get('via'):
            return prob.driver._compute_totals(**kw)
        if op['driver']:
            return copy.deepcopy(prob.compute_totals(**kw))
        return copy.deepcopy(prob.compute_totals(of=op['of'], wrt=op['wrt'], **kw))
    if k == 'jacvec':
        of, wrt = cfg['of_names'], cfg['wrt_names']
        mode = prob._mode
        nr = np.random.default_rng(op['vseed'])
        names = wrt if mode == 'fwd' else of
        seeds = [nr.uniform(-1, 1, np.shape(prob.get_val(n))) for n in names]
        seed = dict(zip(names, seeds)) if op['as_dict'] else seeds
        return prob.compute_jacvec_product(of, wrt, mode, seed, linearize=True)
    if k == 'check_partials':
        kw = dict(out_stream=stream, compact_print=op['compact_print'], method=op['method'], step=op['step'],
                  show_only_incorrect=op['show_only_incorrect'], force_dense=op['force_dense'])
        if op['method'] == 'fd':
            kw.update(form=op['form'], step_calc=op['step_calc'])
        if op.get('includes'):
            kw['includes'] = op['includes']
        return _check_data(prob.check_partials(**kw))
    if k == 'check_totals':
        kw = dict(out_stream=stream, compact_print=op['compact_print'], method=op['method'],
                  driver_scaling=op['driver_scaling'], directional=op['directional'])
        if op['method'] == 'fd':
            kw.update(form=op['form'], step=op['step'])
        if not op['driver']:
            kw.update(of=op['of'], wrt=op['wrt'])
        d = prob.check_totals(**kw)
        if op['directional']:
            return None          # random directions
        return _check_data({'': d})
    if k == 'coloring':
        from openmdao.utils import coloring as cmod
        if op['fn'] == 'get_total_coloring':
            c = prob.get_total_coloring()
        else:
            kw = dict(num_full_jacs=op['num_full_jacs'], run_model=False, setup=False)
            if op['explicit']:
                kw.update(of=cfg['of_names'], wrt=cfg['wrt_names'])
            c = cmod.compute_total_coloring(prob, **kw)
        if c is None:
            return None
        return {'shape': tuple(c._shape), 'nzrows': np.array(c._nzrows), 'nzcols': np.array(c._nzcols)}
    if k in ('list_inputs', 'list_outputs', 'list_vars'):
        s = prob.model._get_subsystem(op['system']) if op['system'] else prob.model
        if s is None:
            s = prob.model
        r = getattr(s, k)(out_stream=stream, return_format=op['return_format'], **op['flags'])
        if isinstance(r, dict):
            r = sorted(r.items())
        # ('resids' are the content of the residual vector, which the property does not cover)
        return [(n, {kk: vv for kk, vv in m.items() if kk in ('val', 'value', 'min', 'max', 'mean')})
                for n, m in r]
    if k == 'get_val':
        kw = {}
        if op.get('units'):
            kw['units'] = op['units']
        if op.get('indices') is not None:
            kw['indices'] = _dec_idx(op['indices'])
        if op['api'] == 'prob[]':
            return np.array(prob[op['name']])
        if op['api'] == 'model.get_val':
            return np.array(prob.model.get_val(op['name'], from_src=op['from_src'], copy=op['copy'], **kw))
        return np.array(prob.get_val(op['name'], copy=op['copy'], **kw))
    if k == 'driver_values':
        drv = prob.driver
        return {'dv': drv.get_design_var_values(driver_scaling=op['driver_scaling']),
                'obj': drv.get_objective_values(driver_scaling=op['driver_scaling']),
                'con': drv.get_constraint_values(ctype=op['ctype'], driver_scaling=op['driver_scaling'])}
    if k == 'list_driver_vars':
        r = prob.list_driver_vars(out_stream=stream, print_arrays=op['print_arrays'],
                                  driver_scaling=op['driver_scaling'], show_promoted_name=op['show_promoted_name'],
                                  return_format=op['return_format'])
        return _vals_only(r)
    if k == 'list_indep_vars':
        r = prob.list_indep_vars(out_stream=stream, include_design_vars=op['include_design_vars'],
                                 print_arrays=op['print_arrays'])
        return _vals_only(r)
    raise ValueError(k)


def _vals_only(r):
    """values out of list_driver_vars / list_indep_vars returns (metadata dicts hold non-comparable objects)."""
    out = []

    def rec(o, path):
        if isinstance(o, dict):
            for kk in sorted(o, key=repr):
                rec(o[kk], path + '/' + repr(kk))
        elif isinstance(o, (list, tuple)):
            for i, x in enumerate(o):
                rec(x, path + '/%d' % i)
        elif isinstance(o, np.ndarray) and o.dtype != object:
            if path.endswith("'val'") or path.endswith("'value'"):
                out.append((path, o))
    rec(r, '')
    return out


class HarnessError(Exception):
    pass


_APPROX_ATTRS = ('_jacobian', '_owns_approx_jac', '_owns_approx_of', '_owns_approx_wrt', '_owns_approx_jac_meta',
                 '_subjacs_info', '_approx_schemes')


def _save_approx(model):
    d = {}
    for a in _APPROX_ATTRS:
        v = getattr(model, a, None)
        d[a] = dict(v) if isinstance(v, dict) else v
    return d


def _restore_approx(model, saved):
    for a, v in saved.items():
        setattr(model, a, dict(v) if isinstance(v, dict) else v)


# interventions used to DIAGNOSE a hidden-state discrepancy: the named piece of internal state is put back right
# after the suspected query call; if the discrepancy disappears the mechanism is identified.
def _relevances(model):
    objs = list(model._problem_meta.get('relevance_cache', {}).values())
    cur = model._problem_meta.get('relevance')
    if cur is not None and all(cur is not o for o in objs):
        objs.append(cur)
    return objs


def _save_relevance(model):
    return [(r, dict(r._seed_vars), r._current_rel_varray, r._current_rel_sarray, r._active)
            for r in _relevances(model)]


def _restore_relevance(model, saved):
    for r, seeds, va, sa, act in saved:
        r._seed_vars = dict(seeds)
        r._current_rel_varray = va
        r._current_rel_sarray = sa
        r._active = act


_COMPJAC_ATTRS = ('_jacobian', '_jac_wrapper', '_approx_schemes', '_approx_subjac_keys', '_old_relevance')


def _save_compjac(model):
    from openmdao.core.component import Component
    return [(c, {a: getattr(c, a) for a in _COMPJAC_ATTRS if hasattr(c, a)})
            for c in model.system_iter(typ=Component, recurse=True)]


def _restore_compjac(model, saved):
    for c, d in saved:
        for a, v in d.items():
            setattr(c, a, v)


MECHS = [('leftover-linear-vectors', ('lin',)),
         ('leftover-residual-vector', ('lin', 'resid')),
         ('leftover-relevance-state', ('lin', 'relev')),
         ('approximations-pruned-by-relevance', ('lin', 'resid', 'compjac')),
         ('broyden-jacobian-carried-over', ('lin', 'broyden')),
         ('approx-options-overwritten', ('lin', 'approx'))]


class HistoryRun:
    """One problem instance executing (a subset of) the plan's history."""

    def __init__(self, plan):
        self.plan = plan
        self.results = {}       # op index -> result of a kept step
        self.ro_viol = []       # (key, what, op index)
        self.qexc = None        # (key, what, op index): a query call raised -> the case cannot be judged
        self.fatal = None       # (key, what, op index, where): setup / set_val / run_model raised
        self.counts = {}
        self.first = None
        self.changed_at = set()     # query steps that changed a vector
        self.prob = None

    def count(self, k):
        self.counts[k] = self.counts.get(k, 0) + 1

    def _set(self, prob, op):
        val = np.asarray(op['val'], dtype=float).reshape(op['shape']) if op['shape'] else float(op['val'][0])
        kw = {}
        if op.get('units'):
            kw['units'] = op['units']
        prob.set_val(op['name'], val, **kw)

    def run(self, include=None, keep_across=None):
        """include: indices of the history steps to execute (None = all);
        keep_across: {step index: tuple of 'lin' | 'resid' | 'broyden' | 'approx'} = internal state that is put back
        right after that query call (diagnosis only)."""
        keep_across = keep_across or {}
        step = -1
        try:
            with contextlib.redirect_stdout(io.StringIO()):
                self.prob = prob = _build(self.plan)
                for op in self.plan['init']:
                    self._set(prob, op)
                prob.run_model()
                self.first = Snap(prob.model).as_result()
                stale = False
                for step, op in enumerate(self.plan['hist']):
                    if include is not None and step not in include:
                        continue
                    stale = self._step(prob, step, op, stale, keep_across.get(step, ()))
                    if self.qexc:
                        break
        except HarnessError:
            raise
        except Exception as e:   # noqa   setup / set_val / run_model raised on a legal program
            if os.environ.get('OMV_DEBUG'):
                import traceback
                traceback.print_exc()
            from omv.kit.gmon import exc_where
            self.fatal = (exc_key('setup-or-run', e), '%s: %s' % (type(e).__name__, str(e)[:300].replace('\n', ' ')),
                          step, exc_where(e))
        finally:
            try:
                if self.prob is not None:
                    self.prob.cleanup()
            except Exception:
                pass
        return self

    def _step(self, prob, i, op, stale, interventions):
        from omv.gen.c31_kit import discrete_restore
        plan = self.plan
        cfg = plan['cfg']
        model = prob.model
        k = op['op']
        if k == 'set_val':
            self._set(prob, op)
            return True
        if k == 'set_discrete':
            prob.set_val('dsrc.k', op['k'])
            prob.set_val('dsrc.tag', op['tag'])
            return True
        if k == 'run_model':
            prob.run_model()
            self.results[i] = Snap(model).as_result()
            return False
        if k == 'rerun':
            s0 = Snap(model)

            def again(zero, fresh=False):
                model._inputs.set_val(s0.inputs)
                model._outputs.set_val(s0.outputs)
                discrete_restore(model, s0.discrete)
                if Snap(model).diff(s0):
                    raise HarnessError('state could not be restored')
                if zero:
                    _zero_linear(model)
                if fresh:
                    _fresh_broyden(model)
                prob.run_model()
                return Snap(model)
            prob.run_model()
            o1 = Snap(model)
            o2 = again(False)
            self.count('obs:rerun')
            df = o1.diff(o2)
            if df:
                # diagnosis by intervention: does the difference vanish when the LINEAR vectors (left over from the
                # previous solve; initial guess of iterative linear solvers) are zeroed before both runs?  ... or when
                # every BroydenSolver is additionally told to start from a fresh jacobian?
                mech = None
                if not again(True).diff(again(True)):
                    mech = 'leftover-linear-vectors'
                elif _broydens(model) and not again(True, True).diff(again(True, True)):
                    mech = 'broyden-jacobian-carried-over'
                nls = '+'.join(n for n in plan['nls'] if n != 'runonce') or 'runonce'
                for which, txt in df:
                    if mech:
                        key = '%s:run_model-twice:%s-differ' % (mech, which)
                    else:
                        key = 'run_model-twice:%s-differ:nl=%s' % (which, nls)
                    self.ro_viol.append((key, 'second run_model from the restored state: ' + txt, i))
            self.results[i] = Snap(model).as_result()
            return False
        # ---- query call -------------------------------------------------------------------------------
        lab = _label(op, cfg)
        before = Snap(model)
        saved = {}
        if 'lin' in interventions:
            saved['lin'] = _save_linear(model)
        if 'broyden' in interventions:
            saved['broyden'] = _save_broyden(model)
        if 'approx' in interventions:
            saved['approx'] = _save_approx(model)
        if 'resid' in interventions:
            saved['resid'] = model._residuals.asarray(copy=True)
        if 'relev' in interventions:
            saved['relev'] = _save_relevance(model)
        if 'compjac' in interventions:
            saved['compjac'] = _save_compjac(model)
        try:
            res = _query(prob, op, plan)
            self.count('obs:' + lab)
        except Exception as e:  # noqa
            from openmdao.utils.om_warnings import OMInvalidCheckDerivativesOptionsWarning
            if isinstance(e, OMInvalidCheckDerivativesOptionsWarning):
                # documented refusal: check options identical to the approximation's own options
                self.count('obs:check-refused-same-options')
                res = None
            else:
                if os.environ.get('OMV_DEBUG'):
                    import traceback
                    traceback.print_exc()
                self.qexc = (exc_key(lab, e), '%s: %s' % (type(e).__name__, str(e)[:300].replace('\n', ' ')), i)
                return stale
        after = Snap(model)
        if stale:
            self.count('obs:stale-query')
        if before.discrete:
            self.count('obs:discrete-snapshots')
        for which, txt in before.diff(after):
            mech = _classify_change(model, which, getattr(before, which, None), getattr(after, which, None), stale)
            if which == 'discrete-outputs' and (lab.startswith(('check_partials', 'check_totals')) or (
                    cfg['approx_totals'] and lab in ('compute_totals-approx', 'get_total_coloring',
                                                      'compute_total_coloring'))):
                # these calls evaluate components at perturbed points; the discrete outputs written there stay
                mech = 'perturbed-evaluation-leaves-discrete-outputs'
            if mech:
                key = '%s:%s-changed:%s' % (mech, which, lab)
            else:
                key = '%s:%s-changed%s' % (lab, which, ':stale-model' if stale else '')
            self.ro_viol.append((key, '%s changed across %s: %s' % (which, lab, txt), i))
            self.changed_at.add(i)
        if 'lin' in saved:
            _restore_linear(model, saved['lin'])
        if 'broyden' in saved:
            _restore_broyden(model, saved['broyden'])
        if 'approx' in saved:
            _restore_approx(model, saved['approx'])
        if 'resid' in saved:
            model._residuals.set_val(saved['resid'])
        if 'relev' in saved:
            _restore_relevance(model, saved['relev'])
        if 'compjac' in saved:
            _restore_compjac(model, saved['compjac'])
        if op.get('keep'):
            self.results[i] = copy.deepcopy(res)
        return stale


def _tol(plan):
    return 1e-6 if any(ln in ('krylov', 'lnbgs', 'lnbj', 'krylov+lnbgs') for ln in plan['lns']) else 1e-8


def _compare(plan, ra, rb, a_only_before):
    """compare kept results of two runs -> list of (index, kind-label, text)."""
    cfg = plan['cfg']
    bad = []
    for i in sorted(ra.results):
        if i not in rb.results:
            continue
        op = plan['hist'][i]
        a, b = ra.results[i], rb.results[i]
        if a is None or b is None:
            continue
        if _canon(a) == _canon(b):
            continue
        kind = op['op']
        tolerant = kind in TOLERANT and (cfg['coloring'] or a_only_before(i, 'get_total_coloring'))
        if tolerant:
            if cfg['approx_totals']:
                continue
            if kind == 'coloring':
                continue
            ok, txt = _close(a, b, _tol(plan))
            if ok:
                continue
            bad.append((i, _label(op, cfg), 'differs beyond tolerance (coloring in play): ' + txt))
        else:
            bad.append((i, 'run_model' if kind in ('run_model', 'rerun') else _label(op, cfg),
                        'bitwise different: ' + _maxdiff(a, b)))
    return bad


def _cells(plan, acc, mode):
    cfg = plan['cfg']
    for nl in plan['nls']:
        acc.count('cell:nl=%s' % nl)
    f = []
    _walk(plan['spec']['tree'], lambda n: f.append(1) if n.get('nl', {}).get('use_aitken') else None)
    if f:
        acc.count('cell:aitken')
    if cfg['coloring']:
        acc.count('cell:coloring-declared')
    styles = set(s for c in plan['spec']['comps'] for s in c.get('styles', {}).values())
    if styles & {'fd', 'cs'}:
        acc.count('cell:approx-partials')
    if 'matfree' in styles:
        acc.count('cell:matfree')
    if cfg['approx_totals']:
        acc.count('cell:approx_totals')
    if plan['spec']['opts'].get('p_scaling'):
        acc.count('cell:scaling')
    if cfg['discrete']:
        acc.count('cell:discrete')
    acc.count('cell:mode=%s' % mode)
    return styles


def run_case(case, acc):
    seed = case['seed']
    plan = make_plan(seed)
    cfg, hist = plan['cfg'], plan['hist']
    keep = set(i for i, op in enumerate(hist) if op.get('keep'))
    a_only = [i for i, op in enumerate(hist) if not op.get('keep')]
    viols = []        # (key, what)
    with FailureMonitor() as fmon:
        ra = HistoryRun(plan).run()
        rb = HistoryRun(plan).run(include=keep)
        # ---- cases that cannot be judged ----------------------------------------------------------------
        if ra.qexc or rb.qexc:
            q = ra.qexc or rb.qexc
            # an exception escaping a query call is not a statement about read-only-ness; it is recorded here
            acc.skip('query-call-raises:' + q[0])
            return
        if ra.fatal and rb.fatal and ra.fatal[2] == rb.fatal[2]:
            acc.skip('setup-or-run-raises-in-both-histories:' + ra.fatal[0])
            return
        for k, n in ra.counts.items():
            acc.count(k, n)
        for r in (ra, rb):
            for key, what, i in r.ro_viol:
                viols.append((key, 'history step %d: %s' % (i, what)))
        if ra.fatal or rb.fatal:
            # set_val / run_model raises in one history only: caused by the query calls that history A made
            ft = ra.fatal or rb.fatal
            who = 'with' if ra.fatal else 'WITHOUT'
            if ft[3] == 'broyden.py:_update_inverse_jacobian':
                key = 'broyden-jacobian-carried-over:run_model-raises:' + ft[0].split(':raises:')[-1].split('@')[0]
            else:
                key = 'hidden-state:run_model-raises:' + ft[0].split(':raises:')[-1]
            viols.append((key, 'history step %d (%s) raises only in the history %s the preceding query calls: %s' %
                          (ft[2], hist[ft[2]]['op'] if ft[2] >= 0 else 'first run', who, ft[1])))
        else:
            # same program built twice in one process
            acc.count('obs:rebuild-compare')
            if _canon(ra.first) != _canon(rb.first):
                viols.append(('rebuild:first-run-differs', 'the same program built twice in one process gives bitwise '
                              'different results of the first run_model: ' + _maxdiff(ra.first, rb.first)))

            def a_only_before(i, fn):
                return any(j < i and hist[j]['op'] == 'coloring' and hist[j].get('fn') == fn for j in a_only)
            bad = _compare(plan, ra, rb, a_only_before)
            for i in sorted(rb.results):
                op = hist[i]
                acc.count('obs:hidden-probe:%s' % ('run_model' if op['op'] in ('run_model', 'rerun') else op['op']))
            if bad:
                i0, lab0, txt0 = bad[0]
                if any(j < i0 and j in ra.changed_at for j in a_only):
                    # a query call of history A changed a vector (reported above): later differences follow from it
                    acc.count('obs:hidden-state-explained-by-vector-change')
                else:
                    mech, culprit = _find_culprit(plan, keep, a_only, i0)
                    viols.append(('%shidden-state:%s:%s' % (mech + ':' if mech else '', culprit, lab0),
                                  'result of step %d (%s) depends on query calls made before it (%s%s): %s' %
                                  (i0, lab0, culprit, ', mechanism identified by intervention: ' + mech if mech
                                   else '', txt0)))
        failed = len(fmon.failures)
    if failed:
        acc.count('obs:solver-failure-reported')
    styles = _cells(plan, acc, ra.prob._mode)
    if viols:
        seen = set()
        first = True
        for key, what in viols:
            if key in seen:
                continue
            seen.add(key)
            acc.viol(key, what, case, new_case=first)
            first = False
        return
    kinds = [op['op'] for op in hist]
    nontriv = bool(a_only) and (any(n != 'runonce' for n in plan['nls']) or bool(styles & {'fd', 'cs'}) or
                                any(c['kind'] == 'imp' for c in plan['spec']['comps']))
    acc.ok(fingerprint([tree_solvers(plan['spec']), {k: v for k, v in cfg.items() if k in
                                                      ('mode', 'fac', 'coloring', 'discrete', 'approx_totals')}, kinds]),
           nontrivial=nontriv,
           sample={'seed': seed, 'solvers': tree_solvers(plan['spec']), 'mode': cfg['mode'],
                   'coloring': cfg['coloring'], 'approx_totals': cfg['approx_totals'], 'history': kinds})


def _find_culprit(plan, keep, a_only, i0):
    """Which single query call (made only in history A, before step i0) reproduces the discrepancy at step i0, and
    which intervention (MECHS) removes it?  -> (mechanism or '', api label or 'several-calls')"""
    cfg = plan['cfg']
    hist = plan['hist']
    cands = [j for j in a_only if j < i0]

    def differs(r, ref, j):
        def aob(i, fn):
            return hist[j]['op'] == 'coloring' and hist[j].get('fn') == fn and j < i
        if r.qexc or r.fatal or i0 not in r.results:
            return None
        return any(i == i0 for i, _, _ in _compare(plan, r, ref, aob))
    try:
        ref = HistoryRun(plan).run(include=set(keep))
        for j in cands:
            if not differs(HistoryRun(plan).run(include=set(keep) | {j}), ref, j):
                continue
            for name, what in MECHS:
                if 'broyden' in what and 'broyden' not in plan['nls']:
                    continue
                if 'approx' in what and not cfg['approx_totals']:
                    continue
                r2 = HistoryRun(plan).run(include=set(keep) | {j}, keep_across={j: what})
                if differs(r2, ref, j) is False:
                    return name, _label(hist[j], cfg)
            return '', _label(hist[j], cfg)
    except HarnessError:
        raise
    except Exception:
        if os.environ.get('OMV_DEBUG'):
            import traceback
            traceback.print_exc()
    return '', 'several-calls'
