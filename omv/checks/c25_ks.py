"""C25 - KS aggregation brackets the extremum and has exact gradients.

Monitor: closed-form comparison at the API boundary of KSComp (outputs, its own sub-jacobian, total
derivatives fwd/rev), of the helper KSfunction.compute/derivatives and of the jax functions
openmdao.jax_funcs.ks_max / ks_min (value and jax.grad).  Reference: log-sum-exp and softmax evaluated by
the harness in extended precision (np.longdouble); bracket [max, max + ln(n)/rho] checked directly.
"""
import math

import numpy as np

from omv.core import fingerprint
from omv.gen.compkit import conv, dense_subjac, EPS

PROPERTY = 'C25'
LEVEL = 'exploration'
TECHNIQUE = 'runtime monitoring: KSComp / KSfunction / jax ks_max,ks_min vs closed-form log-sum-exp and softmax'
RULE = ('random constraint arrays: width 1-50, vec_size 1-5, magnitudes 1e-8..1e8, patterns {random, exact '
        'ties, all-equal rows, one dominant entry, widely spread}, rho log-uniform in [1e-2, 1e4], upper in '
        '{0, random}, all combinations of lower_flag/minimum, units with the source in other units, fwd/rev; '
        'the same arrays through KSfunction and through ks_max/ks_min (1-D and 2-D inputs); distinct = distinct '
        '(api, options, shape, pattern, magnitude decade, rho decade); non-trivial = width > 1')
ASSUMPTIONS = [
    'closed form evaluated in np.longdouble is the reference',
    'value tolerance 4 ulp of |KS| + (1e-12 + 4 ulp ln n)/rho: the exponent rho*(g-gmax) carries a relative '
    'rounding error of 2 ulp, i.e. an absolute one of <= 2 ulp*745 for every term that does not underflow',
    'weight tolerance 2e-12 relative + 1e-290 absolute (same argument; denormal terms are not resolved)',
    'bracket tolerance 4 ulp of (|max| + ln(n)/rho)',
    'KSfunction.derivatives()[1] is compared with the exact d KS / d rho of KSfunction.compute',
]
MIN_JUDGED = {'quick': 1500, 'thorough': 30000}
REQUIRED_COUNTERS = ['obs:kscomp-output', 'obs:kscomp-bracket', 'obs:kscomp-partials', 'obs:kscomp-totals-fwd',
                     'obs:kscomp-totals-rev', 'obs:ksfunction-compute', 'obs:ksfunction-dg',
                     'obs:ksfunction-drho', 'obs:ks_max', 'obs:ks_min', 'obs:ks_max-grad', 'obs:ks_min-grad',
                     'cell:lower_flag', 'cell:minimum', 'cell:lower_flag+minimum', 'cell:upper', 'cell:units',
                     'cell:ties', 'cell:all-equal', 'cell:vec_size>1']
SHARD_TIMEOUT = {'quick': 900, 'thorough': 3600}

LD = np.longdouble
PATTERNS = ['random', 'ties', 'all-equal', 'dominant', 'spread', 'close']


# ----------------------------------------------------------------------------------------------
# reference (pure NumPy, extended precision)
# ----------------------------------------------------------------------------------------------
def ref_ks(z, rho):
    """Row-wise KS(max) of z (2-D float64): value, softmax weights, d/drho; all longdouble."""
    z = np.asarray(z, dtype=LD)
    rho = LD(rho)
    m = np.max(z, axis=-1, keepdims=True)
    d = z - m
    ex = np.exp(rho * d)
    S = np.sum(ex, axis=-1, keepdims=True)
    val = m + np.log(S) / rho
    w = ex / S
    drho = -np.log(S) / rho ** 2 + np.sum(d * ex, axis=-1, keepdims=True) / (rho * S)
    return val, w, drho


def val_tol(ref, n, rho):
    return 4 * EPS * np.abs(np.asarray(ref, dtype=float)) + (1e-12 + 4 * EPS * math.log(max(n, 1))) / rho


def w_tol(wref):
    return 2e-12 * np.abs(np.asarray(wref, dtype=float)) + 1e-290


def gen_array(rng, vec_size, width, pattern, mag):
    """Array of shape (vec_size, width) with the given pattern and overall magnitude."""
    base = rng.uniform(-1.0, 1.0, size=(vec_size, width))
    if pattern == 'ties' and width > 1:
        k = int(rng.integers(2, width + 1))
        for r in range(vec_size):
            idx = rng.choice(width, size=k, replace=False)
            base[r, idx] = np.max(base[r]) if rng.random() < 0.7 else base[r, idx[0]]
    elif pattern == 'all-equal':
        base[:] = base[:, :1]
    elif pattern == 'dominant':
        for r in range(vec_size):
            base[r, int(rng.integers(width))] = 5.0
    elif pattern == 'spread':
        base = base * 10.0 ** rng.uniform(-6, 0, size=(vec_size, width))
    elif pattern == 'close':
        base = 1.0 + 1e-9 * base
    return base * mag


def _wrong(got, ref, tol):
    got = np.asarray(got, dtype=float)
    ref = np.asarray(ref, dtype=float)
    if got.shape != ref.shape:
        return 'shape %s vs %s' % (got.shape, ref.shape)
    bad = ~(np.abs(got - ref) <= tol)   # also catches nan
    if np.any(bad):
        k = int(np.argmax(np.where(bad, np.abs(got - ref) / np.maximum(tol, 1e-300), 0).ravel()))
        return 'entry %d: got %.17g expected %.17g (tol %.3g)' % (k, got.ravel()[k], ref.ravel()[k],
                                                                   np.broadcast_to(tol, ref.shape).ravel()[k])
    return None


def _optkey(c):
    f = []
    if c.get('lower_flag'):
        f.append('lower_flag')
    if c.get('minimum'):
        f.append('minimum')
    if c.get('upper'):
        f.append('upper')
    if c.get('units'):
        f.append('units')
    return '+'.join(f) or 'default'


# ----------------------------------------------------------------------------------------------
# KSComp
# ----------------------------------------------------------------------------------------------
def judge_kscomp(case, acc):
    import openmdao.api as om
    g = np.array(case['g'], dtype=float)
    vec_size, width = g.shape
    rho = float(case['rho'])
    upper = float(case['upper'])
    lf, mn = bool(case['lower_flag']), bool(case['minimum'])
    units, src_units = case['units'], case['src_units']
    mode = case['mode']
    fp = fingerprint({'api': 'KSComp', 'opt': _optkey(case), 'shape': [vec_size, width], 'pat': case['pattern'],
                      'mag': int(round(math.log10(case['mag']))), 'rho': int(math.floor(math.log10(rho))),
                      'mode': mode})
    ok = {'bad': False}

    def viol(obs, what):
        acc.viol('KSComp:%s:%s' % (_optkey(case), obs), what, case, fp=fp, new_case=not ok['bad'])
        ok['bad'] = True

    try:
        p = om.Problem()
        fac, off = conv(src_units, units)
        p.model.add_subsystem('ivc', om.IndepVarComp('g', val=np.zeros(g.shape), units=src_units))
        kw = dict(width=width, vec_size=vec_size, rho=rho, upper=upper, lower_flag=lf, minimum=mn)
        if units is not None:
            kw['units'] = units
        ks = p.model.add_subsystem('ks', om.KSComp(**kw))
        p.model.connect('ivc.g', 'ks.g')
        p.setup(mode=mode)
        p.set_val('ivc.g', g / fac - off)
        p.run_model()
        gin = np.array(p.get_val('ks.g'), dtype=float)      # what the component actually received
        out = np.array(p.get_val('ks.KS'), dtype=float)
        tot = p.compute_totals(of=['ks.KS'], wrt=['ivc.g'], return_format='flat_dict')['ks.KS', 'ivc.g']
        sj = dense_subjac(ks, 'KS', 'g')
        p.cleanup()
    except Exception as e:
        viol('raises:' + type(e).__name__, '%s: %s' % (type(e).__name__, str(e)[:300]))
        return
    if gin.shape != g.shape or not np.allclose(gin, g, rtol=1e-12, atol=1e-300):
        raise RuntimeError('harness: input not delivered')
    # documented semantics: constraint value con = g - upper, sign reversed by lower_flag; KS aggregates its
    # maximum, or (minimum=True) its minimum
    con = gin - upper
    if lf:
        con = -con
    s2 = -1.0 if mn else 1.0
    z = s2 * con
    val, w, _ = ref_ks(z, rho)
    ref_out = np.asarray(s2 * val, dtype=float)
    L = math.log(width) / rho
    # bracket
    acc.count('obs:kscomp-bracket')
    if out.shape != (vec_size, 1) or not np.all(np.isfinite(out)):
        viol('output-nonfinite-or-shape', 'KS output %s for finite input' % out.tolist()[:4])
    else:
        ext = (np.min(con, axis=1) if mn else np.max(con, axis=1)).reshape(-1, 1)
        slack = 4 * EPS * (np.abs(ext) + L)
        lo, hi = (ext - L, ext) if mn else (ext, ext + L)
        if np.any(out < lo - slack) or np.any(out > hi + slack):
            r = int(np.argmax(((out < lo - slack) | (out > hi + slack)).ravel()))
            viol('bracket', 'KS=%.17g outside [%.17g, %.17g] (row %d, rho=%g, n=%d)' %
                 (out[r, 0], lo[r, 0], hi[r, 0], r, rho, width))
        acc.count('obs:kscomp-output')
        msg = _wrong(out, ref_out, val_tol(ref_out, width, rho))
        if msg:
            viol('output', 'KS value: ' + msg)
    # exact derivative of the returned value: d/dg [s2 * ks(s2*s1*(g-upper))] = s1 * softmax
    s1 = -1.0 if lf else 1.0
    wref = np.asarray(w, dtype=float) * s1
    Jref = np.zeros((vec_size, vec_size * width))
    for r in range(vec_size):
        Jref[r, r * width:(r + 1) * width] = wref[r]
    acc.count('obs:kscomp-partials')
    if sj is None:
        viol('partials-undeclared', 'partial KS wrt g not declared')
    else:
        msg = _wrong(sj, Jref, w_tol(Jref))
        if msg:
            viol('partials', 'dKS/dg: ' + msg)
    acc.count('obs:kscomp-totals-' + mode)
    msg = _wrong(tot, Jref * fac, w_tol(Jref * fac) + 8 * EPS * np.abs(Jref * fac))
    if msg:
        viol('totals-' + mode, 'total dKS/dg (%s): %s' % (mode, msg))
    if lf and mn:
        acc.count('cell:lower_flag+minimum')
    elif lf:
        acc.count('cell:lower_flag')
    elif mn:
        acc.count('cell:minimum')
    if upper:
        acc.count('cell:upper')
    if units and units != src_units:
        acc.count('cell:units')
    if case['pattern'] == 'ties':
        acc.count('cell:ties')
    if case['pattern'] == 'all-equal':
        acc.count('cell:all-equal')
    if vec_size > 1:
        acc.count('cell:vec_size>1')
    if not ok['bad']:
        acc.ok(fp, nontrivial=width > 1, sample=case if acc.judged % 499 == 0 else None)


# ----------------------------------------------------------------------------------------------
# KSfunction
# ----------------------------------------------------------------------------------------------
def judge_ksfunction(case, acc):
    from openmdao.components.ks_comp import KSfunction
    g = np.array(case['g'], dtype=float)
    rho = float(case['rho'])
    vec_size, width = g.shape
    fp = fingerprint({'api': 'KSfunction', 'shape': [vec_size, width], 'pat': case['pattern'],
                      'mag': int(round(math.log10(case['mag']))), 'rho': int(math.floor(math.log10(rho)))})
    ok = {'bad': False}

    def viol(obs, what):
        acc.viol('KSfunction:%s' % obs, what, case, fp=fp, new_case=not ok['bad'])
        ok['bad'] = True

    try:
        out = np.asarray(KSfunction.compute(g, rho), dtype=float)
        dg, drho = KSfunction.derivatives(g, rho)
    except Exception as e:
        viol('raises:' + type(e).__name__, str(e)[:300])
        return
    val, w, dr = ref_ks(g, rho)
    acc.count('obs:ksfunction-compute')
    ext = np.max(g, axis=1).reshape(-1, 1)
    L = math.log(width) / rho
    slack = 4 * EPS * (np.abs(ext) + L)
    if out.shape != (vec_size, 1) or not np.all(np.isfinite(out)):
        viol('compute:nonfinite-or-shape', 'compute returned %s' % out.tolist()[:4])
    else:
        if np.any(out < ext - slack) or np.any(out > ext + L + slack):
            viol('compute:bracket', 'KS outside [max, max+ln(n)/rho]: %s vs max %s' % (out.ravel()[:3], ext.ravel()[:3]))
        msg = _wrong(out, val, val_tol(val, width, rho))
        if msg:
            viol('compute:value', msg)
    acc.count('obs:ksfunction-dg')
    msg = _wrong(dg, w, w_tol(w))
    if msg:
        viol('derivatives:dKS_dg', msg)
    acc.count('obs:ksfunction-drho')
    # d/drho = -ln(S)/rho^2 + sum(d e^{rho d})/(rho S); |d e^{rho d}| <= 1/(e rho), so the terms are bounded by
    # (ln n + n)/rho^2 and their rounding (relative <= 1e-12, see the exponent argument) by 1e-12 of that
    dr = np.asarray(dr, dtype=float)
    tol = 1e-11 * (math.log(width) + width) / rho ** 2 + 1e-290
    msg = _wrong(drho, dr, tol)
    if msg:
        viol('derivatives:dKS_drho', 'second return value of KSfunction.derivatives is not d KS / d rho: ' + msg)
    if not ok['bad']:
        acc.ok(fp, nontrivial=width > 1)


# ----------------------------------------------------------------------------------------------
# jax ks_max / ks_min
# ----------------------------------------------------------------------------------------------
_JAX = {}


def _jax_funcs():
    if not _JAX:
        import jax
        jax.config.update('jax_enable_x64', True)
        from openmdao.jax_funcs import ks_max, ks_min
        _JAX['ks_max'] = ks_max
        _JAX['ks_min'] = ks_min
        _JAX['ks_max-grad'] = jax.jit(jax.value_and_grad(ks_max))
        _JAX['ks_min-grad'] = jax.jit(jax.value_and_grad(ks_min))
    return _JAX


def judge_jax(case, acc):
    J = _jax_funcs()
    x = np.array(case['g'], dtype=float)
    if case.get('flat'):
        x = x.reshape(-1)
    rho = float(case['rho'])
    which = case['which']
    n = x.size
    fp = fingerprint({'api': which, 'shape': list(x.shape), 'pat': case['pattern'], 'default_rho': case['default_rho'],
                      'mag': int(round(math.log10(case['mag']))), 'rho': int(math.floor(math.log10(rho)))})
    ok = {'bad': False}

    def viol(obs, what):
        acc.viol('%s:%s' % (which, obs), what, case, fp=fp, new_case=not ok['bad'])
        ok['bad'] = True

    try:
        if case['default_rho']:
            rho = 100.0
            v = np.asarray(J[which](x))
            v2, gr = J[which + '-grad'](x)
        else:
            v = np.asarray(J[which](x, rho))
            v2, gr = J[which + '-grad'](x, rho)
        v = np.asarray(v, dtype=float)
        v2 = np.asarray(v2, dtype=float)
        gr = np.asarray(gr, dtype=float)
    except Exception as e:
        viol('raises:' + type(e).__name__, str(e)[:300])
        return
    s = 1.0 if which == 'ks_max' else -1.0
    val, w, _ = ref_ks((s * x).reshape(1, -1), rho)
    ref = float(s * val[0, 0])
    L = math.log(n) / rho
    ext = float(np.max(x) if s > 0 else np.min(x))
    acc.count('obs:' + which)
    slack = 4 * EPS * (abs(ext) + L)
    if v.shape != () or not np.isfinite(v):
        viol('value-nonfinite-or-shape', 'returned %r' % v)
    else:
        lo, hi = (ext, ext + L) if s > 0 else (ext - L, ext)
        if v < lo - slack or v > hi + slack:
            viol('bracket', '%s=%.17g outside [%.17g, %.17g] (rho=%g n=%d)' % (which, float(v), lo, hi, rho, n))
        msg = _wrong(v, ref, val_tol(ref, n, rho))
        if msg:
            viol('value', msg)
        msg = _wrong(v2, ref, val_tol(ref, n, rho))
        if msg:
            viol('value-under-grad', msg)
    acc.count('obs:%s-grad' % which)
    # d/dx [s*ks(s*x)] = softmax(rho*s*x); with exact ties jax splits the max() cotangent evenly, which leaves
    # the total gradient equal to the softmax (the max term cancels analytically)
    wref = np.asarray(w, dtype=float).reshape(x.shape)
    msg = _wrong(gr, wref, w_tol(wref) + (n + 4) * EPS)
    if msg:
        viol('grad', 'jax.grad: ' + msg)
    if not ok['bad']:
        acc.ok(fp, nontrivial=n > 1)


# ----------------------------------------------------------------------------------------------
# generation
# ----------------------------------------------------------------------------------------------
def gen_case(rng, api, shape=None):
    pattern = PATTERNS[int(rng.integers(len(PATTERNS)))]
    mag = float(10.0 ** int(rng.integers(-8, 9)))
    rho = float(10.0 ** rng.uniform(-2, 4))
    if shape is None:
        width = int(rng.choice([1, 2, 2, 3, 3, 4, 5, 7, 10, 16, 25, 50]))
        vec_size = int(rng.choice([1, 1, 2, 3, 5]))
    else:
        vec_size, width = shape
    g = gen_array(rng, vec_size, width, pattern, mag)
    case = {'api': api, 'g': g.tolist(), 'rho': rho, 'pattern': pattern, 'mag': mag}
    if api == 'KSComp':
        case['upper'] = 0.0 if rng.random() < 0.5 else float(np.round(rng.uniform(-1, 1) * mag, 12))
        case['lower_flag'] = bool(rng.random() < 0.4)
        case['minimum'] = bool(rng.random() < 0.4)
        u = [None, None, 'm', 'cm', 's', 'N'][int(rng.integers(6))]
        case['units'] = u
        from omv.gen.compkit import src_units_for
        case['src_units'] = src_units_for(rng, u, 0.6) if u else None
        # fwd totals cost one linear solve per input entry: keep fwd for up to 60 entries
        case['mode'] = 'fwd' if (rng.random() < 0.5 and vec_size * width <= 60) else 'rev'
    elif api == 'jax':
        case['which'] = 'ks_max' if rng.random() < 0.5 else 'ks_min'
        case['flat'] = bool(vec_size == 1)
        case['default_rho'] = bool(rng.random() < 0.1)
    return case


JAX_SHAPES = [(1, 1), (1, 2), (1, 3), (1, 5), (1, 10), (1, 50), (2, 3), (3, 4)]


def shards(tier, seed):
    n, per = (8, 80) if tier == 'quick' else (32, 420)
    return [{'seed': seed * 7919 + k, 'k': k, 'n_comp': per, 'n_fun': 3 * per, 'n_jax': 2 * per} for k in range(n)]


def run_shard(shard, acc):
    rng = np.random.default_rng(shard['seed'])
    for _ in range(shard['n_comp']):
        judge_kscomp(gen_case(rng, 'KSComp'), acc)
    for _ in range(shard['n_fun']):
        judge_ksfunction(gen_case(rng, 'KSfunction'), acc)
    # every distinct input shape costs four jit compilations: each shard uses half of the shapes
    shapes = JAX_SHAPES[shard['k'] % 2::2]
    for i in range(shard['n_jax']):
        judge_jax(gen_case(rng, 'jax', shapes[i % len(shapes)]), acc)


def run_case(case, acc):
    {'KSComp': judge_kscomp, 'KSfunction': judge_ksfunction, 'jax': judge_jax}[case['api']](case, acc)


def coverage_extra(tier, agg):
    return {'exhaustive': False}
