"""C21 - Optimizer success implies a feasible reported design.

Monitor: differential/reference run at the API boundary of ScipyOptimizeDriver.  Random strictly convex
QPs (f = 1/2 z'Qz + c'z, g = A z + b as an array response, n <= 4) with per-element bound patterns are
run through run_driver() for each constrained optimizer and for two or three driver scalings of the
same problem.  When driver.result.success is true the harness

  (i)   unscales the x scipy returned with its own formulas and compares it with the design variables
        found in the model (get_val),
  (ii)  re-evaluates every constraint element with NumPy from get_val and tests it against its own
        lower / upper / equals (tolerance expressed in the optimizer's scaled space),
  (iii) compares the design with the exact optimum from omv/ref/qp.py (KKT enumeration).

History stratum (a third of the problems): the component gets a parameter p that is not a design variable,
f = (1+q1 p) 1/2 z'Qz + (c+p c1)'z, g = (A+p B) z + b + p b1 (omv/ref/qphist.py), and the SAME Problem/driver is
run 2-3 times; between the runs p is changed with set_val, bounds / equals / scaler,adder / ref,ref0 are
changed with set_design_var_options / set_constraint_options / set_objective_options, the start point is moved
or left where the last run ended, setup() is called again, or the component's data are replaced before a
re-setup.  Every run is judged by (i)-(iii) for the values current at that run; the last run is also compared,
argument by argument of scipy.optimize.minimize, with a fresh Problem declared directly with the final values.

Global-optimizer stratum (own generator, 3 problems per quick shard): the optimizers the driver calls through
other scipy entry points than `minimize` - shgo and differential_evolution (constraints, bounds, linear flag,
holes in array bounds; shgo with iters / n / stopped by maxiter, differential evolution with polish on/off,
immediate/deferred updating, popsize), dual_annealing (with / without local search, stopped by maxiter) and
basinhopping on the problem without its constraints - on boxed problems, for 2 of the 3 driver scalings.  The
scipy entry point is wrapped, so the harness knows the last point the optimizer evaluated the model at and
whether the driver evaluated the model again afterwards.  Judged like every other run: (i) with the tolerance
of the round-off of the scaling maps (1e-11 relative; a model left at a finite-difference or line-search
point 1e-8 away is a violation), (i') the outputs found in the model (f, g) are the component's formulas at the
inputs found in the model, (ii) as above; (iii) is only held against OpenMDAO when a callback/argument
monitor saw a wrong value (shgo with few iterations, DE without polish, annealing stopped by maxiter
legitimately end near, not at, the optimum).

Failpoint stratum (one global-optimizer case and one minimize-family case per problem of the global stratum): a
twin Problem is run with the component raising AnalysisError at ONE model evaluation - the one the driver makes
after the optimizer returned (the model being put at the returned design) or one the optimizer asked for.
run_driver() may raise or report failure; a reported success must leave the model AT the returned design (i, i');
afterwards the SAME Problem/driver is run again without the fault and judged by the full oracle (keys
rerun-after-model-exception:*).
"""
import copy

import numpy as np

from omv.core import fingerprint
from omv.ref import affine as af
from omv.ref import qphist
from omv.ref import qpspec

PROPERTY = 'C21'
LEVEL = 'exploration'
TECHNIQUE = 'runtime monitoring: optimizer result vs exact KKT solution and NumPy re-evaluated constraints'
RULE = ('random strictly convex QPs (n<=4 design variables in 1-2 inputs, 1-4 constraint elements in 1-2 '
        'array constraints incl. indices+alias, per-element patterns lower/upper/both/hole/equality, scalar '
        'and array bounds, linear flag, units) x optimizers {SLSQP, COBYLA, trust-constr, COBYQA} x driver '
        'scalings {none, scaler/adder, ref/ref0; scalar and array}; a third of the problems as histories: the same '
        'Problem/driver run 2-3 times with {parameter entering f, g and the coefficients of the linear '
        'constraints, bounds/equals, scaling, start point (warm or set), re-setup, re-setup with new component '
        'data} changed in between, then a fresh Problem with the final values; global-optimizer stratum: boxed '
        'problems (n<=3) x {shgo, differential_evolution} (constrained) and {dual_annealing, basinhopping} '
        '(constraints dropped) x 2 of the 3 scalings x random short-run settings (iters/n/maxiter, polish, '
        'updating, popsize, no_local_search, niter); failpoint stratum: AnalysisError at the evaluation after the '
        'optimizer returned / at one it asked for, then the same Problem run again; distinct = distinct '
        '(structure, optimizer, scaling variant, optimizer settings | stage, kinds of change | fault kind); '
        'non-trivial = driver reported success and the exact optimum exists')
LEVEL_TEXT = ('every success reported on the sampled problems was checked elementwise against an independent '
              'exact solution; no statement about unsampled problem classes (n>4, nonlinear g, the unconstrained '
              'methods of scipy.optimize.minimize)')
ASSUMPTIONS = [
    'the exact optimum of the strictly convex QP is the KKT point found by enumeration (re-certified: '
    'stationarity/primal/dual residuals < 1e-8)',
    'bounds are declared in the declared units, unscaled; a scaler > 0 keeps their orientation',
    'feasibility is judged in the optimizer (scaled) space with tolerance 1e-6*(1+|bound_scaled|) while the '
    'optimizers are run with tolerances <= 1e-9 (>= 100x margin)',
    'trust-constr results are judged for feasibility/optimality only when scipy\'s own constr_violation / '
    'optimality measures are below 1e-7, so that scipy\'s lax xtol-success is not blamed on OpenMDAO',
    'a tr_interior_point result that misses the optimum is not blamed on OpenMDAO when its final '
    'barrier_parameter > 1e-7 (scipy stops on gtol while mu is still 1e-3..1e-4, e.g. always for n=1) unless a '
    'callback/argument monitor saw the driver hand scipy a wrong value',
    'a miss of the optimum on a problem whose callbacks/arguments were all observed correct is blamed on '
    'OpenMDAO only if the same scipy call fed from the reference formulas converges AND keeps converging when '
    'the callback values are perturbed at round-off level (1e-13 relative, 10 trials); otherwise the case is '
    'discarded as optimizer instability',
    'designs are compared with tolerance 1e-4*(1+|z*|)*sqrt(cond Q) (optimizers run with tol 1e-10; '
    'observed errors are <= 1e-6)',
    'negative scalers on design variables / constraints are exercised in a separate stratum (keys neg-scaler:*)',
    'history stratum: a change made with set_val / set_*_options after a run is in force at the next run_driver() '
    '(documented in features/core_features/adding_desvars_cons_objs/modifying_desvars_cons_obj) and survives a '
    'later setup() (pinned by test_system_set_solver_bounds_scaling_options); new bounds replace all old bounds, '
    'naming one scaling pair clears the other',
    'history stratum: a run started where the previous one ended is only required to be accepted by '
    'trust-constr (keep_feasible) when that point satisfies the linear constraints and bounds with a relative '
    'slack of 1e-9 in the optimizer space; a start inside that band is discarded',
    'the last run of a history and the fresh Problem see the same optimizer-space problem from the same start: the '
    'arguments of scipy.optimize.minimize must agree within 1e-9 relative',
    'model state: the harness maps the inputs found in the model (get_val) to optimizer space with its own '
    'formulas and compares with result.x; both maps are affine, so the difference is round-off of the magnitudes '
    'that enter: tolerance 1e-11*(1+|x|+|adder*scaler|+|unit offset*factor*scaler|) per element (>= 1e4 ulp; '
    'observed: 0 or <= 1e-13); outputs vs inputs: 1e-11*(1+|terms of the formula|)',
    'a miss of the optimum whose control run converges is blamed on OpenMDAO only if, in addition, run_driver() '
    'repeated 10 times from the same start moved by 1e-13 relative never reaches the optimum (COBYQA: every value '
    'handed to scipy within 1 ulp of the reference, yet the iterates separate from those of the control run after '
    'a dozen evaluations and one of the two stops on its minimum trust radius away from the optimum)',
    'global optimizers: every design variable element has two finite bounds; shgo is given opt_settings '
    "maxiter=None or a small integer (the driver's default maxiter=200 makes shgo refine 200 times), "
    'differential_evolution / dual_annealing / basinhopping a seed; a miss of the optimum is not held against '
    'OpenMDAO unless a callback/argument monitor saw a wrong value; basinhopping (no bounds in scipy, emulated by '
    'the driver through accept_test) is not judged against the design-variable bounds',
    'callback values are compared with the reference only at finite points with |x| <= 1e12 (scipy.optimize.shgo '
    'evaluates every constraint once at an uninitialised array, np.empty(dim), while converting it) and with the '
    'round-off tolerance of the sum of the magnitudes of the terms (1e-13 relative) in addition to 1e-9 of the value',
    'failpoint stratum: the twin repeats the evaluation sequence of the clean run (deterministic optimizers / '
    'fixed seeds); when the failpoint is not reached the case is discarded; run_driver() may raise anything or '
    'report failure; a reported success is judged by (i)/(i\') only (the documentation leaves the reaction to an '
    'AnalysisError to the optimizer)',
]
MIN_JUDGED = {'quick': 300, 'thorough': 3000}
REQUIRED_COUNTERS = ['obs:success:SLSQP', 'obs:success:COBYLA', 'obs:success:trust-constr',
                     'obs:success:COBYQA', 'obs:feasible-elements', 'obs:optimum-compared',
                     'obs:active-at-optimum', 'obs:model-state-compared', 'obs:array-bounds-mixed-pattern',
                     'obs:equality-success', 'obs:linear-success', 'obs:minimize-bounds-compared',
                     'obs:history-rerun-judged', 'obs:history-compared-with-fresh-problem',
                     'obs:history-change:param', 'obs:history-change:cons-scaling', 'obs:history-change:cons-bounds',
                     'obs:history-change:resetup', 'obs:history-start:warm',
                     'obs:history-rerun-linear-jacobian-compared',
                     'obs:success:shgo', 'obs:success:differential_evolution', 'obs:success:dual_annealing',
                     'obs:success:basinhopping', 'obs:model-outputs-compared-with-model-inputs',
                     'obs:optimizer-ended-elsewhere-than-returned-x:shgo',
                     'obs:optimizer-ended-elsewhere-than-returned-x:dual_annealing',
                     'obs:optimizer-ended-far-from-returned-x', 'obs:optimizer-ended-within-1e-6-from-returned-x',
                     'obs:model-evaluated-again-after-optimizer-returned',
                     'obs:fault-injected:restore', 'obs:fault-injected:mid',
                     'obs:rerun-after-model-exception-judged']
SHARD_TIMEOUT = {'quick': 900, 'thorough': 3000}

OPTS = ['SLSQP', 'COBYLA', 'trust-constr', 'COBYQA']
EQ_OPTS = ('SLSQP', 'trust-constr')
# optimizers that ScipyOptimizeDriver drives through another scipy entry point than scipy.optimize.minimize
GLOBAL_OPTS = ('shgo', 'differential_evolution', 'dual_annealing', 'basinhopping')
GLOBAL_CON = ('shgo', 'differential_evolution')          # ... those of them that take constraints
NEW_STYLE = ('trust-constr', 'COBYQA', 'shgo', 'differential_evolution')
# optimizers to which the driver hands a linear=True constraint as one scipy LinearConstraint object
LIN_AS_OBJECT = ('trust-constr', 'shgo', 'differential_evolution')
FEAS_TOL = 1e-6
STATE_TOL = 1e-11     # model state vs returned x / outputs vs inputs: relative to the magnitudes that enter (see ASSUMPTIONS)


# ----------------------------------------------------------------------------------------------
def make_driver(opt):
    import openmdao.api as om
    d = om.ScipyOptimizeDriver(optimizer=opt, tol=1e-10, disp=False)
    d.options['maxiter'] = 3000 if opt in ('COBYLA', 'COBYQA') else 1000
    if opt == 'COBYLA':
        d.opt_settings['catol'] = 1e-9
        d.opt_settings['rhobeg'] = 0.5
    if opt == 'SLSQP':
        d.opt_settings['ftol'] = 1e-12
    return d


def make_global_driver(opt, gopts):
    """ScipyOptimizeDriver for an optimizer outside scipy.optimize.minimize; `gopts` = {'maxiter': driver option
    or None (= leave the driver's default), 'settings': opt_settings} (short runs: the problems are tiny)."""
    import openmdao.api as om
    d = om.ScipyOptimizeDriver(optimizer=opt, tol=1e-10, disp=False)
    if gopts.get('maxiter') is not None:
        d.options['maxiter'] = int(gopts['maxiter'])
    d.opt_settings.update(copy.deepcopy(gopts.get('settings') or {}))
    return d


def rand_global_options(rng, opt):
    if opt == 'shgo':
        # opt_settings['maxiter']=None (as the repository's own shgo tests do) lets `iters` decide; an integer
        # makes shgo stop on its iteration limit
        st = {'maxiter': [None, None, 1, 2][int(rng.integers(4))], 'iters': int(rng.integers(1, 3))}
        if rng.random() < 0.5:
            st['n'] = int(rng.integers(6, 20))
        return {'maxiter': None, 'settings': st}
    if opt == 'differential_evolution':
        st = {'seed': int(rng.integers(1, 10 ** 6)), 'popsize': int(rng.integers(4, 8)),
              'polish': bool(rng.random() < 0.5)}
        if rng.random() < 0.3:
            st['updating'] = 'deferred'
        return {'maxiter': int(rng.integers(40, 80)), 'settings': st}
    if opt == 'dual_annealing':
        st = {'seed': int(rng.integers(1, 10 ** 6))}
        if rng.random() < 0.4:
            st['no_local_search'] = True
        return {'maxiter': int(rng.integers(15, 40)), 'settings': st}
    return {'maxiter': None, 'settings': {'seed': int(rng.integers(1, 10 ** 6)), 'niter': int(rng.integers(2, 6))}}


def gen_boxed(rng):
    """Problem for the optimizers that sample a box: every design variable element gets both bounds (the
    drawn ones are kept, absent ones are put 1-3 units beyond the point the bounds were drawn around)."""
    spec = qpspec.random_spec(rng, n_max=3, m_max=3, scaling=False, units=True, dv_indices=False,
                              equality=False, split_cons=True, dv_bounds='all', margin=1.0,
                              units_p=0.35, offsets=True, families=FAMILIES)
    ref = qpspec.RefModel(spec)
    xf = np.asarray(spec['xfeas'], float)
    for d, rd in zip(spec['dvs'], ref.dvs):
        vd = af.to_units(xf[rd['pos']], rd['munits'], rd['units'])
        fac, _ = af.unit_affine(rd['munits'], rd['units'])
        w = abs(fac) * (1.0 + 2.0 * rng.random(2 * rd['size']))
        if isinstance(d.get('lower'), list) or isinstance(d.get('upper'), list):
            lo, hi = af.bound_arrays(d.get('lower'), d.get('upper'), rd['size'])
            lo = np.where(lo <= -af.INF_BOUND, vd - w[:rd['size']], lo)
            hi = np.where(hi >= af.INF_BOUND, vd + w[rd['size']:], hi)
            d['lower'], d['upper'] = np.round(lo, 4).tolist(), np.round(hi, 4).tolist()
        else:
            if d.get('lower') is None:
                d['lower'] = float(np.round(vd.min() - w[0], 4))
            if d.get('upper') is None:
                d['upper'] = float(np.round(vd.max() + w[-1], 4))
        d['pat'] = 'B' * rd['size']
    return spec


def variants(spec, rng, with_neg):
    """Scalings of one problem: bounds/units are untouched, only scaler/adder/ref/ref0 change."""
    out = [('plain', _with_sc(spec, None, None, None))]
    for tag, kinds in (('sa', ('sa', 'sa_arr')), ('ref', ('ref', 'ref_arr'))):
        dsc = [qpspec.rand_scaling(rng, len(d['pat']), False, kinds=kinds, mag_range=MAG) for d in spec['dvs']]
        csc = [qpspec.rand_scaling(rng, len(c['pat']), False, kinds=kinds, mag_range=MAG) for c in spec['cons']]
        osc = qpspec.rand_scaling(rng, 1, False, kinds=kinds[:1], mag_range=MAG)
        out.append((tag, _with_sc(spec, dsc, csc, osc)))
    if with_neg:
        which = 'con' if rng.random() < 0.6 else 'dv'
        dsc = [None for _ in spec['dvs']]
        csc = [None for _ in spec['cons']]
        if which == 'con':
            k = int(rng.integers(len(csc)))
            csc[k] = {'kind': 'sa', 'scaler': -float(np.round(np.exp(rng.uniform(-1, 1)), 3)), 'adder': None}
        else:
            k = int(rng.integers(len(dsc)))
            dsc[k] = {'kind': 'sa', 'scaler': -float(np.round(np.exp(rng.uniform(-1, 1)), 3)), 'adder': None}
        out.append(('neg-' + which, _with_sc(spec, dsc, csc, None)))
    return out


def _with_sc(spec, dsc, csc, osc):
    s = copy.deepcopy(spec)
    for i, d in enumerate(s['dvs']):
        d['sc'] = None if dsc is None else dsc[i]
    for i, c in enumerate(s['cons']):
        c['sc'] = None if csc is None else csc[i]
    s['obj']['sc'] = osc
    return s


FAMILIES = {'length': ['m', 'ft', 'inch', 'cm'], 'temp': ['degK', 'degC', 'degF'], 'time': ['s', 'min']}
MAG = (0.2, 5.0)


def gen_base(rng):
    return qpspec.random_spec(rng, n_max=4, m_max=4, scaling=False, units=True, dv_indices=False,
                              equality=True, split_cons=True, dv_bounds='some', margin=1.0,
                              units_p=0.35, offsets=True, families=FAMILIES)


def well_scaled(ref):
    """The optimizer-space problem must be one scipy's optimizers handle reliably (their tolerances and
    initial trust regions are absolute numbers in that space): Hessian condition <= 1e4, Hessian and
    constraint-row norms within [1e-2, 1e2], Hessian eigenvalues within [1e-3, 1e3]."""
    free = ref.free_positions()
    sx = np.concatenate([ref._slope(d)[0] for d in ref.dvs])
    sf = ref._slope(ref.obj)[0][0]
    H = sf * ref.Q[np.ix_(free, free)] / np.outer(sx, sx)
    ev = np.linalg.eigvalsh(H)
    if ev[0] <= 0 or ev[-1] / ev[0] > 1e4 or ev[-1] > 1e3 or ev[0] < 1e-3:
        return False
    for c in ref.cons:
        sc = ref._slope(c)[0]
        J = sc[:, None] * ref.A[np.ix_(c['rows'], free)] / sx[None, :]
        nr = np.linalg.norm(J, axis=1)
        if np.any(nr > 1e2) or np.any(nr < 1e-2):
            return False
    return True


# ----------------------------------------------------------------------------------------------
class ScaledRef:
    """The problem as the optimizer should see it (optimizer space), from the reference formulas."""

    def __init__(self, ref, z_start):
        self.ref = ref
        self.z_start = np.array(z_start, float)
        self.lo = {}
        self.hi = {}
        for c in ref.cons:
            lo, hi = ref.bounds(c)
            self.lo[c['key']], self.hi[c['key']], _, _ = af.image_bounds(lo, hi, c['sc'])
        self.n = sum(d['size'] for d in ref.dvs)

    def z(self, xs):
        xs = np.asarray(xs, float).ravel()
        scaled = {}
        o = 0
        for d in self.ref.dvs:
            scaled[d['key']] = xs[o:o + d['size']]
            o += d['size']
        return self.ref.z_from_scaled(self.z_start, scaled)

    def f(self, xs):
        return float(self.ref.obj_vals(self.z(xs))['f']['scaled'][0])

    def g(self, xs, key):
        return self.ref.con_vals(self.z(xs))[key]['scaled']

    def f_mag(self, xs):
        """sum of the magnitudes of the terms of the scaled objective (what its round-off is relative to)."""
        r = self.ref
        az = np.abs(self.z(xs))
        s_, a_ = af.scaler_adder(r.obj['sc'], 1)
        ufac, uoff = af.unit_affine(r.obj['munits'], r.obj['units'])
        return float(abs(s_[0]) * (abs(ufac) * (0.5 * az @ np.abs(r.Q) @ az + np.abs(r.c) @ az + abs(uoff))
                                   + abs(a_[0])))

    def g_mag(self, xs, key):
        r = self.ref
        c = [c_ for c_ in r.cons if c_['key'] == key][0]
        az = np.abs(self.z(xs))
        s_, a_ = af.scaler_adder(c['sc'], c['size'])
        ufac, uoff = af.unit_affine(c['munits'], c['units'])
        return np.abs(s_) * (abs(ufac) * (np.abs(r.A[c['rows']]) @ az + np.abs(r.b[c['rows']]) + abs(uoff))
                             + np.abs(a_))

    def grad_f(self, xs):
        J = self.ref.jac(self.z(xs), scaled=True)
        return np.concatenate([J[('f', d['key'])].ravel() for d in self.ref.dvs])

    def jac_g(self, xs, key):
        J = self.ref.jac(self.z(xs), scaled=True)
        return np.hstack([J[(key, d['key'])] for d in self.ref.dvs])

    def jac_g_without_units(self, key):
        """what a Jacobian that applies the scalers but forgets the declared-unit factors looks like."""
        c = [c_ for c_ in self.ref.cons if c_['key'] == key][0]
        sc, _ = af.scaler_adder(c['sc'], c['size'])
        blocks = []
        for d in self.ref.dvs:
            sd, _ = af.scaler_adder(d['sc'], d['size'])
            blocks.append(sc[:, None] * self.ref.A[np.ix_(c['rows'], d['pos'])] / sd[None, :])
        return np.hstack(blocks)


class Monitor:
    """Wraps the callbacks scipy calls (on the driver instance) and the minimize() entry point.

    Records, for every value handed to the optimizer, whether it is the reference value *at the x that
    was passed in*, and which (constraint, element, side) was ever presented to the optimizer.
    """

    def __init__(self, drv, ref, z_start, acc):
        self.drv = drv
        self.ref = ref
        self.sr = ScaledRef(ref, z_start)
        self.acc = acc
        self.stale = 0          # constraint values that belong to a previously evaluated x
        self.wrong = 0          # constraint values that match no evaluated point
        self.obj_wrong = 0
        self.grad_wrong = 0
        self.grad_stale = 0
        self.congrad_wrong = 0
        self.congrad_nounits = 0
        self.congrad_negated = 0
        self.new_style = drv.options['optimizer'] in NEW_STYLE
        self.sides = set()      # (con key, k, 'lower'|'upper') presented to the optimizer
        self.last_obj_x = None
        self.captured = None
        self.cons_by_key = {c['key']: c for c in ref.cons}
        self.args_label = None  # mechanism seen in the arguments of scipy.optimize.minimize (_arguments_label)

    def _comparable(self, x):
        """Values are compared with the reference only at points where the comparison means something: scipy's
        shgo probes every constraint once at an UNINITIALISED array (standardize_constraints(constraints,
        np.empty(dim)) -> PreparedConstraint -> fun(x0)): 1e50, inf, nan, denormals, whatever the memory held."""
        x = np.asarray(x, float)
        if np.all(np.isfinite(x)) and (x.size == 0 or np.max(np.abs(x)) <= 1e12):
            return True
        self.acc.count('obs:callback-at-meaningless-point-not-compared')
        return False

    def uninstall(self):
        """drop the wrappers (instance attributes) so that the driver can be monitored again in a later run."""
        for nm in ('_objfunc', '_con_val_func', '_confunc', '_gradfunc', '_congradfunc'):
            self.drv.__dict__.pop(nm, None)

    def install(self):
        drv = self.drv
        o_obj, o_cv, o_cf, o_g, o_cg = (drv._objfunc, drv._con_val_func, drv._confunc, drv._gradfunc,
                                        drv._congradfunc)

        def objfunc(x):
            r = o_obj(x)
            self.last_obj_x = np.array(x, float)
            if drv._exc_info is None and self._comparable(x):
                fref = self.sr.f(x)
                self.acc.count('obs:callback-objective')
                if abs(float(np.ravel(r)[0]) - fref) > 1e-9 * (1 + abs(fref)) + 1e-13 * self.sr.f_mag(x):
                    self.obj_wrong += 1
            return r

        def con_val_func(x, name, dbl, idx):
            r = o_cv(x, name, dbl, idx)
            self._check_value(x, name, idx, float(r), 'value')
            return r

        def confunc(x, name, dbl, idx):
            r = o_cf(x, name, dbl, idx)
            self._check_value(x, name, idx, float(r), 'residual')
            return r

        def gradfunc(x):
            r = o_g(x)
            if drv._exc_info is None and self._comparable(x):
                self.acc.count('obs:callback-gradient')
                gr = self.sr.grad_f(x)
                tol = 1e-8 * (1 + np.max(np.abs(gr)))
                if np.shape(r) != gr.shape or np.max(np.abs(np.asarray(r) - gr)) > tol:
                    g2 = None if self.last_obj_x is None else self.sr.grad_f(self.last_obj_x)
                    if g2 is not None and np.shape(r) == g2.shape and np.max(np.abs(np.asarray(r) - g2)) <= tol:
                        self.grad_stale += 1
                    else:
                        self.grad_wrong += 1
            return r

        def congradfunc(x, name, dbl, idx):
            r = o_cg(x, name, dbl, idx)
            if drv._exc_info is None and self._comparable(x):
                self.acc.count('obs:callback-constraint-gradient')
                row = self.sr.jac_g(x, name)[int(idx)]
                r_ = np.asarray(r, float).ravel()
                tol = 1e-8 * (1 + np.max(np.abs(row)))
                # sign the optimizer needs: new-style constraints and equalities are given as values
                # (Jacobian of the value); an old-style inequality is 'upper - g' when it is the second
                # (dbl) entry or has no lower bound, else 'g - lower'
                eq = self.cons_by_key[name]['d'].get('equals') is not None
                if self.new_style or eq:
                    sgn = 1.0
                else:
                    sgn = -1.0 if (dbl or self.sr.lo[name][int(idx)] <= -af.INF_BOUND) else 1.0
                if r_.shape != row.shape or np.max(np.abs(r_ - sgn * row)) > tol:
                    alt = self.sr.jac_g_without_units(name)[int(idx)]
                    if r_.shape == row.shape and np.max(np.abs(r_ + sgn * row)) <= tol and \
                            np.max(np.abs(row)) > tol:
                        self.congrad_negated += 1
                    elif r_.shape == alt.shape and min(np.max(np.abs(r_ - alt)), np.max(np.abs(r_ + alt))) <= tol:
                        self.congrad_nounits += 1
                    else:
                        self.congrad_wrong += 1
            return r

        drv._objfunc = objfunc
        drv._con_val_func = con_val_func
        drv._confunc = confunc
        drv._gradfunc = gradfunc
        drv._congradfunc = congradfunc

    def _check_value(self, x, name, idx, r, kind):
        if not self._comparable(x):
            return
        self.acc.count('obs:callback-constraint')
        idx = int(idx)
        cands = [('now', x)]
        if self.last_obj_x is not None and not np.array_equal(self.last_obj_x, x):
            cands.append(('stale', self.last_obj_x))
        matched = None
        eq = self.cons_by_key[name]['d'].get('equals') is not None
        for tag, xx in cands:
            g = self.sr.g(xx, name)
            lo = self.sr.lo[name][idx]
            hi = self.sr.hi[name][idx]
            if kind == 'value':
                opts = [('both', g[idx])]
            elif eq:
                opts = [('both', g[idx] - lo)]
            else:
                opts = [('lower', g[idx] - lo), ('upper', hi - g[idx])]
            mag = self.sr.g_mag(xx, name)[idx]
            for side, v in opts:
                # (round-off of the affine map: relative to the terms that are summed, not to their sum)
                if abs(r - v) <= 1e-9 * (1 + abs(v)) + 1e-13 * mag:
                    # the residual of an absent bound (+-1e30 -+ g) is a legitimate, always satisfied
                    # entry; it does not present any bound of the element to the optimizer
                    matched = (tag, side if abs(v) < af.INF_BOUND / 10 else 'none')
                    break
            if matched:
                break
        if matched is None:
            self.wrong += 1
            return
        if matched[0] == 'stale':
            self.stale += 1
        side = matched[1]
        for sd in (('lower', 'upper') if side == 'both' else (() if side == 'none' else (side,))):
            self.sides.add((name, idx, sd))

    def label(self, style):
        """Mechanism label from the callback monitors (None = every value handed to scipy was right)."""
        if self.stale:
            return '%s:constraint-callback-returns-values-of-previous-point' % style
        if self.congrad_negated:
            return '%s:constraint-gradient-callback-has-opposite-sign' % style
        if self.congrad_nounits:
            return '%s:linear-constraint-gradient-ignores-declared-units' % style
        if self.wrong:
            return '%s:constraint-callback-value-mismatch' % style
        if self.congrad_wrong:
            return '%s:constraint-gradient-callback-mismatch' % style
        if self.grad_stale:
            return '%s:objective-gradient-callback-returns-gradient-of-previous-point' % style
        if self.grad_wrong:
            return '%s:objective-gradient-callback-mismatch' % style
        if self.obj_wrong:
            return '%s:objective-callback-mismatch' % style
        if self.args_label:
            return '%s:%s' % (style, self.args_label)
        return None

    # ---- what was handed to scipy.optimize.minimize ------------------------------------------
    def linear_constraint_report(self):
        """Compare captured scipy LinearConstraint objects with the reference (trust-constr, linear=True).

        -> {con key: mechanism or None}
        """
        out = {}
        cap = self.captured or {}
        objs = [c for c in (cap.get('constraints') or []) if type(c).__name__ == 'LinearConstraint']
        lin = [c for c in self.ref.cons if c['d'].get('linear')]
        zero = np.zeros(self.sr.n)
        for i, c in enumerate(lin):
            if i >= len(objs):
                out[c['key']] = 'not-passed-to-optimizer'
                continue
            A = np.atleast_2d(np.asarray(objs[i].A, float))
            J = self.sr.jac_g(zero, c['key'])
            if A.shape != J.shape:
                out[c['key']] = 'jacobian-has-%s-row-for-array-constraint' % ('one' if A.shape[0] == 1 else 'wrong')
                continue
            if np.max(np.abs(A - J)) > 1e-8 * (1 + np.max(np.abs(J))):
                alt = self.sr.jac_g_without_units(c['key'])
                out[c['key']] = 'jacobian-ignores-declared-units' if \
                    np.max(np.abs(A - alt)) <= 1e-8 * (1 + np.max(np.abs(alt))) else 'jacobian-mismatch'
                continue
            k0 = self.sr.g(zero, c['key'])            # constant term of the affine map x_s -> g_s
            lo, hi = self.sr.lo[c['key']], self.sr.hi[c['key']]
            lb = np.asarray(objs[i].lb, float) * np.ones(c['size'])
            ub = np.asarray(objs[i].ub, float) * np.ones(c['size'])
            ok = True
            for k in range(c['size']):
                for got, want in ((lb[k], lo[k]), (ub[k], hi[k])):
                    if abs(want) >= af.INF_BOUND:
                        if abs(got) < af.INF_BOUND / 10:
                            ok = False
                    elif abs(got - (want - k0[k])) > 1e-8 * (1 + abs(want) + abs(k0[k])):
                        ok = False
            out[c['key']] = None if ok else 'constant-term-of-affine-constraint-ignored'
        return out


class _Noisy:
    """ScaledRef whose values carry a relative perturbation of round-off size (eps ~ 1e-13): what any other
    correct implementation of the same callbacks would hand to scipy."""

    def __init__(self, sr, eps, seed):
        self._sr = sr
        self._eps = eps
        self._rng = np.random.default_rng(seed)
        self.ref, self.lo, self.hi, self.n = sr.ref, sr.lo, sr.hi, sr.n

    def _p(self, v):
        v = np.asarray(v, float)
        return v * (1.0 + self._eps * self._rng.standard_normal(v.shape))

    def f(self, x):
        return float(self._p(self._sr.f(x)))

    def g(self, x, key):
        return self._p(self._sr.g(x, key))

    def grad_f(self, x):
        return self._p(self._sr.grad_f(x))

    def jac_g(self, x, key):
        return self._p(self._sr.jac_g(x, key))


ROUNDOFF_TRIALS = 10


def outcome_is_roundoff_sensitive(opt, mon, drv, zs, tol):
    """True when scipy's optimizer, given the correctly posed problem with callback values perturbed at
    round-off level (1e-13 relative), misses the optimum in at least one of ROUNDOFF_TRIALS runs: then
    missing it is the optimizer's own instability (seen: COBYQA stopping on its minimum trust radius at a
    non-stationary point in ~1 of 7 perturbed runs), not evidence about the values OpenMDAO supplied."""
    for t in range(ROUNDOFF_TRIALS):
        xc = run_control(opt, mon, drv, noise=(1e-13, 7001 + t))
        if xc is None or np.max(np.abs(mon.sr.z(xc) - zs)) > tol:
            return True
    return False


def driver_outcome_is_roundoff_sensitive(p, drv, spec, mon, zs, tol, z_restore, acc):
    """The mirror image of outcome_is_roundoff_sensitive on OpenMDAO's side: run_driver() is repeated
    ROUNDOFF_TRIALS times on the same Problem from the same start point moved by 1e-13 relative.  True when
    at least one repetition reports success at the optimum: then the miss that is being judged is one draw
    of an outcome that flips under perturbations of round-off size (seen: COBYQA, every value handed to scipy
    within 1 ulp of the reference, the iterates of the driver's run and of the control run separate at the
    12th evaluation and one of the two stops on its minimum trust radius 0.016 from the optimum), and a
    systematic fault in how OpenMDAO poses the problem would miss every time.  The model is put back at
    `z_restore` afterwards (a later run of a history may start from there)."""
    from omv.gen import qpmodel
    cap = mon.captured
    rng = np.random.default_rng(9001)
    z0 = np.asarray(spec['x0'], float)
    hit = False
    try:
        for t in range(ROUNDOFF_TRIALS):
            qpmodel.set_z(p, spec, z0 + 1e-13 * (1.0 + np.abs(z0)) * rng.standard_normal(z0.size))
            acc.count('obs:driver-side-roundoff-repetitions')
            try:
                p.run_driver()
            except Exception:
                continue
            r = drv._scipy_optimize_result
            if bool(drv.result.success) and not drv.fail and \
                    np.max(np.abs(mon.sr.z(np.asarray(r.x, float).ravel()) - zs)) <= tol:
                hit = True
                break
    finally:
        mon.captured = cap
        try:
            qpmodel.set_z(p, spec, z_restore)
            p.run_model()
        except Exception:
            pass
    return hit


def run_control(opt, mon, drv, absent=np.inf, noise=None):
    """The same optimizer-space problem posed directly to scipy from the reference formulas, with the
    same options.  Returns x or None (control failed / raised).  `absent` is the number used for an
    absent bound of a new-style constraint (np.inf, or 1e30 to mimic a finite "infinity")."""
    from scipy.optimize import minimize, NonlinearConstraint, LinearConstraint
    sr = mon.sr if noise is None else _Noisy(mon.sr, noise[0], noise[1])
    cap = mon.captured or {}
    x0 = np.array(cap.get('x0'), float)
    cons = []
    if opt in NEW_STYLE:
        # same layout as the driver documents (one NonlinearConstraint per element; a LinearConstraint
        # with keep_feasible for linear=True under trust-constr), so that scipy's own behaviour on the
        # correctly posed problem (e.g. trust-constr stopping on its gtol test while the barrier
        # parameter is still large) shows up in the control run as well and is not blamed on OpenMDAO
        zero = np.zeros(sr.n)
        for c in sr.ref.cons:
            key = c['key']
            lo_inf = sr.lo[key] <= -af.INF_BOUND
            hi_inf = sr.hi[key] >= af.INF_BOUND
            if c['d'].get('linear') and opt == 'trust-constr':
                k0 = mon.sr.g(zero, key)
                cons.append(LinearConstraint(mon.sr.jac_g(zero, key), np.where(lo_inf, -absent, sr.lo[key] - k0),
                                             np.where(hi_inf, absent, sr.hi[key] - k0), keep_feasible=True))
                continue
            lo = np.where(lo_inf, -absent, sr.lo[key])
            hi = np.where(hi_inf, absent, sr.hi[key])
            for k in range(c['size']):
                cons.append(NonlinearConstraint(lambda x, key=key, k=k: sr.g(x, key)[k], lo[k], hi[k],
                                                jac=lambda x, key=key, k=k: sr.jac_g(x, key)[k]))
    else:
        for c in sr.ref.cons:
            key = c['key']
            eq = c['d'].get('equals') is not None
            for k in range(c['size']):
                if eq:
                    cons.append({'type': 'eq', 'fun': lambda x, key=key, k=k: sr.g(x, key)[k] - sr.lo[key][k],
                                 'jac': lambda x, key=key, k=k: sr.jac_g(x, key)[k]})
                    continue
                if sr.lo[key][k] > -af.INF_BOUND:
                    cons.append({'type': 'ineq',
                                 'fun': lambda x, key=key, k=k: sr.g(x, key)[k] - sr.lo[key][k],
                                 'jac': lambda x, key=key, k=k: sr.jac_g(x, key)[k]})
                if sr.hi[key][k] < af.INF_BOUND:
                    cons.append({'type': 'ineq',
                                 'fun': lambda x, key=key, k=k: sr.hi[key][k] - sr.g(x, key)[k],
                                 'jac': lambda x, key=key, k=k: -sr.jac_g(x, key)[k]})
        if opt == 'COBYLA':
            for cd in cons:
                cd.pop('jac')
    kw = dict(method=opt, bounds=cap.get('bounds'), constraints=cons, tol=cap.get('tol'),
              options=dict(cap.get('options') or {}))
    if opt in ('SLSQP', 'trust-constr'):
        kw['jac'] = sr.grad_f
    if opt == 'trust-constr':
        from scipy.optimize import BFGS
        kw['hess'] = BFGS()
    try:
        r = minimize(sr.f, x0, **kw)
    except Exception:
        return None
    if not r.success:
        return None
    return np.asarray(r.x, float)


def classify_element(opt, mon, c, k, side, linrep):
    """Mechanism key for a violated constraint element of a reported success, or None when every monitor
    says the problem was posed correctly (then the optimizer itself is to blame)."""
    cd = c['d']
    lin = bool(cd.get('linear')) and opt in LIN_AS_OBJECT
    style = 'new-style' if opt in NEW_STYLE else 'old-style'
    if lin:
        m = linrep.get(c['key'])
        return None if m is None else 'new-style-linear-constraint:%s:element-violated' % m
    if (c['key'], k, side) not in mon.sides:
        # the optimizer was never shown this bound of this element
        pat = cd.get('pat') or '?'
        if style == 'old-style':
            what = 'upper-of-two-sided-element' if (side == 'upper' and pat[k] == 'B') else side
            return 'old-style:%s-never-passed-to-optimizer:%s:element-violated' % (
                what, 'array-bounds' if isinstance(cd.get(side), list) else 'scalar-bounds')
        return 'new-style:element-never-passed-to-optimizer:%s:element-violated' % (
            'not-last-element' if k != c['size'] - 1 else 'last-element')
    lab = mon.label(style)
    return None if lab is None else lab + ':element-violated'


def _truly_feasible_start(ref, z0, only_linear=True, slack=-1e-9, with_bounds=False):
    """The start satisfies the linear constraints (and the design-variable bounds) with the relative
    slack `slack` (negative = may violate them by that much)."""
    g = ref.g(z0)
    vois = [(c, g[c['rows']]) for c in ref.cons if c['d'].get('linear') or not only_linear]
    if with_bounds:
        vois += [(d, np.asarray(z0, float)[d['pos']]) for d in ref.dvs]
    for c, vm in vois:
        vd = af.to_units(vm, c['munits'], c['units'])
        lo, hi = ref.bounds(c)
        s, a = af.scaler_adder(c['sc'], c['size'])
        # judged in the optimizer's space, where scipy tests it
        vs, los, his = (vd + a) * s, (lo + a) * s, (hi + a) * s
        los = np.where(lo <= -af.INF_BOUND, -np.inf, los)
        his = np.where(hi >= af.INF_BOUND, np.inf, his)
        los, his = np.minimum(los, his), np.maximum(los, his)
        if np.any(vs < los + slack * (1 + np.abs(los))) or np.any(vs > his - slack * (1 + np.abs(his))):
            return False
    return True


def _guards(ref, spec, opt, acc):
    """-> exact solution, or None after acc.skip (problem outside the domain the oracle covers)."""
    has_eq = any(c.get('equals') is not None for c in spec['cons'])
    if has_eq and opt not in EQ_OPTS:
        acc.skip('equality-not-supported-by-optimizer')
        return None
    if not well_scaled(ref):
        acc.skip('ill-scaled-in-optimizer-space')
        return None
    ex = ref.exact()
    if ex is None:
        acc.skip('reference-infeasible')
        return None
    if max(ex['qp']['kkt']) > 1e-8:
        acc.skip('reference-kkt-not-certified')
        return None
    return ex


def _new_driver(case):
    return make_global_driver(case['opt'], case['gopts']) if case['opt'] in GLOBAL_OPTS else make_driver(case['opt'])


def _settings_structure(case):
    """the optimizer settings of a case without the random seed (for fingerprints / cells)."""
    g = case.get('gopts')
    if not g:
        return None
    return sorted((k, str(v)) for k, v in dict(g.get('settings') or {}, maxiter_option=g.get('maxiter')).items()
                  if k != 'seed')


def judge(case, acc):
    if case.get('stages') is not None:
        return judge_history(case, acc)
    import openmdao.api as om   # noqa
    from omv.gen import qpmodel
    opt = case['opt']
    variant = case['variant']
    spec = qphist.effective(case['spec'])
    ref = qpspec.RefModel(spec)
    fp = fingerprint({'st': qpspec.structure(spec), 'opt': opt, 'variant': variant, 'g': _settings_structure(case)})
    ex = _guards(ref, spec, opt, acc)
    if ex is None:
        return
    drv = _new_driver(case)
    p = None
    try:
        p, comp = qpmodel.build(case['spec'], driver=drv)
        p.final_setup()
        info = run_and_judge(p, drv, spec, ref, ex, opt, variant, case, acc, fp)
        if opt in GLOBAL_OPTS:
            acc.count('cell:global/%s/%s' % (opt, ','.join('%s=%s' % kv for kv in _settings_structure(case))))
    finally:
        if p is not None:
            try:
                p.cleanup()
            except Exception:
                pass
    if case.get('fault') and info['status'] in ('ok', 'skip', 'failed', 'viol') and info.get('n_ret') is not None:
        judge_fault(case, spec, ref, ex, info, acc)


class _Injected(Exception):
    pass


def judge_fault(case, spec, ref, ex, clean, acc):
    """Failpoint stratum.  `clean` = the run of this case without a fault (it logged how many model evaluations
    the optimizer made and whether the driver evaluated the model again after the optimizer had returned).
    A fresh, identical Problem is run with the component raising om.AnalysisError at ONE evaluation:
      'restore' - the evaluation the driver makes after the optimizer returned (the model being put at the
                  returned design), when there is one;
      'mid'     - one of the evaluations the optimizer asks for (not the first one, which run() makes itself).
    run_driver() may raise or report failure; when it reports success the model must still be AT the returned
    design (inputs = returned x, outputs = those of these inputs - impossible when the evaluation at the returned
    design is the one that raised and the exception was swallowed).  Then
    the SAME Problem/driver is run again without the fault from the original start and judged by the full
    oracle (keys prefixed rerun-after-model-exception:): nothing of the aborted run may leak into it."""
    import openmdao.api as om
    from omv.gen import qpmodel
    opt = case['opt']
    kind = case['fault']['kind']
    n0, n_ret, n_tot = clean['n0'], clean['n_ret'], clean['n_tot']
    if kind == 'restore':
        if n_tot <= n_ret:
            acc.skip('fault-stratum:no-evaluation-after-the-optimizer-returned')
            return
        k_abs = n_ret
    else:
        if n_ret - n0 < 3:
            acc.skip('fault-stratum:too-few-evaluations')
            return
        k_abs = n0 + 1 + int(case['fault']['u'] * (n_ret - n0 - 1))
    fp = fingerprint({'st': qpspec.structure(spec), 'opt': opt, 'variant': case['variant'], 'fault': kind,
                      'g': _settings_structure(case)})
    drv = _new_driver(case)
    p = None
    try:
        p, comp = qpmodel.build(case['spec'], driver=drv)
        p.final_setup()
        orig = comp.compute
        st = {'armed': True, 'hit': 0}

        def compute(inputs, outputs, *a, **kw):
            if st['armed'] and len(comp.evals) == k_abs:
                st['armed'] = False
                st['hit'] += 1
                comp.evals.append(np.array(comp._z(inputs), float))
                raise om.AnalysisError('omv: injected failure of the model evaluation')
            return orig(inputs, outputs, *a, **kw)
        comp.compute = compute
        raised = None
        try:
            p.run_driver()
        except Exception as e:   # noqa
            raised = e
        st['armed'] = False
        comp.compute = orig
        if not st['hit']:
            # (the twin did not repeat the evaluation sequence of the clean run)
            acc.skip('fault-stratum:failpoint-not-reached')
            return
        acc.count('obs:fault-injected:%s' % kind)
        acc.count('obs:fault-injected:%s:%s' % (kind, 'global' if opt in GLOBAL_OPTS else 'minimize'))
        if raised is None and bool(drv.result.success) and not drv.fail:
            # success although the model raised (the documentation leaves the reaction to an AnalysisError to the
            # optimizer): what the property demands of a reported success still holds - the model is AT the
            # returned design, i.e. inputs = returned x and outputs = those of these inputs (they cannot be when
            # the evaluation that raised was the one at the returned design)
            xret = np.asarray(drv._scipy_optimize_result.x, float).ravel()
            z = ScaledRef(ref, spec['x0']).z(xret)
            finds = model_state_findings(p, ref, opt, xret, z, qpmodel.get_z(p, spec), {}, acc)
            for i, (key, what) in enumerate(finds):
                acc.viol('success-reported-although-the-model-raised-at-%s:%s' % (
                    'the-final-evaluation-at-the-returned-design' if kind == 'restore' else
                    'an-evaluation-the-optimizer-asked-for', key),
                    'AnalysisError raised by the component at model evaluation #%d of %d; run_driver() returned '
                    'success; %s' % (k_abs - n0 + 1, n_tot - n0, what), case, fp=fp, new_case=(i == 0))
            if finds:
                return
            acc.count('obs:fault-outcome:success-with-the-model-at-the-returned-design')
            raised = 'success'
        if raised != 'success':
            acc.count('obs:fault-outcome:%s' % ('reported-failure' if raised is None else (
                'AnalysisError-raised' if isinstance(raised, om.AnalysisError) else 'other-exception-raised')))
        # ---- the same Problem again, without the fault, from the original start
        qpmodel.set_z(p, spec, spec['x0'])
        info = run_and_judge(p, drv, spec, ref, ex, opt, case['variant'], case, acc, fp,
                             pre='rerun-after-model-exception:')
        if info['status'] in ('ok', 'viol'):
            acc.count('obs:rerun-after-model-exception-judged')
    finally:
        if p is not None:
            try:
                p.cleanup()
            except Exception:
                pass


class _PoseOnly(Exception):
    """raised by the spy in place of scipy.optimize.minimize when only its arguments are wanted."""


def run_and_judge(p, drv, spec, ref, ex, opt, variant, case, acc, fp, pre='', warm=False, pose_only=False):
    """One run_driver() of `p` (set up, start point already set) judged against the reference `ref` of the
    plain spec `spec` (start point spec['x0']).  `pre` is prepended to every mechanism key.
    -> {'status': raised|refused|failed|skip|ok|viol, 'mon': Monitor, 'z': reported design or None}
    (refused = scipy rejected a start point that really is infeasible: discarded, the Problem stays usable;
    posed = pose_only: run_driver() was stopped at the call of scipy.optimize.minimize, arguments captured)"""
    import openmdao.drivers.scipy_optimizer as so
    from omv.gen import qpmodel
    has_eq = any(c.get('equals') is not None for c in spec['cons'])
    has_lin = any(c.get('linear') for c in spec['cons'])
    neg = variant.startswith('neg')
    cell = 'cell:%s/%s/%s' % (opt, variant, 'eq' if has_eq else ('lin' if has_lin else 'nl'))
    glob = opt in GLOBAL_OPTS
    if glob:
        # (the driver imports these from scipy.optimize at the moment it calls them)
        import scipy.optimize as spy_mod
        spy_name = opt
    else:
        spy_mod, spy_name = so, 'minimize'
    orig_min = getattr(spy_mod, spy_name)
    comp = p.model._get_subsystem('qp')
    info = {'status': None, 'mon': None, 'z': None, 'n0': len(comp.evals), 'n_ret': None}

    def viol(key, what, **kw):
        info['status'] = 'viol'
        acc.viol(pre + key, what, case, fp=fp, **kw)

    def skip(reason):
        info['status'] = 'skip'
        acc.skip(reason)

    try:
        mon = Monitor(drv, ref, spec['x0'], acc)
        info['mon'] = mon
        mon.install()

        def spy(fun, *a, **kw):
            x0 = a[0] if a else kw.get('x0')
            mon.captured = dict(kw, x0=None if x0 is None else np.array(x0, float))
            acc.count('obs:minimize-arguments-captured')
            if pose_only:
                raise _PoseOnly()
            r = orig_min(fun, *a, **kw)
            # the last point the optimizer evaluated the model at (the component logs every evaluation)
            info['n_ret'] = len(comp.evals)
            info['z_last'] = np.array(comp.evals[-1], float) if comp.evals else None
            return r
        setattr(spy_mod, spy_name, spy)
        try:
            p.run_driver()
        except _PoseOnly:
            info['status'] = 'posed'
            return info
        except Exception as e:   # noqa
            where = _where(e)
            msg = str(e)
            lin_tc = has_lin and opt == 'trust-constr'
            info['status'] = 'raised'
            if warm and opt == 'trust-constr' and 'infeasible' in msg and \
                    not _truly_feasible_start(ref, ref.x0, slack=1e-9, with_bounds=True):
                # a run started where the previous one ended: a point ON an active bound / linear
                # constraint is outside it by round-off as often as not, and scipy's keep_feasible refuses it
                acc.skip('trust-constr-keep_feasible-refuses-warm-start-on-the-boundary')
                info['status'] = 'refused'
                return info
            if 'omv: injected failure' in msg:
                # (failpoint stratum, run after the fault was removed)
                key = 'exception-of-the-aborted-run-raised-again:%s' % ('global' if glob else 'minimize')
            elif neg:
                key = 'neg-scaler:%s:raises:%s@%s' % (variant, type(e).__name__, where)
            elif glob:
                holes = any('N' in (c.get('pat') or '') for c in spec['cons'])
                if opt == 'shgo' and isinstance(e, IndexError) and holes and mon.captured is not None:
                    key = 'run_driver-raises:shgo:constraint-element-without-any-bound:IndexError@%s' % where
                elif opt == 'shgo' and has_lin and 'keep_feasible' in msg:
                    key = 'run_driver-raises:shgo:linear-constraint-passed-with-keep_feasible:%s@%s' % (
                        type(e).__name__, where)
                else:
                    key = 'run_driver-raises:%s:%s@%s:%s' % (opt, type(e).__name__, where, _stratum(spec))
            elif lin_tc:
                linrep = mon.linear_constraint_report() if mon.captured is not None else {
                    c['key']: ('array-constraint-rejected-before-minimize' if c['size'] > 1 else
                               'rejected-before-minimize') for c in ref.cons if c['d'].get('linear')}
                mech = _primary(m for m in linrep.values() if m)
                if not mech and 'infeasible' in msg and not _truly_feasible_start(ref, ref.x0):
                    # keep_feasible=True is how the driver documents it passes linear constraints; scipy
                    # then (loudly) refuses a start that really violates them
                    acc.skip('trust-constr-linear-constraint-refuses-truly-infeasible-start')
                    info['status'] = 'refused'
                    return info
                key = 'run_driver-raises:new-style-linear-constraint:%s:%s@%s' % (
                    mech or 'correctly-posed', type(e).__name__, where)
            else:
                key = 'run_driver-raises:%s:%s@%s:%s' % (opt, type(e).__name__, where, _stratum(spec))
            viol(key, '%s: %s' % (type(e).__name__, msg[:240]))
            info['status'] = 'raised'
            return info
        finally:
            setattr(spy_mod, spy_name, orig_min)
            mon.uninstall()
        info['n_tot'] = len(comp.evals)
        success = bool(drv.result.success) and not drv.fail
        acc.count(cell)
        if mon.stale:
            acc.count('obs:runs-with-stale-constraint-values:' + opt)
        style = 'new-style' if opt in NEW_STYLE else 'old-style'
        if not neg and opt != 'basinhopping':
            # what was handed to scipy.optimize.minimize, against the declaration (every run, not only when
            # a violation needs an explanation: a stale bound that is too tight only costs optimality)
            # (scipy's basinhopping takes no bounds; the driver emulates them in its accept_test)
            mon.args_label = _arguments_label(mon, ref, opt, acc)
        lab = mon.label(style)
        info['lab'] = lab
        info['success'] = success
        if not success:
            acc.count('obs:reported-failure:' + opt)
            skip('optimizer-reported-failure')
            info['status'] = 'failed'
            return info
        acc.count('obs:success:' + opt)
        res = drv._scipy_optimize_result
        z_model = qpmodel.get_z(p, spec)
        linrep = mon.linear_constraint_report() if (has_lin and opt in LIN_AS_OBJECT) else {}
        if linrep and pre:
            acc.count('obs:history-rerun-linear-jacobian-compared')
        bad = []
        blamed_scipy = False
        # ---- (i) model left at the returned design (compared in optimizer space)
        xret = np.asarray(res.x, float).ravel()
        z = mon.sr.z(xret)                                # the reported design, model units
        bad += model_state_findings(p, ref, opt, xret, z, z_model, info, acc)
        info['z'] = z
        if lab:
            acc.count('obs:anomaly:%s%s' % ('neg-scaler-stratum:' if neg else '', lab))
        # ---- guard for trust-constr: only judge what scipy itself claims converged
        judge_feas = True
        judge_opt = True
        premature_gtol = False
        if opt == 'trust-constr':
            cv = float(getattr(res, 'constr_violation', 0.0))
            og = float(getattr(res, 'optimality', 0.0))
            if cv > 1e-7:
                judge_feas = False
                acc.count('guard:trust-constr-own-constr_violation')
            if og > 1e-7 or cv > 1e-7:
                judge_opt = False
                acc.count('guard:trust-constr-own-optimality')
            # scipy's interior point variant stops as soon as its optimality measure (Lagrangian gradient
            # with least-squares multipliers; identically ~0 for n=1) passes gtol, even when the barrier
            # parameter mu has not been driven to barrier_tol (= tol = 1e-10 here); the returned point is
            # then a central-path point O(mu) away from the optimum.  A miss of the optimum is then not
            # blamed on OpenMDAO unless a monitor saw the driver hand scipy something wrong.
            bp = getattr(res, 'barrier_parameter', None)
            anomaly = bool(lab) or any(linrep.values()) or _finite_infinity_passed(mon)
            premature_gtol = (not anomaly and getattr(res, 'method', '') == 'tr_interior_point'
                              and bp is not None and float(bp) > 1e-7)
        # ---- (ii) elementwise feasibility of the reported design (harness evaluation)
        g = ref.g(z)
        nel = 0
        unenforced_inactive = 0
        infeasible = False
        if judge_feas:
            for c in ref.cons:
                vd = af.to_units(g[c['rows']], c['munits'], c['units'])
                lo, hi = ref.bounds(c)
                s, a = af.scaler_adder(c['sc'], c['size'])
                cd = c['d']
                if len(set(cd.get('pat') or 'x')) > 1 and isinstance(cd.get('lower') or cd.get('upper'), list):
                    acc.count('obs:array-bounds-mixed-pattern')
                for k in range(c['size']):
                    nel += 1
                    for side, bnd, sign in (('lower', lo[k], -1.0), ('upper', hi[k], 1.0)):
                        if abs(bnd) >= af.INF_BOUND:
                            continue
                        viol_d = sign * (vd[k] - bnd)
                        tol_d = FEAS_TOL * (1.0 + abs((bnd + a[k]) * s[k])) / abs(s[k])
                        # side as the optimizer sees it (a negative scaler reverses the orientation)
                        oside = side if s[k] > 0 else ('upper' if side == 'lower' else 'lower')
                        shown = (c['key'], k, oside) in mon.sides
                        if viol_d > tol_d:
                            infeasible = True
                            what = 'constraint %s[%d]=%.9g violates %s=%.9g by %.3g (tol %.1g) at reported ' \
                                'z=%s' % (c['key'], k, vd[k], side, bnd, viol_d, tol_d, z.tolist())
                            if neg:
                                bad.append(('neg-scaler:%s:success-with-violated-constraint' % variant, what))
                                continue
                            key = classify_element(opt, mon, c, k, side, linrep)
                            if key is None:
                                blamed_scipy = True
                                acc.count('guard:violation-on-correctly-posed-problem:' + opt)
                            else:
                                bad.append((key, what))
                        elif not shown and not (cd.get('linear') and opt in LIN_AS_OBJECT):
                            unenforced_inactive += 1
            for d in ref.dvs:
                vd = af.to_units(z[d['pos']], d['munits'], d['units'])
                lo, hi = ref.bounds(d)
                s, a = af.scaler_adder(d['sc'], d['size'])
                for k in range(d['size']):
                    nel += 1
                    for side, bnd, sign in (('lower', lo[k], -1.0), ('upper', hi[k], 1.0)):
                        if abs(bnd) >= af.INF_BOUND:
                            continue
                        viol_d = sign * (vd[k] - bnd)
                        tol_d = FEAS_TOL * (1.0 + abs((bnd + a[k]) * s[k])) / abs(s[k])
                        if viol_d > tol_d and opt == 'basinhopping':
                            # scipy's basinhopping knows no bounds; the driver only rejects hops that end
                            # outside them (accept_test), the local minimizations are unbounded: not judged
                            acc.count('obs:basinhopping-design-outside-desvar-bounds')
                            infeasible = True
                            continue
                        if viol_d > tol_d:
                            infeasible = True
                            what = 'design var %s[%d]=%.9g violates %s=%.9g by %.3g' % (
                                d['key'], k, vd[k], side, bnd, viol_d)
                            if neg:
                                bad.append(('neg-scaler:%s:success-with-violated-desvar-bound' % variant, what))
                                continue
                            # are the bounds handed to scipy the image of the declared ones ?
                            if _bounds_ok(mon, ref):
                                blamed_scipy = True
                                acc.count('guard:violation-on-correctly-posed-problem:' + opt)
                            else:
                                bad.append(('%s:desvar-bounds-passed-to-optimizer-wrong:%s' % (
                                    opt, 'array' if isinstance(d['d'].get(side), list) else 'scalar'), what))
            acc.count('obs:feasible-elements', nel)
            if unenforced_inactive:
                acc.count('obs:bound-sides-never-shown-to-optimizer-but-satisfied', unenforced_inactive)
        # ---- (iii) optimum
        if judge_opt and not infeasible:
            zs = ex['z']
            condQ = float(np.linalg.cond(ref.Q))
            tol = 1e-4 * (1.0 + np.max(np.abs(zs))) * np.sqrt(condQ)
            err = float(np.max(np.abs(z - zs)))
            acc.count('obs:optimum-compared')
            if np.any(ex['qp']['active'] != 0):
                acc.count('obs:active-at-optimum')
            acc.count('obs:err-decade:%s:%s' % (opt, 'le1e-8' if err <= 1e-8 else
                                                ('le1e-6' if err <= 1e-6 else
                                                 ('le1e-5' if err <= 1e-5 else 'gt1e-5'))))
            if err > tol:
                fgap = ref.f(z) - ex['f']
                what = 'reported z=%s, exact optimum %s (err %.3g > tol %.3g, f gap %.3g)' % (
                    z.tolist(), zs.tolist(), err, tol, fgap)
                style = 'new-style' if opt in NEW_STYLE else 'old-style'
                lin_m = _primary(m for m in linrep.values() if m)
                if neg:
                    bad.append(('neg-scaler:%s:not-the-optimum' % variant, what))
                elif premature_gtol:
                    blamed_scipy = True
                    acc.count('guard:trust-constr-stopped-on-gtol-before-barrier-parameter-reduced')
                elif lab:
                    bad.append((lab + ':not-the-optimum', what))
                elif glob and not lin_m:
                    # shgo confines its local minimizations to the star of a sampling vertex, differential
                    # evolution without polish / dual annealing stopped by maxiter end near, not at, the
                    # optimum: with every value handed to scipy observed correct, a miss is scipy's
                    acc.count('guard:global-optimizer-misses-optimum-on-correctly-posed-problem:' + opt)
                elif lin_m:
                    bad.append(('new-style-linear-constraint:%s:not-the-optimum' % lin_m, what))
                else:
                    xc = run_control(opt, mon, drv)
                    acc.count('obs:control-runs')
                    if xc is not None and np.max(np.abs(mon.sr.z(xc) - zs)) <= tol and not (
                            _finite_infinity_passed(mon) and opt in NEW_STYLE) and \
                            outcome_is_roundoff_sensitive(opt, mon, drv, zs, tol):
                        blamed_scipy = True
                        acc.count('guard:optimizer-outcome-sensitive-to-roundoff:' + opt)
                    elif xc is not None and np.max(np.abs(mon.sr.z(xc) - zs)) <= tol and not (
                            _finite_infinity_passed(mon) and opt in NEW_STYLE) and \
                            driver_outcome_is_roundoff_sensitive(p, drv, spec, mon, zs, tol, z_model, acc):
                        blamed_scipy = True
                        acc.count('guard:optimizer-outcome-sensitive-to-roundoff-of-the-start-point:' + opt)
                    elif xc is not None and np.max(np.abs(mon.sr.z(xc) - zs)) <= tol:
                        key = '%s:not-the-optimum-while-control-run-converges:%s' % (opt, _stratum(spec))
                        if opt in NEW_STYLE and _finite_infinity_passed(mon):
                            # second control: identical, but absent bounds given as the finite number 1e30
                            x2 = run_control(opt, mon, drv, absent=af.INF_BOUND)
                            if x2 is None or np.max(np.abs(mon.sr.z(x2) - zs)) > tol:
                                key = 'new-style:absent-bound-passed-as-finite-1e30:not-the-optimum'
                        bad.append((key, what))
                    else:
                        blamed_scipy = True
                        acc.count('guard:control-run-misses-optimum-too:' + opt)
        if has_eq:
            acc.count('obs:equality-success')
        if has_lin:
            acc.count('obs:linear-success')
        if bad:
            seen = set()
            first = True
            for key, what in bad:
                if key in seen:
                    continue
                seen.add(key)
                viol(key, what, new_case=first)
                first = False
        elif blamed_scipy:
            skip('scipy-optimizer-unreliable-on-correctly-posed-problem')
        else:
            info['status'] = 'ok'
            acc.ok(fp, sample=case if acc.judged % 97 == 0 else None)
        return info
    finally:
        setattr(spy_mod, spy_name, orig_min)


def model_state_findings(p, ref, opt, xret, z, z_model, info, acc):
    """(i) the design variables found in the model are the returned x (optimizer space, compared with the
    round-off of the two affine maps: STATE_TOL relative to |x| + |adder*scaler| + |unit offset| per element);
    (i') the outputs found in the model (f, g) are the component's formulas at the inputs found in the model.
    -> list of (key, what)"""
    out = []
    xs_model = np.concatenate([v['scaled'] for v in ref.dv_vals(z_model).values()])
    mags = []
    for d in ref.dvs:
        s_, a_ = af.scaler_adder(d['sc'], d['size'])
        ufac, uoff = af.unit_affine(d['munits'], d['units'])
        mags.append(np.abs(a_ * s_) + np.abs(uoff * ufac * s_))
    mag = 1.0 + np.abs(xret) + np.concatenate(mags)
    acc.count('obs:model-state-compared')
    acc.count('obs:model-state-compared:' + opt)
    dx = float(np.max(np.abs(xs_model - xret) / mag))
    acc.count('obs:model-state-distance:%s' % ('zero' if dx == 0.0 else ('le1e-13' if dx <= 1e-13 else (
        'le1e-11' if dx <= STATE_TOL else ('le1e-6' if dx <= 1e-6 else 'gt1e-6')))))
    z_last = info.get('z_last')
    if z_last is not None and info.get('n_ret') is not None:
        # did the optimizer itself leave the model somewhere else than at the design it returned ?
        far = float(np.max(np.abs(z_last - z) / (1.0 + np.abs(z))))
        if far > 1e-12:
            acc.count('obs:optimizer-ended-elsewhere-than-returned-x')
            acc.count('obs:optimizer-ended-elsewhere-than-returned-x:' + opt)
            acc.count('obs:optimizer-ended-%s-from-returned-x' % ('within-1e-6' if far <= 1e-6 else 'far'))
        if info.get('n_tot', 0) > info['n_ret']:
            acc.count('obs:model-evaluated-again-after-optimizer-returned')
    # outputs as the component computes them from the inputs found in the model
    f_m = float(np.ravel(p.get_val('f'))[0])
    g_m = np.array(p.get_val('g'), float).ravel()
    az = np.abs(z_model)
    mf = 1.0 + 0.5 * az @ np.abs(ref.Q) @ az + np.abs(ref.c) @ az
    mg = 1.0 + np.abs(ref.A) @ az + np.abs(ref.b)
    stale_out = abs(f_m - ref.f(z_model)) > STATE_TOL * mf or np.any(np.abs(g_m - ref.g(z_model)) > STATE_TOL * mg)
    acc.count('obs:model-outputs-compared-with-model-inputs')
    if dx > STATE_TOL:
        # (independent of the bounds: also keyed by optimizer in the negative-scaler stratum)
        out.append(('%s:model-state-differs-from-returned-x' % opt,
                    'model is left at z=%s but the optimizer returned (unscaled) %s (distance %.3g relative, in '
                    'optimizer space; the outputs found in the model %s those inputs)'
                    % (z_model.tolist(), z.tolist(), dx, 'do NOT belong to' if stale_out else 'belong to')))
    elif stale_out:
        out.append(('%s:model-outputs-not-evaluated-at-the-returned-design' % opt,
                    'the design variables in the model are the returned design z=%s but f=%.12g, g=%s in the model '
                    'are not the outputs at these inputs (f=%.12g, g=%s)'
                    % (z_model.tolist(), f_m, g_m.tolist(), ref.f(z_model), ref.g(z_model).tolist())))
    return out


def _bounds_kwargs(v, con):
    """kwargs for set_design_var_options / set_constraint_options that replace ALL bounds by those of `v`."""
    from omv.gen.qpmodel import _b
    if con and v.get('equals') is not None:
        return {'equals': _b(v['equals'])}
    return {'lower': _b(v.get('lower')), 'upper': _b(v.get('upper'))}


def apply_changes(p, comp, new, st, acc, case):
    """Make the changes of stage `st` on the live Problem (`new` = the spec after the changes)."""
    from omv.gen import qpmodel
    model = p.model
    sc = st.get('sc')
    bd = st.get('bounds')
    for grp, setter in (('dvs', model.set_design_var_options), ('cons', model.set_constraint_options)):
        for i, v in enumerate(new[grp]):
            kw = {}
            if bd and bd[grp][i] != 'keep':
                kw.update(_bounds_kwargs(v, grp == 'cons'))
                acc.count('obs:history-change:%s-bounds' % grp)
            if sc and sc[grp][i] != 'keep':
                kw.update(qpmodel.set_options_kwargs(v.get('sc')))
                acc.count('obs:history-change:%s-scaling' % grp)
            if kw:
                setter(v.get('alias') or v['name'], **kw)
    if sc and sc['obj'] != 'keep':
        kw = qpmodel.set_options_kwargs(new['obj'].get('sc'))
        acc.count('obs:history-change:obj-scaling')
        try:
            model.set_objective_options('f', **kw)
        except TypeError as e:
            if len(kw) != 1:
                raise
            # naming one member of a pair is what the two sibling methods accept and what the docstring offers
            # (mechanism independent of the history: key without the rerun-after prefix)
            acc.viol('set_objective_options-with-one-of-%s-raises:%s@%s' % (
                'scaler/adder' if ('scaler' in kw or 'adder' in kw) else 'ref/ref0', type(e).__name__, _where(e)),
                '%s: %s' % (type(e).__name__, str(e)[:200]), case, new_case=False)
            full = dict({'scaler': 1.0, 'adder': 0.0} if ('scaler' in kw or 'adder' in kw) else
                        {'ref': 1.0, 'ref0': 0.0}, **kw)
            model.set_objective_options('f', **full)       # same scaling, both members named
    if st.get('remodel'):
        comp.set_data(new)
        acc.count('obs:history-change:remodel')
    if st.get('resetup'):
        p.setup()
        acc.count('obs:history-change:resetup')
    if 'p' in st or st.get('resetup'):
        p.set_val('p', float(new['par']['p']))
        if 'p' in st:
            acc.count('obs:history-change:param')


def _cap_bounds(b):
    if b is None:
        return None
    if hasattr(b, 'lb'):
        return np.asarray(b.lb, float), np.asarray(b.ub, float)
    return (np.array([-np.inf if t[0] is None else t[0] for t in b], float),
            np.array([np.inf if t[1] is None else t[1] for t in b], float))


def _close(a, b):
    a = np.atleast_1d(np.asarray(a, float))
    b = np.atleast_1d(np.asarray(b, float))
    if a.shape != b.shape:
        return False
    fin = np.isfinite(b)
    if not np.array_equal(np.isfinite(a), fin) or not np.array_equal(a[~fin], b[~fin]):
        return False
    sc = 1.0 + (np.max(np.abs(b[fin])) if fin.any() else 0.0)
    return bool(np.all(np.abs(a[fin] - b[fin]) <= 1e-9 * sc))


def arguments_differ(ca, cb):
    """First argument of scipy.optimize.minimize that differs between two runs of the same optimizer-space
    problem from the same start (None = all equal within 1e-9 relative)."""
    if not _close(ca['x0'], cb['x0']):
        return 'x0'
    ba, bb = _cap_bounds(ca.get('bounds')), _cap_bounds(cb.get('bounds'))
    if (ba is None) != (bb is None) or (ba is not None and not (_close(ba[0], bb[0]) and _close(ba[1], bb[1]))):
        return 'bounds'
    la, lb_ = list(ca.get('constraints') or []), list(cb.get('constraints') or [])
    if len(la) != len(lb_):
        return 'number-of-constraints'
    for x, y in zip(la, lb_):
        if type(x).__name__ != type(y).__name__:
            return 'constraint-type'
        if isinstance(x, dict):
            if x.get('type') != y.get('type') or list(x.get('args') or []) != list(y.get('args') or []):
                return 'constraint-dict'
            continue
        if hasattr(x, 'A'):
            if not _close(x.A, y.A):
                return 'linear-constraint-jacobian'
            n = np.atleast_2d(np.asarray(y.A)).shape[0]
            if not (_close(np.asarray(x.lb, float) * np.ones(n), np.asarray(y.lb, float) * np.ones(n)) and
                    _close(np.asarray(x.ub, float) * np.ones(n), np.asarray(y.ub, float) * np.ones(n))):
                return 'linear-constraint-bounds'
        elif not (_close(x.lb, y.lb) and _close(x.ub, y.ub)):
            return 'constraint-bounds'
    if ca.get('tol') != cb.get('tol'):
        return 'tol'
    oa, ob = dict(ca.get('options') or {}), dict(cb.get('options') or {})
    if sorted(oa) != sorted(ob) or any(oa[k] != ob[k] for k in oa):
        return 'options'
    return None


def judge_history(case, acc):
    """The same Problem/driver run len(stages)+1 times with the changes of omv/ref/qphist.py in between; every
    run is judged by the oracle of the single runs for the values then current; the last one is also compared
    with a fresh Problem declared directly with the final values and started from the same point."""
    import openmdao.api as om   # noqa
    from omv.gen import qpmodel
    opt = case['opt']
    cur = copy.deepcopy(case['spec'])
    eff = qphist.effective(cur)
    ref = qpspec.RefModel(eff)
    fp = fingerprint({'st': qpspec.structure(eff), 'opt': opt, 'variant': 'hist', 'stage': 0})
    ex = _guards(ref, eff, opt, acc)
    if ex is None:
        return
    drv = make_driver(opt)
    p = p2 = None
    try:
        p, comp = qpmodel.build(cur, driver=drv)
        p.final_setup()
        info = run_and_judge(p, drv, eff, ref, ex, opt, 'hist0', case, acc, fp)
        pre = ''
        reached = info['mon'] is not None and info['mon'].captured is not None
        for k, st in enumerate(case['stages'], 1):
            if info['status'] == 'raised':
                acc.skip('history-abandoned-after-exception')
                return
            pre = 'rerun-after-%s:' % '+'.join(st['kinds'])
            new = qphist.apply_stage(cur, st)
            fp = fingerprint({'st': qpspec.structure(qphist.effective(new)), 'opt': opt, 'variant': 'hist',
                              'stage': k, 'kinds': st['kinds'], 'warm': st['warm']})
            z_prev = qpmodel.get_z(p, cur)
            try:
                apply_changes(p, comp, new, st, acc, case)
            except Exception as e:   # noqa
                acc.viol(pre + 'change-between-runs-raises:%s@%s' % (type(e).__name__, _where(e)),
                         '%s: %s' % (type(e).__name__, str(e)[:240]), case, fp=fp)
                return
            warm = bool(st['warm'] and np.all(np.isfinite(z_prev)) and qphist.inside_dv_bounds(new, z_prev))
            z_start = z_prev if warm else np.asarray(st['x0'], float)
            if st.get('resetup') or not warm:
                qpmodel.set_z(p, new, z_start)
            new['x0'] = [float(v) for v in z_start]
            acc.count('obs:history-start:%s' % ('warm' if warm else 'set'))
            cur = new
            eff = qphist.effective(cur)
            ref = qpspec.RefModel(eff)
            ex = _guards(ref, eff, opt, acc)
            if ex is None:
                return
            for kd in st['kinds']:
                acc.count('cell:history/%s/%s' % (opt, kd))
            info = run_and_judge(p, drv, eff, ref, ex, opt, 'hist', case, acc, fp, pre=pre, warm=warm)
            acc.count('obs:history-rerun-judged' if info['status'] in ('ok', 'viol') else
                      'obs:history-rerun-not-judged')
            reached = info['mon'] is not None and info['mon'].captured is not None
        if not case['stages'] or not reached or info['status'] == 'raised':
            return
        # ---- the same final problem, declared directly, in a fresh Problem with a fresh driver
        drv2 = make_driver(opt)
        p2, _ = qpmodel.build(cur, driver=drv2)
        p2.final_setup()
        fp2 = fingerprint({'st': qpspec.structure(eff), 'opt': opt, 'variant': 'fresh'})
        # (when the last run was judged and found right, the fresh Problem is only posed, not optimized)
        info2 = run_and_judge(p2, drv2, eff, ref, ex, opt, 'fresh', case, acc, fp2,
                              pose_only=(info['status'] == 'ok'))
        if info2['mon'] is None or info2['mon'].captured is None:
            return
        acc.count('obs:history-compared-with-fresh-problem')
        diff = arguments_differ(info['mon'].captured, info2['mon'].captured)
        if diff:
            acc.viol(pre + 'minimize-arguments-differ-from-fresh-problem:%s' % diff,
                     'the last run of the history hands scipy.optimize.minimize a different %s than a fresh '
                     'Problem declared with the final values and started from the same point' % diff,
                     case, fp=fp, new_case=False)
        elif info.get('success') is False and info2.get('success') and info.get('lab') and not info2.get('lab'):
            acc.viol(pre + info['lab'] + ':optimizer-fails-while-fresh-problem-succeeds',
                     'the run after the change fails with wrong callback values; a fresh Problem with the final '
                     'values succeeds from the same start', case, fp=fp, new_case=False)
        elif info.get('success') and info2.get('success') and info['z'] is not None and info2['z'] is not None:
            d = float(np.max(np.abs(info['z'] - info2['z'])))
            acc.count('obs:history-design-vs-fresh:%s' % ('identical' if d == 0.0 else
                                                          ('le1e-6' if d <= 1e-6 else 'gt1e-6')))
    finally:
        for q in (p, p2):
            if q is not None:
                try:
                    q.cleanup()
                except Exception:
                    pass


def _arguments_label(mon, ref, opt, acc):
    """Design-variable bounds and (new style) constraint bounds handed to scipy.optimize.minimize against the
    image of the declared ones -> mechanism or None."""
    cap = mon.captured
    if cap is None:
        return None
    acc.count('obs:minimize-bounds-compared')
    if not _bounds_ok(mon, ref):
        return 'desvar-bounds-passed-to-optimizer-differ-from-declared'
    if opt not in NEW_STYLE:
        return None
    objs = list(cap.get('constraints') or [])
    i = 0
    for c in ref.cons:
        if c['d'].get('linear') and opt in LIN_AS_OBJECT:
            i += 1          # one LinearConstraint: see Monitor.linear_constraint_report
            continue
        lo, hi = mon.sr.lo[c['key']], mon.sr.hi[c['key']]
        for k in range(c['size']):
            if abs(lo[k]) >= af.INF_BOUND and abs(hi[k]) >= af.INF_BOUND and not (
                    i < len(objs) and type(objs[i]).__name__ == 'NonlinearConstraint' and
                    np.all(np.isinf(np.asarray(objs[i].lb, float))) and np.all(np.isinf(np.asarray(objs[i].ub, float)))):
                continue     # an element without any bound need not be handed to the optimizer
            if i >= len(objs) or type(objs[i]).__name__ != 'NonlinearConstraint':
                return None  # the layout itself is judged through Monitor.sides
            for got, want in ((objs[i].lb, lo[k]), (objs[i].ub, hi[k])):
                got = float(np.ravel(np.asarray(got, float))[0])
                if abs(want) >= af.INF_BOUND:
                    wrong = abs(got) < af.INF_BOUND / 10
                else:
                    wrong = not abs(got - want) <= 1e-9 * (1.0 + abs(want))
                if wrong:
                    return 'constraint-bounds-passed-to-optimizer-differ-from-declared'
            i += 1
    acc.count('obs:minimize-constraint-bounds-compared')
    return None


_MECH_ORDER = ['array-constraint-rejected-before-minimize', 'rejected-before-minimize', 'not-passed-to-optimizer',
               'jacobian-has-one-row-for-array-constraint', 'jacobian-has-wrong-row-for-array-constraint',
               'jacobian-ignores-declared-units', 'jacobian-mismatch',
               'constant-term-of-affine-constraint-ignored']


def _primary(mechs):
    mechs = set(mechs)
    for m in _MECH_ORDER:
        if m in mechs:
            return m
    return sorted(mechs)[0] if mechs else None


def _finite_infinity_passed(mon):
    for c in (mon.captured or {}).get('constraints') or []:
        for v in (getattr(c, 'lb', None), getattr(c, 'ub', None)):
            if v is not None and np.any((np.abs(np.asarray(v, float)) >= af.INF_BOUND) &
                                        np.isfinite(np.asarray(v, float))):
                return True
    return False


def _bounds_ok(mon, ref):
    """Bounds handed to scipy == image of the declared design-variable bounds."""
    cap = mon.captured or {}
    b = cap.get('bounds')
    if b is None:
        return False
    if hasattr(b, 'lb'):
        lb, ub = np.asarray(b.lb, float), np.asarray(b.ub, float)
    else:
        lb = np.array([-np.inf if t[0] is None else t[0] for t in b], float)
        ub = np.array([np.inf if t[1] is None else t[1] for t in b], float)
    lo_all, hi_all = [], []
    for d in ref.dvs:
        lo, hi = ref.bounds(d)
        ls, hs, _, _ = af.image_bounds(lo, hi, d['sc'])
        lo_all.append(np.where(ls <= -af.INF_BOUND, -np.inf, ls))
        hi_all.append(np.where(hs >= af.INF_BOUND, np.inf, hs))
    lo_all = np.concatenate(lo_all)
    hi_all = np.concatenate(hi_all)

    def close(a_, b_):
        fin = np.isfinite(b_)
        return np.array_equal(np.isfinite(a_), fin) and np.allclose(a_[fin], b_[fin], rtol=1e-10, atol=1e-12)
    return lb.shape == lo_all.shape and close(lb, lo_all) and close(ub, hi_all)


def _where(e):
    import os
    import traceback
    tb = traceback.extract_tb(e.__traceback__)
    for fr in reversed(tb):
        if '/openmdao/' in fr.filename:
            return '%s:%s' % (os.path.basename(fr.filename), fr.name)
    return '?'


def _con_stratum(cd, k):
    pat = cd.get('pat') or '?'
    form = 'array' if any(isinstance(cd.get(x), list) for x in ('lower', 'upper', 'equals')) else 'scalar'
    return '%s:%s:%s:%s' % ('linear' if cd.get('linear') else 'nonlinear', form,
                            'size1' if len(pat) == 1 else 'sizeN',
                            'indices' if cd.get('indices') is not None else 'full')


def _stratum(spec):
    t = []
    if any(c.get('linear') for c in spec['cons']):
        t.append('linear')
    if any(c.get('equals') is not None for c in spec['cons']):
        t.append('eq')
    if any(len(c.get('pat') or 'x') > 1 for c in spec['cons']):
        t.append('arraycon')
    if any(af.scaling_tags(v.get('sc'))[0] != 'noscale' for v in spec['dvs'] + spec['cons'] + [spec['obj']]):
        t.append('scaled')
    return '+'.join(t) or 'plain'


# ----------------------------------------------------------------------------------------------
def shards(tier, seed):
    nsh = 16 if tier == 'quick' else 32
    nprob = 6 if tier == 'quick' else 40
    ng = 3 if tier == 'quick' else 10
    return [{'seed': seed * 100003 + 7919 * k + 11, 'n': nprob, 'ng': ng, 'tier': tier} for k in range(nsh)]


def _acceptable(eff):
    """a later stage of a history must stay in the domain the single runs are drawn from."""
    ref = qpspec.RefModel(eff)
    if not well_scaled(ref):
        return False
    ex = ref.exact()
    return ex is not None and max(ex['qp']['kkt']) <= 1e-8


def gen_histories(rng, base):
    """One problem -> one multi-run case per optimizer (instead of its 3 scaling variants x optimizers)."""
    spec0 = qphist.add_param(rng, base)
    if not any(c['linear'] for c in spec0['cons']) and rng.random() < 0.5:
        # (every g is affine in the design variables: the flag is legal on any of them)
        spec0['cons'][int(rng.integers(len(spec0['cons'])))]['linear'] = True
    if any(c['linear'] for c in spec0['cons']):
        # trust-constr (keep_feasible) needs a start that satisfies the linear constraints
        spec0['x0'] = qphist.start_point(rng, spec0, 0.05)
    vs = variants(spec0, rng, with_neg=False)
    out = []
    for opt in OPTS:
        order = rng.permutation(len(vs))
        good = [int(k) for k in order if _acceptable(qphist.effective(vs[int(k)][1]))]
        s0 = vs[good[0] if good else int(order[0])][1]
        nst = 3 if rng.random() < 0.5 else 2
        stages = qphist.gen_history(rng, s0, nst, opt in EQ_OPTS, MAG, _acceptable)
        out.append({'spec': s0, 'opt': opt, 'variant': 'hist', 'stages': stages})
    return out


def gen_global_cases(rng, nprob):
    """Per problem: shgo and differential_evolution on the constrained problem for 2 of its 3 driver scalings,
    dual_annealing and basinhopping on the problem without its constraints, one of them with a failpoint, and
    one optimizer of the minimize family with a failpoint."""
    out = []
    for j in range(nprob):
        base = gen_boxed(rng)
        vs = variants(base, rng, with_neg=False)
        fault_slot = int(rng.integers(6))
        slot = 0
        for opt in GLOBAL_OPTS:
            order = [int(k) for k in rng.permutation(len(vs))]
            for k in order[:2 if opt in GLOBAL_CON else 1]:
                variant, spec = vs[k]
                if opt not in GLOBAL_CON:
                    spec = copy.deepcopy(spec)
                    spec['cons'] = []
                case = {'spec': spec, 'opt': opt, 'variant': variant, 'gopts': rand_global_options(rng, opt)}
                if slot == fault_slot:
                    case['fault'] = {'kind': ('restore', 'mid')[int(rng.integers(2))], 'u': float(rng.random())}
                slot += 1
                out.append(case)
        variant, spec = vs[int(rng.integers(len(vs)))]
        out.append({'spec': spec, 'opt': OPTS[int(rng.integers(len(OPTS)))], 'variant': variant,
                    'fault': {'kind': ('restore', 'mid')[int(rng.integers(2))], 'u': float(rng.random())}})
    return out


def run_shard(shard, acc):
    # (own generator: the cases of the other strata do not depend on this one)
    for case in gen_global_cases(np.random.default_rng(shard['seed'] + 500009), shard.get('ng', 0)):
        judge(case, acc)
    rng = np.random.default_rng(shard['seed'])
    for i in range(shard['n']):
        base = gen_base(rng)
        if i % 3 == 1:
            # history stratum: the same Problem/driver run 2-3 times with changes in between
            for case in gen_histories(np.random.default_rng(int(rng.integers(2 ** 31))), base):
                judge(case, acc)
            continue
        vs = variants(base, rng, with_neg=(i % 3 == 0))
        for variant, spec in vs:
            for opt in OPTS:
                if variant.startswith('neg') and opt not in ('SLSQP', 'trust-constr'):
                    continue
                judge({'spec': spec, 'opt': opt, 'variant': variant}, acc)


def run_case(case, acc):
    judge(case, acc)


def coverage_extra(tier, agg):
    cells = sorted(k[5:] for k in agg['counters'] if k.startswith('cell:'))
    return {'exhaustive': False, 'cells_visited': cells}
