"""C21 - Optimizer success implies a feasible reported design.

Monitor: differential/reference run at the API boundary of ScipyOptimizeDriver.  Random strictly convex
QPs (f = 1/2 z'Qz + c'z, g = A z + b as an array response, n <= 4) with per-element bound patterns are
run through run_driver() for each constrained optimizer and for two or three driver scalings of the
same problem.  When driver.result.success is true the harness

  (i)   unscales the x scipy returned with its own formulas and compares it with the design variables
        found in the model (get_val),
  (ii)  re-evaluates every constraint element with NumPy from get_val and tests it against its own
        lower / upper / equals (tolerance expressed in the optimizer's scaled space),
  (iii) compares the design with the exact optimum from omv/ref/qp.py (KKT enumeration).

History stratum (a third of the problems): the component gets a parameter p that is not a design variable,
f = (1+q1 p) 1/2 z'Qz + (c+p c1)'z, g = (A+p B) z + b + p b1 (omv/ref/qphist.py), and the SAME Problem/driver is
run 2-3 times; between the runs p is changed with set_val, bounds / equals / scaler,adder / ref,ref0 are
changed with set_design_var_options / set_constraint_options / set_objective_options, the start point is moved
or left where the last run ended, setup() is called again, or the component's data are replaced before a
re-setup.  Every run is judged by (i)-(iii) for the values current at that run; the last run is also compared,
argument by argument of scipy.optimize.minimize, with a fresh Problem declared directly with the final values.
"""
import copy

import numpy as np

from omv.core import fingerprint
from omv.ref import affine as af
from omv.ref import qphist
from omv.ref import qpspec

PROPERTY = 'C21'
LEVEL = 'exploration'
TECHNIQUE = 'runtime monitoring: optimizer result vs exact KKT solution and NumPy re-evaluated constraints'
RULE = ('random strictly convex QPs (n<=4 design variables in 1-2 inputs, 1-4 constraint elements in 1-2 '
        'array constraints incl. indices+alias, per-element patterns lower/upper/both/hole/equality, scalar '
        'and array bounds, linear flag, units) x optimizers {SLSQP, COBYLA, trust-constr, COBYQA} x driver '
        'scalings {none, scaler/adder, ref/ref0; scalar and array}; a third of the problems as histories: the same '
        'Problem/driver run 2-3 times with {parameter entering f, g and the coefficients of the linear '
        'constraints, bounds/equals, scaling, start point (warm or set), re-setup, re-setup with new component '
        'data} changed in between, then a fresh Problem with the final values; distinct = distinct (structure, '
        'optimizer, scaling variant | stage, kinds of change); non-trivial = driver reported success and the '
        'exact optimum exists')
LEVEL_TEXT = ('every success reported on the sampled problems was checked elementwise against an independent '
              'exact solution; no statement about unsampled problem classes (n>4, nonlinear g, other optimizers)')
ASSUMPTIONS = [
    'the exact optimum of the strictly convex QP is the KKT point found by enumeration (re-certified: '
    'stationarity/primal/dual residuals < 1e-8)',
    'bounds are declared in the declared units, unscaled; a scaler > 0 keeps their orientation',
    'feasibility is judged in the optimizer (scaled) space with tolerance 1e-6*(1+|bound_scaled|) while the '
    'optimizers are run with tolerances <= 1e-9 (>= 100x margin)',
    'trust-constr results are judged for feasibility/optimality only when scipy\'s own constr_violation / '
    'optimality measures are below 1e-7, so that scipy\'s lax xtol-success is not blamed on OpenMDAO',
    'a tr_interior_point result that misses the optimum is not blamed on OpenMDAO when its final '
    'barrier_parameter > 1e-7 (scipy stops on gtol while mu is still 1e-3..1e-4, e.g. always for n=1) unless a '
    'callback/argument monitor saw the driver hand scipy a wrong value',
    'a miss of the optimum on a problem whose callbacks/arguments were all observed correct is blamed on '
    'OpenMDAO only if the same scipy call fed from the reference formulas converges AND keeps converging when '
    'the callback values are perturbed at round-off level (1e-13 relative, 10 trials); otherwise the case is '
    'discarded as optimizer instability',
    'designs are compared with tolerance 1e-4*(1+|z*|)*sqrt(cond Q) (optimizers run with tol 1e-10; '
    'observed errors are <= 1e-6)',
    'negative scalers on design variables / constraints are exercised in a separate stratum (keys neg-scaler:*)',
    'history stratum: a change made with set_val / set_*_options after a run is in force at the next run_driver() '
    '(documented in features/core_features/adding_desvars_cons_objs/modifying_desvars_cons_obj) and survives a '
    'later setup() (pinned by test_system_set_solver_bounds_scaling_options); new bounds replace all old bounds, '
    'naming one scaling pair clears the other',
    'history stratum: a run started where the previous one ended is only required to be accepted by '
    'trust-constr (keep_feasible) when that point satisfies the linear constraints and bounds with a relative '
    'slack of 1e-9 in the optimizer space; a start inside that band is discarded',
    'the last run of a history and the fresh Problem see the same optimizer-space problem from the same start: the '
    'arguments of scipy.optimize.minimize must agree within 1e-9 relative',
]
MIN_JUDGED = {'quick': 300, 'thorough': 3000}
REQUIRED_COUNTERS = ['obs:success:SLSQP', 'obs:success:COBYLA', 'obs:success:trust-constr',
                     'obs:success:COBYQA', 'obs:feasible-elements', 'obs:optimum-compared',
                     'obs:active-at-optimum', 'obs:model-state-compared', 'obs:array-bounds-mixed-pattern',
                     'obs:equality-success', 'obs:linear-success', 'obs:minimize-bounds-compared',
                     'obs:history-rerun-judged', 'obs:history-compared-with-fresh-problem',
                     'obs:history-change:param', 'obs:history-change:cons-scaling', 'obs:history-change:cons-bounds',
                     'obs:history-change:resetup', 'obs:history-start:warm',
                     'obs:history-rerun-linear-jacobian-compared']
SHARD_TIMEOUT = {'quick': 900, 'thorough': 3000}

OPTS = ['SLSQP', 'COBYLA', 'trust-constr', 'COBYQA']
EQ_OPTS = ('SLSQP', 'trust-constr')
NEW_STYLE = ('trust-constr', 'COBYQA')
FEAS_TOL = 1e-6


# ----------------------------------------------------------------------------------------------
def make_driver(opt):
    import openmdao.api as om
    d = om.ScipyOptimizeDriver(optimizer=opt, tol=1e-10, disp=False)
    d.options['maxiter'] = 3000 if opt in ('COBYLA', 'COBYQA') else 1000
    if opt == 'COBYLA':
        d.opt_settings['catol'] = 1e-9
        d.opt_settings['rhobeg'] = 0.5
    if opt == 'SLSQP':
        d.opt_settings['ftol'] = 1e-12
    return d


def variants(spec, rng, with_neg):
    """Scalings of one problem: bounds/units are untouched, only scaler/adder/ref/ref0 change."""
    out = [('plain', _with_sc(spec, None, None, None))]
    for tag, kinds in (('sa', ('sa', 'sa_arr')), ('ref', ('ref', 'ref_arr'))):
        dsc = [qpspec.rand_scaling(rng, len(d['pat']), False, kinds=kinds, mag_range=MAG) for d in spec['dvs']]
        csc = [qpspec.rand_scaling(rng, len(c['pat']), False, kinds=kinds, mag_range=MAG) for c in spec['cons']]
        osc = qpspec.rand_scaling(rng, 1, False, kinds=kinds[:1], mag_range=MAG)
        out.append((tag, _with_sc(spec, dsc, csc, osc)))
    if with_neg:
        which = 'con' if rng.random() < 0.6 else 'dv'
        dsc = [None for _ in spec['dvs']]
        csc = [None for _ in spec['cons']]
        if which == 'con':
            k = int(rng.integers(len(csc)))
            csc[k] = {'kind': 'sa', 'scaler': -float(np.round(np.exp(rng.uniform(-1, 1)), 3)), 'adder': None}
        else:
            k = int(rng.integers(len(dsc)))
            dsc[k] = {'kind': 'sa', 'scaler': -float(np.round(np.exp(rng.uniform(-1, 1)), 3)), 'adder': None}
        out.append(('neg-' + which, _with_sc(spec, dsc, csc, None)))
    return out


def _with_sc(spec, dsc, csc, osc):
    s = copy.deepcopy(spec)
    for i, d in enumerate(s['dvs']):
        d['sc'] = None if dsc is None else dsc[i]
    for i, c in enumerate(s['cons']):
        c['sc'] = None if csc is None else csc[i]
    s['obj']['sc'] = osc
    return s


FAMILIES = {'length': ['m', 'ft', 'inch', 'cm'], 'temp': ['degK', 'degC', 'degF'], 'time': ['s', 'min']}
MAG = (0.2, 5.0)


def gen_base(rng):
    return qpspec.random_spec(rng, n_max=4, m_max=4, scaling=False, units=True, dv_indices=False,
                              equality=True, split_cons=True, dv_bounds='some', margin=1.0,
                              units_p=0.35, offsets=True, families=FAMILIES)


def well_scaled(ref):
    """The optimizer-space problem must be one scipy's optimizers handle reliably (their tolerances and
    initial trust regions are absolute numbers in that space): Hessian condition <= 1e4, Hessian and
    constraint-row norms within [1e-2, 1e2], Hessian eigenvalues within [1e-3, 1e3]."""
    free = ref.free_positions()
    sx = np.concatenate([ref._slope(d)[0] for d in ref.dvs])
    sf = ref._slope(ref.obj)[0][0]
    H = sf * ref.Q[np.ix_(free, free)] / np.outer(sx, sx)
    ev = np.linalg.eigvalsh(H)
    if ev[0] <= 0 or ev[-1] / ev[0] > 1e4 or ev[-1] > 1e3 or ev[0] < 1e-3:
        return False
    for c in ref.cons:
        sc = ref._slope(c)[0]
        J = sc[:, None] * ref.A[np.ix_(c['rows'], free)] / sx[None, :]
        nr = np.linalg.norm(J, axis=1)
        if np.any(nr > 1e2) or np.any(nr < 1e-2):
            return False
    return True


# ----------------------------------------------------------------------------------------------
class ScaledRef:
    """The problem as the optimizer should see it (optimizer space), from the reference formulas."""

    def __init__(self, ref, z_start):
        self.ref = ref
        self.z_start = np.array(z_start, float)
        self.lo = {}
        self.hi = {}
        for c in ref.cons:
            lo, hi = ref.bounds(c)
            self.lo[c['key']], self.hi[c['key']], _, _ = af.image_bounds(lo, hi, c['sc'])
        self.n = sum(d['size'] for d in ref.dvs)

    def z(self, xs):
        xs = np.asarray(xs, float).ravel()
        scaled = {}
        o = 0
        for d in self.ref.dvs:
            scaled[d['key']] = xs[o:o + d['size']]
            o += d['size']
        return self.ref.z_from_scaled(self.z_start, scaled)

    def f(self, xs):
        return float(self.ref.obj_vals(self.z(xs))['f']['scaled'][0])

    def g(self, xs, key):
        return self.ref.con_vals(self.z(xs))[key]['scaled']

    def grad_f(self, xs):
        J = self.ref.jac(self.z(xs), scaled=True)
        return np.concatenate([J[('f', d['key'])].ravel() for d in self.ref.dvs])

    def jac_g(self, xs, key):
        J = self.ref.jac(self.z(xs), scaled=True)
        return np.hstack([J[(key, d['key'])] for d in self.ref.dvs])

    def jac_g_without_units(self, key):
        """what a Jacobian that applies the scalers but forgets the declared-unit factors looks like."""
        c = [c_ for c_ in self.ref.cons if c_['key'] == key][0]
        sc, _ = af.scaler_adder(c['sc'], c['size'])
        blocks = []
        for d in self.ref.dvs:
            sd, _ = af.scaler_adder(d['sc'], d['size'])
            blocks.append(sc[:, None] * self.ref.A[np.ix_(c['rows'], d['pos'])] / sd[None, :])
        return np.hstack(blocks)


class Monitor:
    """Wraps the callbacks scipy calls (on the driver instance) and the minimize() entry point.

    Records, for every value handed to the optimizer, whether it is the reference value *at the x that
    was passed in*, and which (constraint, element, side) was ever presented to the optimizer.
    """

    def __init__(self, drv, ref, z_start, acc):
        self.drv = drv
        self.ref = ref
        self.sr = ScaledRef(ref, z_start)
        self.acc = acc
        self.stale = 0          # constraint values that belong to a previously evaluated x
        self.wrong = 0          # constraint values that match no evaluated point
        self.obj_wrong = 0
        self.grad_wrong = 0
        self.grad_stale = 0
        self.congrad_wrong = 0
        self.congrad_nounits = 0
        self.congrad_negated = 0
        self.new_style = drv.options['optimizer'] in NEW_STYLE
        self.sides = set()      # (con key, k, 'lower'|'upper') presented to the optimizer
        self.last_obj_x = None
        self.captured = None
        self.cons_by_key = {c['key']: c for c in ref.cons}
        self.args_label = None  # mechanism seen in the arguments of scipy.optimize.minimize (_arguments_label)

    def uninstall(self):
        """drop the wrappers (instance attributes) so that the driver can be monitored again in a later run."""
        for nm in ('_objfunc', '_con_val_func', '_confunc', '_gradfunc', '_congradfunc'):
            self.drv.__dict__.pop(nm, None)

    def install(self):
        drv = self.drv
        o_obj, o_cv, o_cf, o_g, o_cg = (drv._objfunc, drv._con_val_func, drv._confunc, drv._gradfunc,
                                        drv._congradfunc)

        def objfunc(x):
            r = o_obj(x)
            self.last_obj_x = np.array(x, float)
            if drv._exc_info is None:
                fref = self.sr.f(x)
                self.acc.count('obs:callback-objective')
                if abs(float(np.ravel(r)[0]) - fref) > 1e-9 * (1 + abs(fref)):
                    self.obj_wrong += 1
            return r

        def con_val_func(x, name, dbl, idx):
            r = o_cv(x, name, dbl, idx)
            self._check_value(x, name, idx, float(r), 'value')
            return r

        def confunc(x, name, dbl, idx):
            r = o_cf(x, name, dbl, idx)
            self._check_value(x, name, idx, float(r), 'residual')
            return r

        def gradfunc(x):
            r = o_g(x)
            if drv._exc_info is None:
                self.acc.count('obs:callback-gradient')
                gr = self.sr.grad_f(x)
                tol = 1e-8 * (1 + np.max(np.abs(gr)))
                if np.shape(r) != gr.shape or np.max(np.abs(np.asarray(r) - gr)) > tol:
                    g2 = None if self.last_obj_x is None else self.sr.grad_f(self.last_obj_x)
                    if g2 is not None and np.shape(r) == g2.shape and np.max(np.abs(np.asarray(r) - g2)) <= tol:
                        self.grad_stale += 1
                    else:
                        self.grad_wrong += 1
            return r

        def congradfunc(x, name, dbl, idx):
            r = o_cg(x, name, dbl, idx)
            if drv._exc_info is None:
                self.acc.count('obs:callback-constraint-gradient')
                row = self.sr.jac_g(x, name)[int(idx)]
                r_ = np.asarray(r, float).ravel()
                tol = 1e-8 * (1 + np.max(np.abs(row)))
                # sign the optimizer needs: new-style constraints and equalities are given as values
                # (Jacobian of the value); an old-style inequality is 'upper - g' when it is the second
                # (dbl) entry or has no lower bound, else 'g - lower'
                eq = self.cons_by_key[name]['d'].get('equals') is not None
                if self.new_style or eq:
                    sgn = 1.0
                else:
                    sgn = -1.0 if (dbl or self.sr.lo[name][int(idx)] <= -af.INF_BOUND) else 1.0
                if r_.shape != row.shape or np.max(np.abs(r_ - sgn * row)) > tol:
                    alt = self.sr.jac_g_without_units(name)[int(idx)]
                    if r_.shape == row.shape and np.max(np.abs(r_ + sgn * row)) <= tol and \
                            np.max(np.abs(row)) > tol:
                        self.congrad_negated += 1
                    elif r_.shape == alt.shape and min(np.max(np.abs(r_ - alt)), np.max(np.abs(r_ + alt))) <= tol:
                        self.congrad_nounits += 1
                    else:
                        self.congrad_wrong += 1
            return r

        drv._objfunc = objfunc
        drv._con_val_func = con_val_func
        drv._confunc = confunc
        drv._gradfunc = gradfunc
        drv._congradfunc = congradfunc

    def _check_value(self, x, name, idx, r, kind):
        self.acc.count('obs:callback-constraint')
        idx = int(idx)
        cands = [('now', x)]
        if self.last_obj_x is not None and not np.array_equal(self.last_obj_x, x):
            cands.append(('stale', self.last_obj_x))
        matched = None
        eq = self.cons_by_key[name]['d'].get('equals') is not None
        for tag, xx in cands:
            g = self.sr.g(xx, name)
            lo = self.sr.lo[name][idx]
            hi = self.sr.hi[name][idx]
            if kind == 'value':
                opts = [('both', g[idx])]
            elif eq:
                opts = [('both', g[idx] - lo)]
            else:
                opts = [('lower', g[idx] - lo), ('upper', hi - g[idx])]
            for side, v in opts:
                if abs(r - v) <= 1e-9 * (1 + abs(v)):
                    # the residual of an absent bound (+-1e30 -+ g) is a legitimate, always satisfied
                    # entry; it does not present any bound of the element to the optimizer
                    matched = (tag, side if abs(v) < af.INF_BOUND / 10 else 'none')
                    break
            if matched:
                break
        if matched is None:
            self.wrong += 1
            return
        if matched[0] == 'stale':
            self.stale += 1
        side = matched[1]
        for sd in (('lower', 'upper') if side == 'both' else (() if side == 'none' else (side,))):
            self.sides.add((name, idx, sd))

    def label(self, style):
        """Mechanism label from the callback monitors (None = every value handed to scipy was right)."""
        if self.stale:
            return '%s:constraint-callback-returns-values-of-previous-point' % style
        if self.congrad_negated:
            return '%s:constraint-gradient-callback-has-opposite-sign' % style
        if self.congrad_nounits:
            return '%s:linear-constraint-gradient-ignores-declared-units' % style
        if self.wrong:
            return '%s:constraint-callback-value-mismatch' % style
        if self.congrad_wrong:
            return '%s:constraint-gradient-callback-mismatch' % style
        if self.grad_stale:
            return '%s:objective-gradient-callback-returns-gradient-of-previous-point' % style
        if self.grad_wrong:
            return '%s:objective-gradient-callback-mismatch' % style
        if self.obj_wrong:
            return '%s:objective-callback-mismatch' % style
        if self.args_label:
            return '%s:%s' % (style, self.args_label)
        return None

    # ---- what was handed to scipy.optimize.minimize ------------------------------------------
    def linear_constraint_report(self):
        """Compare captured scipy LinearConstraint objects with the reference (trust-constr, linear=True).

        -> {con key: mechanism or None}
        """
        out = {}
        cap = self.captured or {}
        objs = [c for c in (cap.get('constraints') or []) if type(c).__name__ == 'LinearConstraint']
        lin = [c for c in self.ref.cons if c['d'].get('linear')]
        zero = np.zeros(self.sr.n)
        for i, c in enumerate(lin):
            if i >= len(objs):
                out[c['key']] = 'not-passed-to-optimizer'
                continue
            A = np.atleast_2d(np.asarray(objs[i].A, float))
            J = self.sr.jac_g(zero, c['key'])
            if A.shape != J.shape:
                out[c['key']] = 'jacobian-has-%s-row-for-array-constraint' % ('one' if A.shape[0] == 1 else 'wrong')
                continue
            if np.max(np.abs(A - J)) > 1e-8 * (1 + np.max(np.abs(J))):
                alt = self.sr.jac_g_without_units(c['key'])
                out[c['key']] = 'jacobian-ignores-declared-units' if \
                    np.max(np.abs(A - alt)) <= 1e-8 * (1 + np.max(np.abs(alt))) else 'jacobian-mismatch'
                continue
            k0 = self.sr.g(zero, c['key'])            # constant term of the affine map x_s -> g_s
            lo, hi = self.sr.lo[c['key']], self.sr.hi[c['key']]
            lb = np.asarray(objs[i].lb, float) * np.ones(c['size'])
            ub = np.asarray(objs[i].ub, float) * np.ones(c['size'])
            ok = True
            for k in range(c['size']):
                for got, want in ((lb[k], lo[k]), (ub[k], hi[k])):
                    if abs(want) >= af.INF_BOUND:
                        if abs(got) < af.INF_BOUND / 10:
                            ok = False
                    elif abs(got - (want - k0[k])) > 1e-8 * (1 + abs(want) + abs(k0[k])):
                        ok = False
            out[c['key']] = None if ok else 'constant-term-of-affine-constraint-ignored'
        return out


class _Noisy:
    """ScaledRef whose values carry a relative perturbation of round-off size (eps ~ 1e-13): what any other
    correct implementation of the same callbacks would hand to scipy."""

    def __init__(self, sr, eps, seed):
        self._sr = sr
        self._eps = eps
        self._rng = np.random.default_rng(seed)
        self.ref, self.lo, self.hi, self.n = sr.ref, sr.lo, sr.hi, sr.n

    def _p(self, v):
        v = np.asarray(v, float)
        return v * (1.0 + self._eps * self._rng.standard_normal(v.shape))

    def f(self, x):
        return float(self._p(self._sr.f(x)))

    def g(self, x, key):
        return self._p(self._sr.g(x, key))

    def grad_f(self, x):
        return self._p(self._sr.grad_f(x))

    def jac_g(self, x, key):
        return self._p(self._sr.jac_g(x, key))


ROUNDOFF_TRIALS = 10


def outcome_is_roundoff_sensitive(opt, mon, drv, zs, tol):
    """True when scipy's optimizer, given the correctly posed problem with callback values perturbed at
    round-off level (1e-13 relative), misses the optimum in at least one of ROUNDOFF_TRIALS runs: then
    missing it is the optimizer's own instability (seen: COBYQA stopping on its minimum trust radius at a
    non-stationary point in ~1 of 7 perturbed runs), not evidence about the values OpenMDAO supplied."""
    for t in range(ROUNDOFF_TRIALS):
        xc = run_control(opt, mon, drv, noise=(1e-13, 7001 + t))
        if xc is None or np.max(np.abs(mon.sr.z(xc) - zs)) > tol:
            return True
    return False


def run_control(opt, mon, drv, absent=np.inf, noise=None):
    """The same optimizer-space problem posed directly to scipy from the reference formulas, with the
    same options.  Returns x or None (control failed / raised).  `absent` is the number used for an
    absent bound of a new-style constraint (np.inf, or 1e30 to mimic a finite "infinity")."""
    from scipy.optimize import minimize, NonlinearConstraint, LinearConstraint
    sr = mon.sr if noise is None else _Noisy(mon.sr, noise[0], noise[1])
    cap = mon.captured or {}
    x0 = np.array(cap.get('x0'), float)
    cons = []
    if opt in NEW_STYLE:
        # same layout as the driver documents (one NonlinearConstraint per element; a LinearConstraint
        # with keep_feasible for linear=True under trust-constr), so that scipy's own behaviour on the
        # correctly posed problem (e.g. trust-constr stopping on its gtol test while the barrier
        # parameter is still large) shows up in the control run as well and is not blamed on OpenMDAO
        zero = np.zeros(sr.n)
        for c in sr.ref.cons:
            key = c['key']
            lo_inf = sr.lo[key] <= -af.INF_BOUND
            hi_inf = sr.hi[key] >= af.INF_BOUND
            if c['d'].get('linear') and opt == 'trust-constr':
                k0 = mon.sr.g(zero, key)
                cons.append(LinearConstraint(mon.sr.jac_g(zero, key), np.where(lo_inf, -absent, sr.lo[key] - k0),
                                             np.where(hi_inf, absent, sr.hi[key] - k0), keep_feasible=True))
                continue
            lo = np.where(lo_inf, -absent, sr.lo[key])
            hi = np.where(hi_inf, absent, sr.hi[key])
            for k in range(c['size']):
                cons.append(NonlinearConstraint(lambda x, key=key, k=k: sr.g(x, key)[k], lo[k], hi[k],
                                                jac=lambda x, key=key, k=k: sr.jac_g(x, key)[k]))
    else:
        for c in sr.ref.cons:
            key = c['key']
            eq = c['d'].get('equals') is not None
            for k in range(c['size']):
                if eq:
                    cons.append({'type': 'eq', 'fun': lambda x, key=key, k=k: sr.g(x, key)[k] - sr.lo[key][k],
                                 'jac': lambda x, key=key, k=k: sr.jac_g(x, key)[k]})
                    continue
                if sr.lo[key][k] > -af.INF_BOUND:
                    cons.append({'type': 'ineq',
                                 'fun': lambda x, key=key, k=k: sr.g(x, key)[k] - sr.lo[key][k],
                                 'jac': lambda x, key=key, k=k: sr.jac_g(x, key)[k]})
                if sr.hi[key][k] < af.INF_BOUND:
                    cons.append({'type': 'ineq',
                                 'fun': lambda x, key=key, k=k: sr.hi[key][k] - sr.g(x, key)[k],
                                 'jac': lambda x, key=key, k=k: -sr.jac_g(x, key)[k]})
        if opt == 'COBYLA':
            for cd in cons:
                cd.pop('jac')
    kw = dict(method=opt, bounds=cap.get('bounds'), constraints=cons, tol=cap.get('tol'),
              options=dict(cap.get('options') or {}))
    if opt in ('SLSQP', 'trust-constr'):
        kw['jac'] = sr.grad_f
    if opt == 'trust-constr':
        from scipy.optimize import BFGS
        kw['hess'] = BFGS()
    try:
        r = minimize(sr.f, x0, **kw)
    except Exception:
        return None
    if not r.success:
        return None
    return np.asarray(r.x, float)


def classify_element(opt, mon, c, k, side, linrep):
    """Mechanism key for a violated constraint element of a reported success, or None when every monitor
    says the problem was posed correctly (then the optimizer itself is to blame)."""
    cd = c['d']
    lin = bool(cd.get('linear')) and opt == 'trust-constr'
    style = 'new-style' if opt in NEW_STYLE else 'old-style'
    if lin:
        m = linrep.get(c['key'])
        return None if m is None else 'new-style-linear-constraint:%s:element-violated' % m
    if (c['key'], k, side) not in mon.sides:
        # the optimizer was never shown this bound of this element
        pat = cd.get('pat') or '?'
        if style == 'old-style':
            what = 'upper-of-two-sided-element' if (side == 'upper' and pat[k] == 'B') else side
            return 'old-style:%s-never-passed-to-optimizer:%s:element-violated' % (
                what, 'array-bounds' if isinstance(cd.get(side), list) else 'scalar-bounds')
        return 'new-style:element-never-passed-to-optimizer:%s:element-violated' % (
            'not-last-element' if k != c['size'] - 1 else 'last-element')
    lab = mon.label(style)
    return None if lab is None else lab + ':element-violated'


def _truly_feasible_start(ref, z0, only_linear=True, slack=-1e-9, with_bounds=False):
    """The start satisfies the linear constraints (and the design-variable bounds) with the relative
    slack `slack` (negative = may violate them by that much)."""
    g = ref.g(z0)
    vois = [(c, g[c['rows']]) for c in ref.cons if c['d'].get('linear') or not only_linear]
    if with_bounds:
        vois += [(d, np.asarray(z0, float)[d['pos']]) for d in ref.dvs]
    for c, vm in vois:
        vd = af.to_units(vm, c['munits'], c['units'])
        lo, hi = ref.bounds(c)
        s, a = af.scaler_adder(c['sc'], c['size'])
        # judged in the optimizer's space, where scipy tests it
        vs, los, his = (vd + a) * s, (lo + a) * s, (hi + a) * s
        los = np.where(lo <= -af.INF_BOUND, -np.inf, los)
        his = np.where(hi >= af.INF_BOUND, np.inf, his)
        los, his = np.minimum(los, his), np.maximum(los, his)
        if np.any(vs < los + slack * (1 + np.abs(los))) or np.any(vs > his - slack * (1 + np.abs(his))):
            return False
    return True


def _guards(ref, spec, opt, acc):
    """-> exact solution, or None after acc.skip (problem outside the domain the oracle covers)."""
    has_eq = any(c.get('equals') is not None for c in spec['cons'])
    if has_eq and opt not in EQ_OPTS:
        acc.skip('equality-not-supported-by-optimizer')
        return None
    if not well_scaled(ref):
        acc.skip('ill-scaled-in-optimizer-space')
        return None
    ex = ref.exact()
    if ex is None:
        acc.skip('reference-infeasible')
        return None
    if max(ex['qp']['kkt']) > 1e-8:
        acc.skip('reference-kkt-not-certified')
        return None
    return ex


def judge(case, acc):
    if case.get('stages') is not None:
        return judge_history(case, acc)
    import openmdao.api as om   # noqa
    from omv.gen import qpmodel
    opt = case['opt']
    variant = case['variant']
    spec = qphist.effective(case['spec'])
    ref = qpspec.RefModel(spec)
    fp = fingerprint({'st': qpspec.structure(spec), 'opt': opt, 'variant': variant})
    ex = _guards(ref, spec, opt, acc)
    if ex is None:
        return
    drv = make_driver(opt)
    p = None
    try:
        p, comp = qpmodel.build(case['spec'], driver=drv)
        p.final_setup()
        run_and_judge(p, drv, spec, ref, ex, opt, variant, case, acc, fp)
    finally:
        if p is not None:
            try:
                p.cleanup()
            except Exception:
                pass


class _PoseOnly(Exception):
    """raised by the spy in place of scipy.optimize.minimize when only its arguments are wanted."""


def run_and_judge(p, drv, spec, ref, ex, opt, variant, case, acc, fp, pre='', warm=False, pose_only=False):
    """One run_driver() of `p` (set up, start point already set) judged against the reference `ref` of the
    plain spec `spec` (start point spec['x0']).  `pre` is prepended to every mechanism key.
    -> {'status': raised|refused|failed|skip|ok|viol, 'mon': Monitor, 'z': reported design or None}
    (refused = scipy rejected a start point that really is infeasible: discarded, the Problem stays usable;
    posed = pose_only: run_driver() was stopped at the call of scipy.optimize.minimize, arguments captured)"""
    import openmdao.drivers.scipy_optimizer as so
    from omv.gen import qpmodel
    has_eq = any(c.get('equals') is not None for c in spec['cons'])
    has_lin = any(c.get('linear') for c in spec['cons'])
    neg = variant.startswith('neg')
    cell = 'cell:%s/%s/%s' % (opt, variant, 'eq' if has_eq else ('lin' if has_lin else 'nl'))
    orig_min = so.minimize
    info = {'status': None, 'mon': None, 'z': None}

    def viol(key, what, **kw):
        info['status'] = 'viol'
        acc.viol(pre + key, what, case, fp=fp, **kw)

    def skip(reason):
        info['status'] = 'skip'
        acc.skip(reason)

    try:
        mon = Monitor(drv, ref, spec['x0'], acc)
        info['mon'] = mon
        mon.install()

        def spy(fun, x0, **kw):
            mon.captured = dict(kw, x0=np.array(x0, float))
            acc.count('obs:minimize-arguments-captured')
            if pose_only:
                raise _PoseOnly()
            return orig_min(fun, x0, **kw)
        so.minimize = spy
        try:
            p.run_driver()
        except _PoseOnly:
            info['status'] = 'posed'
            return info
        except Exception as e:   # noqa
            where = _where(e)
            msg = str(e)
            lin_tc = has_lin and opt == 'trust-constr'
            info['status'] = 'raised'
            if warm and opt == 'trust-constr' and 'infeasible' in msg and \
                    not _truly_feasible_start(ref, ref.x0, slack=1e-9, with_bounds=True):
                # a run started where the previous one ended: a point ON an active bound / linear
                # constraint is outside it by round-off as often as not, and scipy's keep_feasible refuses it
                acc.skip('trust-constr-keep_feasible-refuses-warm-start-on-the-boundary')
                info['status'] = 'refused'
                return info
            if neg:
                key = 'neg-scaler:%s:raises:%s@%s' % (variant, type(e).__name__, where)
            elif lin_tc:
                linrep = mon.linear_constraint_report() if mon.captured is not None else {
                    c['key']: ('array-constraint-rejected-before-minimize' if c['size'] > 1 else
                               'rejected-before-minimize') for c in ref.cons if c['d'].get('linear')}
                mech = _primary(m for m in linrep.values() if m)
                if not mech and 'infeasible' in msg and not _truly_feasible_start(ref, ref.x0):
                    # keep_feasible=True is how the driver documents it passes linear constraints; scipy
                    # then (loudly) refuses a start that really violates them
                    acc.skip('trust-constr-linear-constraint-refuses-truly-infeasible-start')
                    info['status'] = 'refused'
                    return info
                key = 'run_driver-raises:new-style-linear-constraint:%s:%s@%s' % (
                    mech or 'correctly-posed', type(e).__name__, where)
            else:
                key = 'run_driver-raises:%s:%s@%s:%s' % (opt, type(e).__name__, where, _stratum(spec))
            viol(key, '%s: %s' % (type(e).__name__, msg[:240]))
            info['status'] = 'raised'
            return info
        finally:
            so.minimize = orig_min
            mon.uninstall()
        success = bool(drv.result.success) and not drv.fail
        acc.count(cell)
        if mon.stale:
            acc.count('obs:runs-with-stale-constraint-values:' + opt)
        style = 'new-style' if opt in NEW_STYLE else 'old-style'
        if not neg:
            # what was handed to scipy.optimize.minimize, against the declaration (every run, not only when
            # a violation needs an explanation: a stale bound that is too tight only costs optimality)
            mon.args_label = _arguments_label(mon, ref, opt, acc)
        lab = mon.label(style)
        info['lab'] = lab
        info['success'] = success
        if not success:
            acc.count('obs:reported-failure:' + opt)
            skip('optimizer-reported-failure')
            info['status'] = 'failed'
            return info
        acc.count('obs:success:' + opt)
        res = drv._scipy_optimize_result
        z_model = qpmodel.get_z(p, spec)
        linrep = mon.linear_constraint_report() if (has_lin and opt == 'trust-constr') else {}
        if linrep and pre:
            acc.count('obs:history-rerun-linear-jacobian-compared')
        bad = []
        blamed_scipy = False
        # ---- (i) model left at the returned design (compared in optimizer space)
        xret = np.asarray(res.x, float).ravel()
        z = mon.sr.z(xret)                                # the reported design, model units
        xs_model = np.concatenate([v['scaled'] for v in ref.dv_vals(z_model).values()])
        acc.count('obs:model-state-compared')
        dx = np.max(np.abs(xs_model - xret) / (1.0 + np.abs(xret)))
        if dx > FEAS_TOL:
            # (independent of the bounds: also keyed by optimizer in the negative-scaler stratum)
            key = '%s:model-state-differs-from-returned-x' % opt
            bad.append((key, 'model is left at z=%s but the optimizer returned (unscaled) %s'
                        % (z_model.tolist(), z.tolist())))
        info['z'] = z
        if lab:
            acc.count('obs:anomaly:%s%s' % ('neg-scaler-stratum:' if neg else '', lab))
        # ---- guard for trust-constr: only judge what scipy itself claims converged
        judge_feas = True
        judge_opt = True
        premature_gtol = False
        if opt == 'trust-constr':
            cv = float(getattr(res, 'constr_violation', 0.0))
            og = float(getattr(res, 'optimality', 0.0))
            if cv > 1e-7:
                judge_feas = False
                acc.count('guard:trust-constr-own-constr_violation')
            if og > 1e-7 or cv > 1e-7:
                judge_opt = False
                acc.count('guard:trust-constr-own-optimality')
            # scipy's interior point variant stops as soon as its optimality measure (Lagrangian gradient
            # with least-squares multipliers; identically ~0 for n=1) passes gtol, even when the barrier
            # parameter mu has not been driven to barrier_tol (= tol = 1e-10 here); the returned point is
            # then a central-path point O(mu) away from the optimum.  A miss of the optimum is then not
            # blamed on OpenMDAO unless a monitor saw the driver hand scipy something wrong.
            bp = getattr(res, 'barrier_parameter', None)
            anomaly = bool(lab) or any(linrep.values()) or _finite_infinity_passed(mon)
            premature_gtol = (not anomaly and getattr(res, 'method', '') == 'tr_interior_point'
                              and bp is not None and float(bp) > 1e-7)
        # ---- (ii) elementwise feasibility of the reported design (harness evaluation)
        g = ref.g(z)
        nel = 0
        unenforced_inactive = 0
        infeasible = False
        if judge_feas:
            for c in ref.cons:
                vd = af.to_units(g[c['rows']], c['munits'], c['units'])
                lo, hi = ref.bounds(c)
                s, a = af.scaler_adder(c['sc'], c['size'])
                cd = c['d']
                if len(set(cd.get('pat') or 'x')) > 1 and isinstance(cd.get('lower') or cd.get('upper'), list):
                    acc.count('obs:array-bounds-mixed-pattern')
                for k in range(c['size']):
                    nel += 1
                    for side, bnd, sign in (('lower', lo[k], -1.0), ('upper', hi[k], 1.0)):
                        if abs(bnd) >= af.INF_BOUND:
                            continue
                        viol_d = sign * (vd[k] - bnd)
                        tol_d = FEAS_TOL * (1.0 + abs((bnd + a[k]) * s[k])) / abs(s[k])
                        # side as the optimizer sees it (a negative scaler reverses the orientation)
                        oside = side if s[k] > 0 else ('upper' if side == 'lower' else 'lower')
                        shown = (c['key'], k, oside) in mon.sides
                        if viol_d > tol_d:
                            infeasible = True
                            what = 'constraint %s[%d]=%.9g violates %s=%.9g by %.3g (tol %.1g) at reported ' \
                                'z=%s' % (c['key'], k, vd[k], side, bnd, viol_d, tol_d, z.tolist())
                            if neg:
                                bad.append(('neg-scaler:%s:success-with-violated-constraint' % variant, what))
                                continue
                            key = classify_element(opt, mon, c, k, side, linrep)
                            if key is None:
                                blamed_scipy = True
                                acc.count('guard:violation-on-correctly-posed-problem:' + opt)
                            else:
                                bad.append((key, what))
                        elif not shown and not (cd.get('linear') and opt == 'trust-constr'):
                            unenforced_inactive += 1
            for d in ref.dvs:
                vd = af.to_units(z[d['pos']], d['munits'], d['units'])
                lo, hi = ref.bounds(d)
                s, a = af.scaler_adder(d['sc'], d['size'])
                for k in range(d['size']):
                    nel += 1
                    for side, bnd, sign in (('lower', lo[k], -1.0), ('upper', hi[k], 1.0)):
                        if abs(bnd) >= af.INF_BOUND:
                            continue
                        viol_d = sign * (vd[k] - bnd)
                        tol_d = FEAS_TOL * (1.0 + abs((bnd + a[k]) * s[k])) / abs(s[k])
                        if viol_d > tol_d:
                            infeasible = True
                            what = 'design var %s[%d]=%.9g violates %s=%.9g by %.3g' % (
                                d['key'], k, vd[k], side, bnd, viol_d)
                            if neg:
                                bad.append(('neg-scaler:%s:success-with-violated-desvar-bound' % variant, what))
                                continue
                            # are the bounds handed to scipy the image of the declared ones ?
                            if _bounds_ok(mon, ref):
                                blamed_scipy = True
                                acc.count('guard:violation-on-correctly-posed-problem:' + opt)
                            else:
                                bad.append(('%s:desvar-bounds-passed-to-optimizer-wrong:%s' % (
                                    opt, 'array' if isinstance(d['d'].get(side), list) else 'scalar'), what))
            acc.count('obs:feasible-elements', nel)
            if unenforced_inactive:
                acc.count('obs:bound-sides-never-shown-to-optimizer-but-satisfied', unenforced_inactive)
        # ---- (iii) optimum
        if judge_opt and not infeasible:
            zs = ex['z']
            condQ = float(np.linalg.cond(ref.Q))
            tol = 1e-4 * (1.0 + np.max(np.abs(zs))) * np.sqrt(condQ)
            err = float(np.max(np.abs(z - zs)))
            acc.count('obs:optimum-compared')
            if np.any(ex['qp']['active'] != 0):
                acc.count('obs:active-at-optimum')
            acc.count('obs:err-decade:%s:%s' % (opt, 'le1e-8' if err <= 1e-8 else
                                                ('le1e-6' if err <= 1e-6 else
                                                 ('le1e-5' if err <= 1e-5 else 'gt1e-5'))))
            if err > tol:
                fgap = ref.f(z) - ex['f']
                what = 'reported z=%s, exact optimum %s (err %.3g > tol %.3g, f gap %.3g)' % (
                    z.tolist(), zs.tolist(), err, tol, fgap)
                style = 'new-style' if opt in NEW_STYLE else 'old-style'
                lin_m = _primary(m for m in linrep.values() if m)
                if neg:
                    bad.append(('neg-scaler:%s:not-the-optimum' % variant, what))
                elif premature_gtol:
                    blamed_scipy = True
                    acc.count('guard:trust-constr-stopped-on-gtol-before-barrier-parameter-reduced')
                elif lab:
                    bad.append((lab + ':not-the-optimum', what))
                elif lin_m:
                    bad.append(('new-style-linear-constraint:%s:not-the-optimum' % lin_m, what))
                else:
                    xc = run_control(opt, mon, drv)
                    acc.count('obs:control-runs')
                    if xc is not None and np.max(np.abs(mon.sr.z(xc) - zs)) <= tol and not (
                            _finite_infinity_passed(mon) and opt in NEW_STYLE) and \
                            outcome_is_roundoff_sensitive(opt, mon, drv, zs, tol):
                        blamed_scipy = True
                        acc.count('guard:optimizer-outcome-sensitive-to-roundoff:' + opt)
                    elif xc is not None and np.max(np.abs(mon.sr.z(xc) - zs)) <= tol:
                        key = '%s:not-the-optimum-while-control-run-converges:%s' % (opt, _stratum(spec))
                        if opt in NEW_STYLE and _finite_infinity_passed(mon):
                            # second control: identical, but absent bounds given as the finite number 1e30
                            x2 = run_control(opt, mon, drv, absent=af.INF_BOUND)
                            if x2 is None or np.max(np.abs(mon.sr.z(x2) - zs)) > tol:
                                key = 'new-style:absent-bound-passed-as-finite-1e30:not-the-optimum'
                        bad.append((key, what))
                    else:
                        blamed_scipy = True
                        acc.count('guard:control-run-misses-optimum-too:' + opt)
        if has_eq:
            acc.count('obs:equality-success')
        if has_lin:
            acc.count('obs:linear-success')
        if bad:
            seen = set()
            first = True
            for key, what in bad:
                if key in seen:
                    continue
                seen.add(key)
                viol(key, what, new_case=first)
                first = False
        elif blamed_scipy:
            skip('scipy-optimizer-unreliable-on-correctly-posed-problem')
        else:
            info['status'] = 'ok'
            acc.ok(fp, sample=case if acc.judged % 97 == 0 else None)
        return info
    finally:
        so.minimize = orig_min


def _bounds_kwargs(v, con):
    """kwargs for set_design_var_options / set_constraint_options that replace ALL bounds by those of `v`."""
    from omv.gen.qpmodel import _b
    if con and v.get('equals') is not None:
        return {'equals': _b(v['equals'])}
    return {'lower': _b(v.get('lower')), 'upper': _b(v.get('upper'))}


def apply_changes(p, comp, new, st, acc, case):
    """Make the changes of stage `st` on the live Problem (`new` = the spec after the changes)."""
    from omv.gen import qpmodel
    model = p.model
    sc = st.get('sc')
    bd = st.get('bounds')
    for grp, setter in (('dvs', model.set_design_var_options), ('cons', model.set_constraint_options)):
        for i, v in enumerate(new[grp]):
            kw = {}
            if bd and bd[grp][i] != 'keep':
                kw.update(_bounds_kwargs(v, grp == 'cons'))
                acc.count('obs:history-change:%s-bounds' % grp)
            if sc and sc[grp][i] != 'keep':
                kw.update(qpmodel.set_options_kwargs(v.get('sc')))
                acc.count('obs:history-change:%s-scaling' % grp)
            if kw:
                setter(v.get('alias') or v['name'], **kw)
    if sc and sc['obj'] != 'keep':
        kw = qpmodel.set_options_kwargs(new['obj'].get('sc'))
        acc.count('obs:history-change:obj-scaling')
        try:
            model.set_objective_options('f', **kw)
        except TypeError as e:
            if len(kw) != 1:
                raise
            # naming one member of a pair is what the two sibling methods accept and what the docstring offers
            # (mechanism independent of the history: key without the rerun-after prefix)
            acc.viol('set_objective_options-with-one-of-%s-raises:%s@%s' % (
                'scaler/adder' if ('scaler' in kw or 'adder' in kw) else 'ref/ref0', type(e).__name__, _where(e)),
                '%s: %s' % (type(e).__name__, str(e)[:200]), case, new_case=False)
            full = dict({'scaler': 1.0, 'adder': 0.0} if ('scaler' in kw or 'adder' in kw) else
                        {'ref': 1.0, 'ref0': 0.0}, **kw)
            model.set_objective_options('f', **full)       # same scaling, both members named
    if st.get('remodel'):
        comp.set_data(new)
        acc.count('obs:history-change:remodel')
    if st.get('resetup'):
        p.setup()
        acc.count('obs:history-change:resetup')
    if 'p' in st or st.get('resetup'):
        p.set_val('p', float(new['par']['p']))
        if 'p' in st:
            acc.count('obs:history-change:param')


def _cap_bounds(b):
    if b is None:
        return None
    if hasattr(b, 'lb'):
        return np.asarray(b.lb, float), np.asarray(b.ub, float)
    return (np.array([-np.inf if t[0] is None else t[0] for t in b], float),
            np.array([np.inf if t[1] is None else t[1] for t in b], float))


def _close(a, b):
    a = np.atleast_1d(np.asarray(a, float))
    b = np.atleast_1d(np.asarray(b, float))
    if a.shape != b.shape:
        return False
    fin = np.isfinite(b)
    if not np.array_equal(np.isfinite(a), fin) or not np.array_equal(a[~fin], b[~fin]):
        return False
    sc = 1.0 + (np.max(np.abs(b[fin])) if fin.any() else 0.0)
    return bool(np.all(np.abs(a[fin] - b[fin]) <= 1e-9 * sc))


def arguments_differ(ca, cb):
    """First argument of scipy.optimize.minimize that differs between two runs of the same optimizer-space
    problem from the same start (None = all equal within 1e-9 relative)."""
    if not _close(ca['x0'], cb['x0']):
        return 'x0'
    ba, bb = _cap_bounds(ca.get('bounds')), _cap_bounds(cb.get('bounds'))
    if (ba is None) != (bb is None) or (ba is not None and not (_close(ba[0], bb[0]) and _close(ba[1], bb[1]))):
        return 'bounds'
    la, lb_ = list(ca.get('constraints') or []), list(cb.get('constraints') or [])
    if len(la) != len(lb_):
        return 'number-of-constraints'
    for x, y in zip(la, lb_):
        if type(x).__name__ != type(y).__name__:
            return 'constraint-type'
        if isinstance(x, dict):
            if x.get('type') != y.get('type') or list(x.get('args') or []) != list(y.get('args') or []):
                return 'constraint-dict'
            continue
        if hasattr(x, 'A'):
            if not _close(x.A, y.A):
                return 'linear-constraint-jacobian'
            n = np.atleast_2d(np.asarray(y.A)).shape[0]
            if not (_close(np.asarray(x.lb, float) * np.ones(n), np.asarray(y.lb, float) * np.ones(n)) and
                    _close(np.asarray(x.ub, float) * np.ones(n), np.asarray(y.ub, float) * np.ones(n))):
                return 'linear-constraint-bounds'
        elif not (_close(x.lb, y.lb) and _close(x.ub, y.ub)):
            return 'constraint-bounds'
    if ca.get('tol') != cb.get('tol'):
        return 'tol'
    oa, ob = dict(ca.get('options') or {}), dict(cb.get('options') or {})
    if sorted(oa) != sorted(ob) or any(oa[k] != ob[k] for k in oa):
        return 'options'
    return None


def judge_history(case, acc):
    """The same Problem/driver run len(stages)+1 times with the changes of omv/ref/qphist.py in between; every
    run is judged by the oracle of the single runs for the values then current; the last one is also compared
    with a fresh Problem declared directly with the final values and started from the same point."""
    import openmdao.api as om   # noqa
    from omv.gen import qpmodel
    opt = case['opt']
    cur = copy.deepcopy(case['spec'])
    eff = qphist.effective(cur)
    ref = qpspec.RefModel(eff)
    fp = fingerprint({'st': qpspec.structure(eff), 'opt': opt, 'variant': 'hist', 'stage': 0})
    ex = _guards(ref, eff, opt, acc)
    if ex is None:
        return
    drv = make_driver(opt)
    p = p2 = None
    try:
        p, comp = qpmodel.build(cur, driver=drv)
        p.final_setup()
        info = run_and_judge(p, drv, eff, ref, ex, opt, 'hist0', case, acc, fp)
        pre = ''
        reached = info['mon'] is not None and info['mon'].captured is not None
        for k, st in enumerate(case['stages'], 1):
            if info['status'] == 'raised':
                acc.skip('history-abandoned-after-exception')
                return
            pre = 'rerun-after-%s:' % '+'.join(st['kinds'])
            new = qphist.apply_stage(cur, st)
            fp = fingerprint({'st': qpspec.structure(qphist.effective(new)), 'opt': opt, 'variant': 'hist',
                              'stage': k, 'kinds': st['kinds'], 'warm': st['warm']})
            z_prev = qpmodel.get_z(p, cur)
            try:
                apply_changes(p, comp, new, st, acc, case)
            except Exception as e:   # noqa
                acc.viol(pre + 'change-between-runs-raises:%s@%s' % (type(e).__name__, _where(e)),
                         '%s: %s' % (type(e).__name__, str(e)[:240]), case, fp=fp)
                return
            warm = bool(st['warm'] and np.all(np.isfinite(z_prev)) and qphist.inside_dv_bounds(new, z_prev))
            z_start = z_prev if warm else np.asarray(st['x0'], float)
            if st.get('resetup') or not warm:
                qpmodel.set_z(p, new, z_start)
            new['x0'] = [float(v) for v in z_start]
            acc.count('obs:history-start:%s' % ('warm' if warm else 'set'))
            cur = new
            eff = qphist.effective(cur)
            ref = qpspec.RefModel(eff)
            ex = _guards(ref, eff, opt, acc)
            if ex is None:
                return
            for kd in st['kinds']:
                acc.count('cell:history/%s/%s' % (opt, kd))
            info = run_and_judge(p, drv, eff, ref, ex, opt, 'hist', case, acc, fp, pre=pre, warm=warm)
            acc.count('obs:history-rerun-judged' if info['status'] in ('ok', 'viol') else
                      'obs:history-rerun-not-judged')
            reached = info['mon'] is not None and info['mon'].captured is not None
        if not case['stages'] or not reached or info['status'] == 'raised':
            return
        # ---- the same final problem, declared directly, in a fresh Problem with a fresh driver
        drv2 = make_driver(opt)
        p2, _ = qpmodel.build(cur, driver=drv2)
        p2.final_setup()
        fp2 = fingerprint({'st': qpspec.structure(eff), 'opt': opt, 'variant': 'fresh'})
        # (when the last run was judged and found right, the fresh Problem is only posed, not optimized)
        info2 = run_and_judge(p2, drv2, eff, ref, ex, opt, 'fresh', case, acc, fp2,
                              pose_only=(info['status'] == 'ok'))
        if info2['mon'] is None or info2['mon'].captured is None:
            return
        acc.count('obs:history-compared-with-fresh-problem')
        diff = arguments_differ(info['mon'].captured, info2['mon'].captured)
        if diff:
            acc.viol(pre + 'minimize-arguments-differ-from-fresh-problem:%s' % diff,
                     'the last run of the history hands scipy.optimize.minimize a different %s than a fresh '
                     'Problem declared with the final values and started from the same point' % diff,
                     case, fp=fp, new_case=False)
        elif info.get('success') is False and info2.get('success') and info.get('lab') and not info2.get('lab'):
            acc.viol(pre + info['lab'] + ':optimizer-fails-while-fresh-problem-succeeds',
                     'the run after the change fails with wrong callback values; a fresh Problem with the final '
                     'values succeeds from the same start', case, fp=fp, new_case=False)
        elif info.get('success') and info2.get('success') and info['z'] is not None and info2['z'] is not None:
            d = float(np.max(np.abs(info['z'] - info2['z'])))
            acc.count('obs:history-design-vs-fresh:%s' % ('identical' if d == 0.0 else
                                                          ('le1e-6' if d <= 1e-6 else 'gt1e-6')))
    finally:
        for q in (p, p2):
            if q is not None:
                try:
                    q.cleanup()
                except Exception:
                    pass


def _arguments_label(mon, ref, opt, acc):
    """Design-variable bounds and (new style) constraint bounds handed to scipy.optimize.minimize against the
    image of the declared ones -> mechanism or None."""
    cap = mon.captured
    if cap is None:
        return None
    acc.count('obs:minimize-bounds-compared')
    if not _bounds_ok(mon, ref):
        return 'desvar-bounds-passed-to-optimizer-differ-from-declared'
    if opt not in NEW_STYLE:
        return None
    objs = list(cap.get('constraints') or [])
    i = 0
    for c in ref.cons:
        if c['d'].get('linear') and opt == 'trust-constr':
            i += 1          # one LinearConstraint: see Monitor.linear_constraint_report
            continue
        lo, hi = mon.sr.lo[c['key']], mon.sr.hi[c['key']]
        for k in range(c['size']):
            if i >= len(objs) or type(objs[i]).__name__ != 'NonlinearConstraint':
                return None  # the layout itself is judged through Monitor.sides
            for got, want in ((objs[i].lb, lo[k]), (objs[i].ub, hi[k])):
                got = float(np.ravel(np.asarray(got, float))[0])
                if abs(want) >= af.INF_BOUND:
                    wrong = abs(got) < af.INF_BOUND / 10
                else:
                    wrong = not abs(got - want) <= 1e-9 * (1.0 + abs(want))
                if wrong:
                    return 'constraint-bounds-passed-to-optimizer-differ-from-declared'
            i += 1
    acc.count('obs:minimize-constraint-bounds-compared')
    return None


_MECH_ORDER = ['array-constraint-rejected-before-minimize', 'rejected-before-minimize', 'not-passed-to-optimizer',
               'jacobian-has-one-row-for-array-constraint', 'jacobian-has-wrong-row-for-array-constraint',
               'jacobian-ignores-declared-units', 'jacobian-mismatch',
               'constant-term-of-affine-constraint-ignored']


def _primary(mechs):
    mechs = set(mechs)
    for m in _MECH_ORDER:
        if m in mechs:
            return m
    return sorted(mechs)[0] if mechs else None


def _finite_infinity_passed(mon):
    for c in (mon.captured or {}).get('constraints') or []:
        for v in (getattr(c, 'lb', None), getattr(c, 'ub', None)):
            if v is not None and np.any((np.abs(np.asarray(v, float)) >= af.INF_BOUND) &
                                        np.isfinite(np.asarray(v, float))):
                return True
    return False


def _bounds_ok(mon, ref):
    """Bounds handed to scipy == image of the declared design-variable bounds."""
    cap = mon.captured or {}
    b = cap.get('bounds')
    if b is None:
        return False
    if hasattr(b, 'lb'):
        lb, ub = np.asarray(b.lb, float), np.asarray(b.ub, float)
    else:
        lb = np.array([-np.inf if t[0] is None else t[0] for t in b], float)
        ub = np.array([np.inf if t[1] is None else t[1] for t in b], float)
    lo_all, hi_all = [], []
    for d in ref.dvs:
        lo, hi = ref.bounds(d)
        ls, hs, _, _ = af.image_bounds(lo, hi, d['sc'])
        lo_all.append(np.where(ls <= -af.INF_BOUND, -np.inf, ls))
        hi_all.append(np.where(hs >= af.INF_BOUND, np.inf, hs))
    lo_all = np.concatenate(lo_all)
    hi_all = np.concatenate(hi_all)

    def close(a_, b_):
        fin = np.isfinite(b_)
        return np.array_equal(np.isfinite(a_), fin) and np.allclose(a_[fin], b_[fin], rtol=1e-10, atol=1e-12)
    return lb.shape == lo_all.shape and close(lb, lo_all) and close(ub, hi_all)


def _where(e):
    import os
    import traceback
    tb = traceback.extract_tb(e.__traceback__)
    for fr in reversed(tb):
        if '/openmdao/' in fr.filename:
            return '%s:%s' % (os.path.basename(fr.filename), fr.name)
    return '?'


def _con_stratum(cd, k):
    pat = cd.get('pat') or '?'
    form = 'array' if any(isinstance(cd.get(x), list) for x in ('lower', 'upper', 'equals')) else 'scalar'
    return '%s:%s:%s:%s' % ('linear' if cd.get('linear') else 'nonlinear', form,
                            'size1' if len(pat) == 1 else 'sizeN',
                            'indices' if cd.get('indices') is not None else 'full')


def _stratum(spec):
    t = []
    if any(c.get('linear') for c in spec['cons']):
        t.append('linear')
    if any(c.get('equals') is not None for c in spec['cons']):
        t.append('eq')
    if any(len(c.get('pat') or 'x') > 1 for c in spec['cons']):
        t.append('arraycon')
    if any(af.scaling_tags(v.get('sc'))[0] != 'noscale' for v in spec['dvs'] + spec['cons'] + [spec['obj']]):
        t.append('scaled')
    return '+'.join(t) or 'plain'


# ----------------------------------------------------------------------------------------------
def shards(tier, seed):
    nsh = 16 if tier == 'quick' else 32
    nprob = 6 if tier == 'quick' else 40
    return [{'seed': seed * 100003 + 7919 * k + 11, 'n': nprob, 'tier': tier} for k in range(nsh)]


def _acceptable(eff):
    """a later stage of a history must stay in the domain the single runs are drawn from."""
    ref = qpspec.RefModel(eff)
    if not well_scaled(ref):
        return False
    ex = ref.exact()
    return ex is not None and max(ex['qp']['kkt']) <= 1e-8


def gen_histories(rng, base):
    """One problem -> one multi-run case per optimizer (instead of its 3 scaling variants x optimizers)."""
    spec0 = qphist.add_param(rng, base)
    if not any(c['linear'] for c in spec0['cons']) and rng.random() < 0.5:
        # (every g is affine in the design variables: the flag is legal on any of them)
        spec0['cons'][int(rng.integers(len(spec0['cons'])))]['linear'] = True
    if any(c['linear'] for c in spec0['cons']):
        # trust-constr (keep_feasible) needs a start that satisfies the linear constraints
        spec0['x0'] = qphist.start_point(rng, spec0, 0.05)
    vs = variants(spec0, rng, with_neg=False)
    out = []
    for opt in OPTS:
        order = rng.permutation(len(vs))
        good = [int(k) for k in order if _acceptable(qphist.effective(vs[int(k)][1]))]
        s0 = vs[good[0] if good else int(order[0])][1]
        nst = 3 if rng.random() < 0.5 else 2
        stages = qphist.gen_history(rng, s0, nst, opt in EQ_OPTS, MAG, _acceptable)
        out.append({'spec': s0, 'opt': opt, 'variant': 'hist', 'stages': stages})
    return out


def run_shard(shard, acc):
    rng = np.random.default_rng(shard['seed'])
    for i in range(shard['n']):
        base = gen_base(rng)
        if i % 3 == 1:
            # history stratum: the same Problem/driver run 2-3 times with changes in between
            for case in gen_histories(np.random.default_rng(int(rng.integers(2 ** 31))), base):
                judge(case, acc)
            continue
        vs = variants(base, rng, with_neg=(i % 3 == 0))
        for variant, spec in vs:
            for opt in OPTS:
                if variant.startswith('neg') and opt not in ('SLSQP', 'trust-constr'):
                    continue
                judge({'spec': spec, 'opt': opt, 'variant': variant}, acc)


def run_case(case, acc):
    judge(case, acc)


def coverage_extra(tier, agg):
    cells = sorted(k[5:] for k in agg['counters'] if k.startswith('cell:'))
    return {'exhaustive': False, 'cells_visited': cells}
