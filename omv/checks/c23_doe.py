"""C23 - DOE generators stay within bounds and cover their designs.

Monitor: (a) generator-level: the cases a generator yields for the design variables of a real, set-up
problem are compared with the combinatorial definition (bounds; full factorial = product of the level
grids; Latin hypercube = one sample per stratum per dimension; level membership for the 2/3-level
designs; reproducibility of seeded generators); (b) driver-level: a harness component logs the inputs of
every evaluation during DOEDriver / AnalysisDriver runs, and a recorder is read back; evaluation k must
equal generated case k converted from the declared units to model units (no driver scaling), untouched
entries (indices) must keep their value, and #evaluations == #cases == #recorded cases.
"""
import itertools
import os

import numpy as np

from omv.core import fingerprint
from omv.ref import affine as af

PROPERTY = 'C23'
LEVEL = 'exploration'
TECHNIQUE = 'runtime monitoring: generated/evaluated DOE points vs combinatorial definitions'
RULE = ('random design-variable sets (1-4 variables of size 1-3, scalar/array bounds, declared units, indices, '
        'scaler/adder/ref/ref0) x generators {Uniform, FullFactorial(int/dict levels), GeneralizedSubset, '
        'PlackettBurman, BoxBehnken, LatinHypercube(all criteria), List, CSV} x both families (DOEDriver '
        'doe_generators, AnalysisDriver sampling generators); distinct = distinct (variable structure, '
        'generator kind+parameters, family); non-trivial = at least 2 cases generated')
LEVEL_TEXT = 'sampled exploration of generator configurations; each generated design checked completely'
ASSUMPTIONS = [
    'DOE values are in the declared units of the design variable and are not driver-scaled (documented '
    'behaviour of DOEDriver); bounds are declared in those units',
    'both bounds are finite for every factor (DOE over an unbounded factor is outside the property)',
    'levels >= 2; Latin-hypercube stratum membership is judged only when the sample is >1e-9 (relative to the '
    'stratum width) away from a stratum boundary',
    'pydoe provides the index designs; the property is about the mapping to values and their application',
    'Latin-hypercube criteria are requested only where they are defined: "correlation" needs >= 2 factors and '
    '>= 3 samples (with 2 samples every pairwise correlation is +-1), "maximin"/"centermaximin" need >= 2 samples '
    '(pairwise distances); pydoe.lhs itself raises (ValueError/UnboundLocalError from an empty reduction) for those '
    'degenerate sizes before OpenMDAO maps anything - such a rejection is discarded, a design that is '
    'nevertheless produced is judged',
]
MIN_JUDGED = {'quick': 300, 'thorough': 4000}
REQUIRED_COUNTERS = ['obs:gen:doe:uniform', 'obs:gen:doe:fullfact', 'obs:gen:doe:lhs', 'obs:gen:doe:pb',
                     'obs:gen:doe:bb', 'obs:gen:doe:gsd', 'obs:gen:doe:list', 'obs:gen:doe:csv',
                     'obs:gen:analysis:uniform', 'obs:gen:analysis:fullfact', 'obs:gen:analysis:lhs',
                     'obs:fullfact-product-compared', 'obs:lhs-strata-dimensions', 'obs:seeded-reproducibility',
                     'obs:driver-evaluations-compared', 'obs:recorded-cases-compared', 'obs:units-converted',
                     'obs:indices-applied', 'obs:scaled-desvar']
SHARD_TIMEOUT = {'quick': 2400, 'thorough': 6000}   # ~80 CPU-s per quick shard; generous for loaded machines

LENGTH = ['m', 'cm', 'km', 'ft', 'inch']
TEMP = ['degK', 'degC', 'degF']
CRITERIA = [None, 'center', 'c', 'maximin', 'm', 'centermaximin', 'cm', 'correlation', 'corr']


# ----------------------------------------------------------------------------------------------
def gen_vars(rng):
    nv = int(rng.integers(1, 5))
    out = []
    for i in range(nv):
        size = int(rng.integers(1, 4))
        fam = [None, LENGTH, TEMP][rng.integers(3)]
        mu = None if fam is None else fam[rng.integers(len(fam))]
        du = None if (fam is None or rng.random() < 0.5) else fam[rng.integers(len(fam))]
        idx = None
        if size > 1 and rng.random() < 0.35:
            k = int(rng.integers(1, size))
            idx = sorted(rng.choice(size, size=k, replace=False).tolist())
            if rng.random() < 0.3:
                idx = [j - size for j in idx]
        nfac = size if idx is None else len(idx)
        arr = nfac > 1 and rng.random() < 0.5
        if arr:
            lo = np.round(rng.normal(size=nfac) * 5, 3)
            hi = lo + np.round(np.exp(rng.uniform(-2, 3, size=nfac)), 3) + 0.001
            lower, upper = lo.tolist(), hi.tolist()
        else:
            lo = float(np.round(rng.normal() * 5, 3))
            lower, upper = lo, float(np.round(lo + np.exp(rng.uniform(-2, 3)) + 0.001, 3))
        sc = None
        r = rng.random()
        if r < 0.25:
            sc = {'kind': 'sa', 'scaler': float(np.round(np.exp(rng.uniform(-2, 2)), 3)),
                  'adder': float(np.round(rng.normal(), 3))}
        elif r < 0.45:
            r0 = float(np.round(rng.normal(), 3))
            sc = {'kind': 'ref', 'ref': float(np.round(r0 + np.exp(rng.uniform(-2, 2)) + 0.01, 3)), 'ref0': r0}
        init = np.round(rng.normal(size=size) * 3, 3).tolist()
        out.append({'name': 'x%d' % i, 'size': size, 'munits': mu, 'units': du, 'indices': idx,
                    'lower': lower, 'upper': upper, 'sc': sc, 'init': init})
    return out


def nfactors(vars_):
    return sum(v['size'] if v['indices'] is None else len(v['indices']) for v in vars_)


def gen_generator(rng, vars_, kind):
    nf = nfactors(vars_)
    g = {'kind': kind}
    if kind == 'uniform':
        g.update(num_samples=int(rng.integers(1, 7)), seed=int(rng.integers(0, 1000)))
    elif kind in ('fullfact', 'gsd'):
        maxlev = 3 if nf <= 4 else 2
        if rng.random() < 0.5:
            g['levels'] = int(rng.integers(2, maxlev + 1))
        else:
            d = {}
            for v in vars_:
                if rng.random() < 0.7:
                    d[v['name']] = int(rng.integers(2, maxlev + 1))
            if rng.random() < 0.5 or not d:
                d['default'] = int(rng.integers(2, maxlev + 1))
            g['levels'] = d
        if kind == 'gsd':
            g['reduction'] = int(rng.integers(2, 4))
            g['n'] = int(rng.integers(1, 3))
    elif kind == 'bb':
        g['center'] = [None, 1, 2][rng.integers(3)]
    elif kind == 'lhs':
        g.update(samples=[None, int(rng.integers(2, 9))][rng.integers(2)],
                 criterion=CRITERIA[rng.integers(len(CRITERIA))], iterations=int(rng.integers(2, 5)),
                 seed=int(rng.integers(0, 1000)))
    elif kind in ('list', 'csv'):
        g['ncases'] = int(rng.integers(1, 6))
        g['seed'] = int(rng.integers(0, 1000))
    return g


# ----------------------------------------------------------------------------------------------
def build(vars_, driver):
    import openmdao.api as om

    class LogComp(om.ExplicitComponent):
        def setup(self):
            self.log = []
            for v in vars_:
                self.add_input(v['name'], np.asarray(v['init'], float), units=v['munits'])
            self.add_output('y', 0.0)

        def compute(self, inputs, outputs):
            self.log.append({v['name']: np.array(inputs[v['name']], float) for v in vars_})
            outputs['y'] = sum(float(np.sum(inputs[v['name']])) for v in vars_)

    p = om.Problem()
    comp = LogComp()
    p.model.add_subsystem('c', comp, promotes=['*'])
    p.driver = driver
    return p, comp


def add_desvars(p, vars_):
    for v in vars_:
        lo = np.asarray(v['lower'], float) if isinstance(v['lower'], list) else v['lower']
        hi = np.asarray(v['upper'], float) if isinstance(v['upper'], list) else v['upper']
        p.model.add_design_var(v['name'], lower=lo, upper=hi, units=v['units'], indices=v['indices'],
                               **af.scaling_kwargs(v['sc']))
    p.model.add_objective('y')


def make_doe_generator(g, tmpdir=None, data=None):
    import openmdao.api as om
    k = g['kind']
    if k == 'uniform':
        return om.UniformGenerator(num_samples=g['num_samples'], seed=g['seed'])
    if k == 'fullfact':
        return om.FullFactorialGenerator(levels=g['levels'])
    if k == 'gsd':
        return om.GeneralizedSubsetGenerator(levels=g['levels'], reduction=g['reduction'], n=g['n'])
    if k == 'pb':
        return om.PlackettBurmanGenerator()
    if k == 'bb':
        return om.BoxBehnkenGenerator(center=g['center'])
    if k == 'lhs':
        return om.LatinHypercubeGenerator(samples=g['samples'], criterion=g['criterion'],
                                          iterations=g['iterations'], seed=g['seed'])
    if k == 'list':
        return om.ListGenerator(data)
    if k == 'csv':
        return om.CSVGenerator(os.path.join(tmpdir, 'cases.csv'))
    raise ValueError(k)


def make_analysis_generator(g, vars_):
    from openmdao.drivers.sampling import pyDOE_generators as pg
    from openmdao.drivers.sampling.uniform_generator import UniformGenerator as UG
    vd = {}
    for v in vars_:
        nf = v['size'] if v['indices'] is None else len(v['indices'])
        lo = np.asarray(v['lower'], float) * np.ones(nf)
        hi = np.asarray(v['upper'], float) * np.ones(nf)
        vd[v['name']] = {'lower': lo, 'upper': hi, 'units': v['units'], 'indices': v['indices']}
    k = g['kind']
    if k == 'uniform':
        return UG(vd, num_samples=g['num_samples'], seed=g['seed'])
    if k == 'fullfact':
        return pg.FullFactorialGenerator(vd, levels=g['levels'])
    if k == 'gsd':
        return pg.GeneralizedSubsetGenerator(vd, levels=g['levels'], reduction=g['reduction'], n=g['n'])
    if k == 'pb':
        return pg.PlackettBurmanGenerator(vd)
    if k == 'bb':
        return pg.BoxBehnkenGenerator(vd, center=g['center'])
    if k == 'lhs':
        return pg.LatinHypercubeGenerator(vd, samples=g['samples'], criterion=g['criterion'],
                                          iterations=g['iterations'], seed=g['seed'])
    raise ValueError(k)


def factor_bounds(vars_):
    lo, hi, owner = [], [], []
    for v in vars_:
        nf = v['size'] if v['indices'] is None else len(v['indices'])
        l = np.asarray(v['lower'], float) * np.ones(nf)
        h = np.asarray(v['upper'], float) * np.ones(nf)
        for k in range(nf):
            lo.append(l[k])
            hi.append(h[k])
            owner.append(v['name'])
    return np.array(lo), np.array(hi), owner


def levels_of(g, name):
    lv = g['levels']
    if isinstance(lv, int):
        return lv
    return lv.get(name, lv.get('default', 2))


def rows_from_cases(cases, vars_, family):
    """cases -> 2-D array (ncases x nfactors) ; raises ValueError when the case structure is wrong."""
    rows = []
    for case in cases:
        if family == 'doe':
            d = {}
            for name, val in case:
                if name in d:
                    raise ValueError('duplicate name %s in case' % name)
                d[name] = val
        else:
            d = {name: m['val'] for name, m in case.items()}
        if set(d) != set(v['name'] for v in vars_):
            raise ValueError('case names %s != design variables %s' % (sorted(d), [v['name'] for v in vars_]))
        row = []
        for v in vars_:
            nf = v['size'] if v['indices'] is None else len(v['indices'])
            val = np.atleast_1d(np.asarray(d[v['name']], float)).ravel()
            if val.size != nf:
                raise ValueError('value of %s has size %d, expected %d' % (v['name'], val.size, nf))
            row.extend(val.tolist())
        rows.append(row)
    return np.asarray(rows, float).reshape(len(rows), nfactors(vars_))


def _vtag(vars_):
    t = []
    if any(isinstance(v['lower'], list) for v in vars_):
        t.append('array-bounds')
    if any(v['units'] for v in vars_):
        t.append('units')
    if any(v['indices'] is not None for v in vars_):
        t.append('indices')
    if any(v['sc'] for v in vars_):
        t.append('scaled')
    return '+'.join(t) or 'plain'


def lhs_criterion_undefined(g, vars_):
    """reason when the requested LHS optimisation criterion is undefined for the design size, else None.

    pydoe.lhs (third party) fails in exactly this class: _lhscorrelate takes max over the off-diagonal
    correlations != 1 (empty for one factor; empty when every correlation of a 2-sample design rounds to +1; NaN
    for one sample), _lhsmaximin takes min over the pairwise distances (empty for one sample)."""
    n = nfactors(vars_)
    s = g['samples'] if g['samples'] is not None else n
    c = g['criterion']
    if c in ('correlation', 'corr') and (n < 2 or s < 3):
        return 'lhs-correlation-criterion-undefined:<2-factors-or-<3-samples'
    if c in ('maximin', 'm', 'centermaximin', 'cm') and s < 2:
        return 'lhs-maximin-criterion-undefined:1-sample'
    return None


def raise_site(e):
    """'<module>.<function>' of the innermost openmdao/pydoe frame of the traceback of e (the mechanism of a raise)."""
    import traceback
    site = None
    for fr in traceback.extract_tb(e.__traceback__):
        fn = fr.filename.replace(os.sep, '/')
        for pk in ('/openmdao/', '/pydoe/'):
            if pk in fn and '/omv/' not in fn:
                site = '%s.%s' % (os.path.splitext(os.path.basename(fn))[0], fr.name)
    return site or 'outside-openmdao'


def check_design(acc, g, vars_, rows, family, bad):
    """Combinatorial definition of the design `rows` (ncases x nfactors)."""
    kind = g['kind']
    lo, hi, owner = factor_bounds(vars_)
    pre = '%s:%s' % (family, kind)
    tolb = 1e-12 * (1 + np.abs(lo) + np.abs(hi))
    if rows.size and (np.any(rows < lo - tolb) or np.any(rows > hi + tolb)):
        j = int(np.argmax(np.max(np.maximum(lo - rows, rows - hi), axis=0)))
        bad.append(('%s:value-outside-bounds:%s' % (pre, 'array-bounds' if isinstance(
            [v for v in vars_ if v['name'] == owner[j]][0]['lower'], list) else 'scalar-bounds'),
            'factor %d (%s): values %s outside [%g, %g]' % (j, owner[j], rows[:, j].tolist()[:6], lo[j], hi[j])))
    acc.count('obs:bounds-checked-values', int(rows.size))
    if kind == 'fullfact':
        grids = []
        for j in range(lo.size):
            L = levels_of(g, owner[j])
            grids.append([lo[j] + (hi[j] - lo[j]) * t / (L - 1) for t in range(L)])
        want = np.asarray(list(itertools.product(*grids)), float).reshape(-1, lo.size)
        acc.count('obs:fullfact-product-compared')
        lev_tag = 'int-levels' if isinstance(g['levels'], int) else (
            'dict-levels-default' if 'default' in g['levels'] else 'dict-levels')
        if rows.shape != want.shape:
            bad.append(('%s:case-count:%s' % (pre, lev_tag), '%d cases generated, product of levels has %d'
                        % (rows.shape[0], want.shape[0])))
        else:
            a = rows[np.lexsort(np.round(rows, 9).T[::-1])]
            b = want[np.lexsort(np.round(want, 9).T[::-1])]
            if np.any(np.abs(a - b) > 1e-10 * (1 + np.abs(b))):
                bad.append(('%s:not-the-product-of-level-grids:%s' % (pre, lev_tag),
                            'generated multiset differs from itertools.product of linspace grids, e.g. row %s vs %s'
                            % (a[np.argmax(np.max(np.abs(a - b), axis=1))].tolist(),
                               b[np.argmax(np.max(np.abs(a - b), axis=1))].tolist())))
    elif kind in ('pb', 'bb', 'gsd'):
        for j in range(lo.size):
            L = 2 if kind == 'pb' else (3 if kind == 'bb' else levels_of(g, owner[j]))
            grid = np.array([lo[j] + (hi[j] - lo[j]) * t / (L - 1) for t in range(L)])
            d = np.min(np.abs(rows[:, j][:, None] - grid[None, :]), axis=1) if rows.size else np.zeros(0)
            if np.any(d > 1e-10 * (1 + np.abs(lo[j]) + np.abs(hi[j]))):
                bad.append(('%s:value-not-on-level-grid' % pre,
                            'factor %d values %s not in grid %s' % (j, rows[:, j].tolist()[:6], grid.tolist())))
                break
        acc.count('obs:level-grid-compared')
    elif kind == 'lhs':
        n = rows.shape[0]
        want_n = g['samples'] if g['samples'] is not None else lo.size
        if n != want_n:
            bad.append(('%s:case-count' % pre, '%d samples generated, %d requested' % (n, want_n)))
        else:
            for j in range(lo.size):
                u = (rows[:, j] - lo[j]) / (hi[j] - lo[j]) * n
                if np.any(np.abs(u - np.round(u)) < 1e-9):
                    acc.count('guard:lhs-sample-on-stratum-boundary')
                    continue
                acc.count('obs:lhs-strata-dimensions')
                st = np.floor(u).astype(int)
                if sorted(st.tolist()) != list(range(n)):
                    bad.append(('%s:strata-not-a-permutation:%s' % (pre, g['criterion'] or 'random'),
                                'dimension %d: strata %s for %d samples' % (j, st.tolist(), n)))
                    break


def expected_inputs(vars_, row, prev):
    """model inputs (model units) after applying one case to the previous model state."""
    out = {k: v.copy() for k, v in prev.items()}
    o = 0
    for v in vars_:
        nf = v['size'] if v['indices'] is None else len(v['indices'])
        vals = np.asarray(row[o:o + nf], float)
        o += nf
        m = af.from_units(vals, v['munits'], v['units'] or v['munits'])
        if v['indices'] is None:
            out[v['name']] = m
        else:
            out[v['name']][np.asarray(v['indices'], int)] = m
    return out


def judge(case, acc):
    import tempfile
    import openmdao.api as om
    vars_ = case['vars']
    g = case['gen']
    family = case['family']
    kind = g['kind']
    fp = fingerprint({'vars': [{k: (v[k] if k in ('size', 'munits', 'units') else
                                   (None if v[k] is None else type(v[k]).__name__))
                                for k in ('size', 'munits', 'units', 'indices', 'lower', 'sc')} for v in vars_],
                      'gen': {k: v for k, v in g.items() if k != 'seed'}, 'family': family})
    bad = []
    p = None
    tmpdir = tempfile.mkdtemp(prefix='c23-', dir='.')
    try:
        # ---- the data set for List/CSV generators: a random in-bounds design of our own
        data = None
        own_rows = None
        if kind in ('list', 'csv'):
            r2 = np.random.default_rng(g['seed'])
            lo, hi, _ = factor_bounds(vars_)
            own_rows = lo + (hi - lo) * np.round(r2.random((g['ncases'], lo.size)), 6)
            data = []
            for row in own_rows:
                o = 0
                cs = []
                for v in vars_:
                    nf = v['size'] if v['indices'] is None else len(v['indices'])
                    cs.append((v['name'], np.array(row[o:o + nf])))
                    o += nf
                data.append(cs)
            if kind == 'csv':
                with open(os.path.join(tmpdir, 'cases.csv'), 'w') as f:
                    f.write(','.join(v['name'] for v in vars_) + '\n')
                    for cs in data:
                        f.write(','.join('"' + ' '.join(repr(float(x)) for x in val) + '"' for _, val in cs) + '\n')
        if kind == 'bb' and nfactors(vars_) < 3:
            acc.skip('box-behnken-needs-3-factors')
            return

        # ---- generator level --------------------------------------------------------------
        def fresh():
            return make_doe_generator(g, tmpdir, data) if family == 'doe' else make_analysis_generator(g, vars_)

        if family == 'doe':
            # design-variable metadata comes from a real, set-up problem
            p, comp = build(vars_, om.DOEDriver())
            add_desvars(p, vars_)
            p.setup()
            p.final_setup()
            dvmeta = p.driver._designvars

            def cases_of(gen_):
                return list(gen_(dvmeta, p.model))
        else:
            def cases_of(gen_):
                return list(gen_)
        try:
            gen1 = fresh()
            cases1 = cases_of(gen1)
        except Exception as e:   # noqa
            if kind == 'gsd':
                acc.skip('gsd-rejected-configuration')
                return
            why = lhs_criterion_undefined(g, vars_) if kind == 'lhs' else None
            if why:
                acc.skip(why)
                return
            acc.viol('generator-raises:%s@%s:%s:%s' % (type(e).__name__, raise_site(e), family, kind),
                     '%s: %s [%s]' % (type(e).__name__, str(e)[:200], _vtag(vars_)), case, fp=fp)
            return
        acc.count('obs:gen:%s:%s' % (family, kind))
        try:
            rows = rows_from_cases(cases1, vars_, family)
        except ValueError as e:
            acc.viol('malformed-case:%s:%s' % (family, kind), '%s [%s]' % (str(e)[:200], _vtag(vars_)), case, fp=fp)
            return
        if kind in ('list', 'csv'):
            if rows.shape != own_rows.shape or np.any(rows != own_rows):
                bad.append(('%s:%s:cases-differ-from-data-set' % (family, kind),
                            'generator yields %s for data %s' % (rows.tolist()[:2], own_rows.tolist()[:2])))
        check_design(acc, g, vars_, rows, family, bad)
        # reproducibility of seeded / deterministic generators
        if kind in ('uniform', 'lhs', 'fullfact', 'pb', 'bb', 'gsd'):
            try:
                rows2 = rows_from_cases(cases_of(fresh()), vars_, family)
                np.random.seed(12345)     # perturb the global RNG state between the calls
                np.random.random(7)
                rows3 = rows_from_cases(cases_of(fresh()), vars_, family)
                acc.count('obs:seeded-reproducibility')
                if rows2.shape != rows.shape or np.any(rows2 != rows) or np.any(rows3 != rows):
                    bad.append(('%s:%s:same-seed-different-design:%s' % (
                        family, kind, (g.get('criterion') or 'random') if kind == 'lhs' else 'fresh-generator'),
                        'two generators with identical parameters/seed give different designs'))
                if family == 'doe':
                    rows4 = rows_from_cases(cases_of(gen1), vars_, family)
                    if rows4.shape != rows.shape or np.any(rows4 != rows):
                        bad.append(('%s:%s:second-call-of-same-generator-differs' % (family, kind),
                                    'calling the same generator object twice gives different designs'))
            except Exception as e:   # noqa
                bad.append(('%s:%s:regeneration-raises:%s' % (family, kind, type(e).__name__), str(e)[:200]))
        if p is not None:
            p.cleanup()
            p = None

        # ---- driver level -----------------------------------------------------------------
        if case.get('drive', True) and rows.shape[0] > 0:
            rec = om.SqliteRecorder(os.path.join(tmpdir, 'cases.sql'))
            if family == 'doe':
                drv = om.DOEDriver(fresh())
            else:
                drv = om.AnalysisDriver(fresh())
            drv.add_recorder(rec)
            drv.recording_options['includes'] = ['*']
            drv.recording_options['record_inputs'] = True
            p, comp = build(vars_, drv)
            if family == 'doe':
                add_desvars(p, vars_)
            else:
                drv.add_response('y')
            p.setup()
            p.final_setup()
            seen = []
            orig = drv._run_solve_nonlinear

            def spy():
                r = orig()
                seen.append({v['name']: np.array(p.get_val(v['name']), float).ravel() for v in vars_})
                return r
            drv._run_solve_nonlinear = spy
            n0 = len(comp.log)
            try:
                p.run_driver()
            except Exception as e:   # noqa
                acc.viol('run_driver-raises:%s@%s:%s:%s' % (type(e).__name__, raise_site(e), family, kind),
                         '%s: %s [%s]' % (type(e).__name__, str(e)[:200], _vtag(vars_)), case, fp=fp)
                return
            evals = comp.log[n0:]
            p.cleanup()
            acc.count('obs:driver-runs')
            if len(evals) != rows.shape[0] or len(seen) != rows.shape[0]:
                bad.append(('%s:%s:evaluation-count' % (family, kind),
                            '%d cases generated, component evaluated %d times, _run_solve_nonlinear hit %d times'
                            % (rows.shape[0], len(evals), len(seen))))
            else:
                prev = {v['name']: np.asarray(v['init'], float) for v in vars_}
                for k in range(rows.shape[0]):
                    want = expected_inputs(vars_, rows[k], prev)
                    prev = want
                    acc.count('obs:driver-evaluations-compared')
                    for v in vars_:
                        nm = v['name']
                        tol = 1e-10 * (1 + np.abs(want[nm]))
                        if v['units'] and v['units'] != v['munits']:
                            acc.count('obs:units-converted')
                        if v['indices'] is not None:
                            acc.count('obs:indices-applied')
                        if v['sc']:
                            acc.count('obs:scaled-desvar')
                        for src, got in (('component-input', evals[k][nm]), ('get_val', seen[k][nm])):
                            if got.shape != want[nm].shape or np.any(np.abs(got - want[nm]) > tol):
                                tag = []
                                if v['units'] and v['units'] != v['munits']:
                                    tag.append('units')
                                if v['indices'] is not None:
                                    tag.append('indices')
                                if v['sc']:
                                    tag.append('scaled')
                                bad.append(('%s:%s:evaluated-point-differs-from-generated:%s' % (
                                    family, 'any-generator', '+'.join(tag) or 'plain'),
                                    'evaluation %d (%s): %s=%s, generated case (model units) %s' % (
                                        k, src, nm, got.tolist(), want[nm].tolist())))
                                break
                # recorder
                try:
                    cr = om.CaseReader(os.path.join(tmpdir, 'cases.sql'))
                    ids = cr.list_cases('driver', out_stream=None)
                    if len(ids) != rows.shape[0]:
                        bad.append(('%s:%s:recorded-case-count' % (family, kind),
                                    '%d cases generated, %d recorded' % (rows.shape[0], len(ids))))
                    else:
                        prev = {v['name']: np.asarray(v['init'], float) for v in vars_}
                        for k, cid in enumerate(ids):
                            cs = cr.get_case(cid)
                            want = expected_inputs(vars_, rows[k], prev)
                            prev = want
                            acc.count('obs:recorded-cases-compared')
                            for v in vars_:
                                got = np.asarray(cs.get_val(v['name']), float).ravel()
                                if got.shape != want[v['name']].shape or \
                                        np.any(np.abs(got - want[v['name']]) > 1e-10 * (1 + np.abs(want[v['name']]))):
                                    bad.append(('%s:any-generator:recorded-point-differs-from-generated' % family,
                                                'recorded case %d: %s=%s, generated (model units) %s' % (
                                                    k, v['name'], got.tolist(), want[v['name']].tolist())))
                                    break
                except Exception as e:   # noqa
                    bad.append(('%s:%s:reading-recorded-cases-raises:%s' % (family, kind, type(e).__name__),
                                str(e)[:200]))
            p = None
        if bad:
            seen_k = set()
            first = True
            for key, what in bad:
                if key in seen_k:
                    continue
                seen_k.add(key)
                acc.viol(key, what, case, fp=fp, new_case=first)
                first = False
        else:
            acc.ok(fp, nontrivial=rows.shape[0] >= 2, sample=case if acc.judged % 173 == 0 else None)
    finally:
        if p is not None:
            try:
                p.cleanup()
            except Exception:
                pass
        import shutil
        shutil.rmtree(tmpdir, ignore_errors=True)


# ----------------------------------------------------------------------------------------------
DOE_KINDS = ['uniform', 'fullfact', 'gsd', 'pb', 'bb', 'lhs', 'list', 'csv']
AN_KINDS = ['uniform', 'fullfact', 'gsd', 'pb', 'bb', 'lhs']


def shards(tier, seed):
    nsh = 16 if tier == 'quick' else 32
    n = 4 if tier == 'quick' else 16
    return [{'seed': seed * 100003 + 15485863 * k + 3, 'n': n} for k in range(nsh)]


def run_shard(shard, acc):
    rng = np.random.default_rng(shard['seed'])
    for i in range(shard['n']):
        vars_ = gen_vars(rng)
        for kind in DOE_KINDS:
            judge({'vars': vars_, 'gen': gen_generator(rng, vars_, kind), 'family': 'doe'}, acc)
        for kind in AN_KINDS:
            judge({'vars': vars_, 'gen': gen_generator(rng, vars_, kind), 'family': 'analysis'}, acc)


def run_case(case, acc):
    judge(case, acc)
