"""C34 - Function-based and jax components compute their functions and exact partials.

Monitor: random smooth function bodies (primitives common to numpy and jax.numpy) are rendered twice:
once for the component under test (ExplicitFuncComp / ImplicitFuncComp through openmdao.func_api, or a
JaxExplicitComponent / JaxImplicitComponent subclass) and once as a plain NumPy function that the harness
calls directly.  Outputs / residuals, the component's own sub-jacobians and total derivatives (fwd or
rev; for implicit components after a Newton solve, against the implicit-function theorem applied to the
reference) are compared with the direct evaluation and its complex-step derivative.  Coloring /
sparsity detection is observed through the same comparison (a dropped or misplaced structurally
nonzero entry is a mismatch).
"""
import importlib
import os
import re
import sys

import numpy as np

from omv.core import fingerprint
from omv.gen import funcs as F
from omv.gen.compkit import dense_subjac, worst, perturbed_spread, tol_of, cs_jac, EPS, conv

PROPERTY = 'C34'
LEVEL = 'exploration'
TECHNIQUE = 'runtime monitoring: func/jax component outputs, sub-jacobians, totals vs direct NumPy evaluation + complex step'
RULE = ('random smooth functions (sin, cos, tanh, exp(0.1 u), squares, products, sums, dot/matmul/@, outer, '
        'transpose, indexing, reversal, slicing, concatenation, axis sums; depth <= 3), 1-3 inputs and 1-3 '
        'outputs/states of shapes () ... (3,4), optional static (option) argument; ExplicitFuncComp / '
        'ImplicitFuncComp x method {cs, fd, jax} x declare_partials {all, dependent pairs} x declare_coloring x '
        'use_jit x argument order; JaxExplicitComponent / JaxImplicitComponent x partial declaration {none '
        '(inferred), all, pairs} x declare_coloring x use_jit x matrix_free x fwd/rev; two input points per '
        'component; distinct = distinct (component kind, function source, configuration); non-trivial = '
        'values and derivatives compared.  quick tier: smaller functions (depth <= 2, <= 2 outputs, shapes up to '
        '(2,3), jit for 1 case in 4) and the grid component class x declaration style x coloring x (method | '
        'matrix_free) walked round-robin (every cell >= 2 times) plus as many cheap cs/fd function components; '
        'thorough tier: the grid is sampled at random')
ASSUMPTIONS = [
    'the same function body evaluated with NumPy by the harness is the reference; derivatives by complex step',
    'tolerance = 20 x spread of the reference under 1e-13 relative input perturbations (3 draws) + 64 ulp of the '
    'largest entry; method fd additionally gets its truncation bound 1.5 |J(x + h e_j) - J(x)| + 4 ulp |f| / h',
    'implicit residuals are diagonally dominant in the states (c s + 0.3 sin s, c >= 2), so Newton converges and '
    'the implicit-function-theorem totals are well conditioned; the reference state is solved to 1e-14',
    'undeclared (of, wrt) pairs are only left undeclared when the reference derivative is identically zero at '
    'three random points',
]
MIN_JUDGED = {'quick': 150, 'thorough': 3000}
KINDS = ['ExplicitFuncComp', 'ImplicitFuncComp', 'JaxExplicitComponent', 'JaxImplicitComponent']
REQUIRED_COUNTERS = ['kind:' + k for k in KINDS] + \
    ['obs:output', 'obs:residual', 'obs:partials', 'obs:totals-fwd', 'obs:totals-rev', 'obs:solved-state',
     'obs:coloring-used:ExplicitFuncComp', 'obs:coloring-used:ImplicitFuncComp',
     'obs:coloring-used:JaxExplicitComponent', 'cell:coloring-declared:JaxImplicitComponent',
     'cell:method-cs', 'cell:method-fd', 'cell:method-jax', 'cell:jit', 'cell:nojit', 'cell:static',
     'cell:matrix_free', 'cell:decl-pairs', 'cell:decl-inferred', 'obs:second-point'] + \
    ['cell:%s/decl-%s/%s' % (k, d, c) for k in KINDS for d in (('none', 'all', 'pairs') if k.startswith('Jax')
                                                              else ('all', 'pairs'))
     for c in ('coloring', 'nocoloring')]
SHARD_TIMEOUT = {'quick': 1200, 'thorough': 3600}

FD_STEP = 1e-6
_COUNTER = [0]


def pick(rng, seq):
    return seq[int(rng.integers(len(seq)))]


# ----------------------------------------------------------------------------------------------
# case generation
# ----------------------------------------------------------------------------------------------
# configuration grid (component class x declaration style x coloring [x method / matrix_free]); the quick tier walks
# through it round-robin (every cell is visited a few times), the thorough tier samples it at random
FUNC_CELLS = [{'decl': d, 'coloring': c, 'method': m} for m in ('cs', 'jax', 'fd') for c in (False, True)
              for d in ('all', 'pairs')]
JAX_CELLS = [{'decl': d, 'coloring': c, 'matrix_free': False} for c in (False, True) for d in ('none', 'all', 'pairs')] + \
    [{'decl': 'none', 'coloring': False, 'matrix_free': True}, {'decl': 'all', 'coloring': False, 'matrix_free': True}] + \
    [{'decl': 'none', 'coloring': c, 'matrix_free': False} for c in (False, True)]   # inferred partials: double weight


def cells_of(kind):
    return JAX_CELLS if kind.startswith('Jax') else FUNC_CELLS


def cell_name(kind, cfg):
    return 'cell:%s/decl-%s/%s' % (kind, cfg['decl'], 'coloring' if cfg['coloring'] else 'nocoloring')


def gen_case(rng, kind, lite=False, cell=None):
    """One case.  lite: small functions (quick tier); cell: configuration entries that are imposed."""
    jaxkind = kind.startswith('Jax')
    with_static = bool(rng.random() < 0.3)
    # quick tier: the jax components whose partials are inferred from the source get the function style that the
    # inference has to see through (method forms on compound receivers)
    methods = bool(lite and jaxkind and cell and cell.get('decl') == 'none' and not cell.get('matrix_free'))
    if kind in ('ExplicitFuncComp', 'JaxExplicitComponent'):
        fd = F.gen_explicit(rng, with_static=with_static, lite=lite, methods=methods)
    else:
        fd = F.gen_implicit(rng, with_static=with_static, lite=lite, methods=methods)
    cfg = {'mode': str(pick(rng, ['fwd', 'rev'])), 'use_jit': bool(rng.random() < 0.5),
           'coloring': bool(rng.random() < 0.55), 'static_val': float(np.round(rng.uniform(0.5, 2.0), 3)),
           'shape_decl': str(pick(rng, ['shape', 'val']))}
    if jaxkind:
        cfg['method'] = 'jax'
        cfg['decl'] = str(pick(rng, ['none', 'none', 'all', 'pairs']))
        cfg['matrix_free'] = bool(rng.random() < 0.2)
        if cfg['matrix_free']:
            cfg['coloring'] = False
    else:
        cfg['method'] = str(pick(rng, ['cs', 'cs', 'fd', 'jax', 'jax', 'jax']))
        cfg['decl'] = str(pick(rng, ['all', 'all', 'pairs']))
        cfg['matrix_free'] = False
    if lite:
        # most of the quick tier runs without jit: eagerly executed primitives are compiled once per process and
        # operand shape and are shared by all cases of a shard, a jitted function is compiled for one case only
        cfg['use_jit'] = bool(rng.random() < 0.25)
    if cell:
        cfg.update(cell)
    if cfg['matrix_free']:
        cfg['coloring'] = False
    if cfg['method'] != 'jax':
        cfg['use_jit'] = False
    names = list(fd['inputs'])
    if kind == 'ImplicitFuncComp':
        # states interleaved with the inputs in the function signature
        order = names + list(fd['states'])
        order = [order[i] for i in rng.permutation(len(order))]
        if rng.random() < 0.7:
            # keep the states in the order of their residuals (only their positions among the inputs vary)
            it = iter(fd['states'])
            order = [next(it) if a in fd['states'] else a for a in order]
    elif kind == 'JaxImplicitComponent':
        order = names + list(fd['states'])
    else:
        order = names
    if fd['static']:
        if jaxkind:
            pass
        else:
            pos = int(rng.integers(len(order) + 1))
            order = order[:pos] + [fd['static']] + order[pos:]
    cfg['arg_order'] = order
    pts = []
    for _ in range(2):
        pt = {n: np.round(rng.uniform(-1.5, 1.5, size=tuple(s)), 6).tolist() for n, s in fd['inputs'].items()}
        for n, s in fd.get('states', {}).items():
            pt[n] = np.round(rng.uniform(-1.5, 1.5, size=tuple(s)), 6).tolist()
        pts.append(pt)
    return {'kind': kind, 'fdesc': fd, 'cfg': cfg, 'points': pts}


# ----------------------------------------------------------------------------------------------
# reference function (NumPy rendering, executed directly by the harness)
# ----------------------------------------------------------------------------------------------
def reference_callable(case):
    fd, cfg = case['fdesc'], case['cfg']
    implicit = 'states' in fd
    rets = ['r%d' % k for k in range(len(fd['states']))] if implicit else list(fd['outputs'])
    args = list(fd['inputs']) + (list(fd['states']) if implicit else [])
    if fd['static']:
        args.append(fd['static'])
    src = F.module_header('np') + F.render_function('ref', args, fd['lines'], rets, 'np')
    ns = {}
    exec(compile(src, '<omv-c34-reference>', 'exec'), ns)   # noqa: S102 - our own generated source
    fun = ns['ref']
    kval = cfg['static_val']
    shapes = [tuple(fd['states'][s]) for s in fd['states']] if implicit else [tuple(s) for s in fd['outputs'].values()]

    def call(arrs):
        a = list(arrs)
        if fd['static']:
            a.append(kval)
        a = [np.asarray(x)[()] if np.ndim(x) == 0 else x for x in a]
        res = fun(*a)
        if not isinstance(res, tuple):
            res = (res,)
        return [np.broadcast_to(np.asarray(r), shp) for r, shp in zip(res, shapes)]
    return call, src


# ----------------------------------------------------------------------------------------------
# component construction
# ----------------------------------------------------------------------------------------------
def _write_module(src):
    _COUNTER[0] += 1
    name = 'omvgen_c34_%d_%d' % (os.getpid(), _COUNTER[0])
    with open(name + '.py', 'w') as f:
        f.write(src)
    cwd = os.getcwd()
    if cwd not in sys.path:
        sys.path.insert(0, cwd)
    importlib.invalidate_caches()
    return importlib.import_module(name), name


def _dependent_pairs(case, refcall, ofs, wrts, shapes_in):
    """(of, wrt) pairs whose reference derivative is nonzero at any of three random points."""
    rng = np.random.default_rng(12345)
    dep = set()
    for _ in range(3):
        xs = [rng.uniform(-1.5, 1.5, size=s) for s in shapes_in]
        _, J = cs_jac(refcall, xs)
        for oi, o in enumerate(ofs):
            for ii, w in enumerate(wrts):
                if np.any(J[oi][ii] != 0):
                    dep.add((o, w))
    return dep


def build_funccomp(case, refcall):
    import openmdao.api as om
    import openmdao.func_api as omf
    fd, cfg = case['fdesc'], case['cfg']
    implicit = case['kind'] == 'ImplicitFuncComp'
    rets = ['r%d' % k for k in range(len(fd['states']))] if implicit else list(fd['outputs'])
    src = F.module_header('np') + F.render_function('func', cfg['arg_order'], fd['lines'], rets, 'np')
    mod, modname = _write_module(src)
    f = omf.wrap(mod.func)
    for n, s in fd['inputs'].items():
        if cfg['shape_decl'] == 'shape':
            f.add_input(n, shape=tuple(s))
        else:
            f.add_input(n, val=np.ones(tuple(s)))
    if implicit:
        for k, (n, s) in enumerate(fd['states'].items()):
            f.add_output(n, resid='r%d' % k, shape=tuple(s))
        ofs = list(fd['states'])
        wrts = list(fd['inputs']) + list(fd['states'])
        shapes_in = [tuple(s) for s in fd['inputs'].values()] + [tuple(s) for s in fd['states'].values()]
    else:
        for n, s in fd['outputs'].items():
            f.add_output(n, shape=tuple(s))
        ofs = list(fd['outputs'])
        wrts = list(fd['inputs'])
        shapes_in = [tuple(s) for s in fd['inputs'].values()]
    if fd['static']:
        f.declare_option(fd['static'], default=cfg['static_val'])
    m = cfg['method']
    if cfg['decl'] == 'all':
        f.declare_partials(of='*', wrt='*', method=m)
    else:
        for (o, w) in sorted(_dependent_pairs(case, refcall, ofs, wrts, shapes_in)):
            f.declare_partials(of=o, wrt=w, method=m)
    if cfg['coloring']:
        f.declare_coloring(wrt='*', method=m, show_summary=False)
    kw = {}
    if m == 'jax':
        kw['use_jit'] = cfg['use_jit']
    comp = om.ImplicitFuncComp(f, **kw) if implicit else om.ExplicitFuncComp(f, **kw)
    return comp, src, modname


def build_jaxcomp(case, refcall):
    fd, cfg = case['fdesc'], case['cfg']
    implicit = case['kind'] == 'JaxImplicitComponent'
    base = 'om.JaxImplicitComponent' if implicit else 'om.JaxExplicitComponent'
    L = ['class Comp(%s):' % base]
    if fd['static']:
        L += ['    def initialize(self):',
              "        self.options.declare('kopt', default=%r)" % cfg['static_val'],
              '    def get_self_statics(self):',
              "        return (self.options['kopt'],)"]
    L.append('    def setup(self):')
    for n, s in fd['inputs'].items():
        # a scalar `val` means "default_shape" (1,) for a component, so () must be given as shape
        if cfg['shape_decl'] == 'shape' or tuple(s) == ():
            L.append('        self.add_input(%r, shape=%r)' % (n, tuple(s)))
        else:
            L.append('        self.add_input(%r, val=np.ones(%r))' % (n, tuple(s)))
    if implicit:
        ofs = list(fd['states'])
        wrts = list(fd['inputs']) + list(fd['states'])
        shapes_in = [tuple(s) for s in fd['inputs'].values()] + [tuple(s) for s in fd['states'].values()]
        for n, s in fd['states'].items():
            L.append('        self.add_output(%r, shape=%r)' % (n, tuple(s)))
        rets = ['r%d' % k for k in range(len(fd['states']))]
    else:
        ofs = list(fd['outputs'])
        wrts = list(fd['inputs'])
        shapes_in = [tuple(s) for s in fd['inputs'].values()]
        for n, s in fd['outputs'].items():
            L.append('        self.add_output(%r, shape=%r)' % (n, tuple(s)))
        rets = list(fd['outputs'])
    sp = []
    if cfg['decl'] == 'all':
        sp.append("        self.declare_partials('*', '*')")
    elif cfg['decl'] == 'pairs':
        for (o, w) in sorted(_dependent_pairs(case, refcall, ofs, wrts, shapes_in)):
            sp.append('        self.declare_partials(%r, %r)' % (o, w))
    if cfg['coloring']:
        sp.append('        self.declare_coloring(show_summary=False)')
    if sp:
        L.append('    def setup_partials(self):')
        L += sp
    args = ['self'] + [a for a in cfg['arg_order'] if a != fd['static']]
    L.append('    def compute_primal(%s):' % ', '.join(args))
    for ln in fd['lines']:
        ln = ln.replace('XP.', 'jnp.')
        if fd['static']:
            ln = ln.replace('kopt', "self.options['kopt']")
        L.append('        ' + ln)
    if implicit:
        # return names of a jax component must equal its output names or be expressions: return expressions
        L.append('        return %s' % ', '.join('(%s + 0.0)' % r for r in rets))
    else:
        L.append('        return %s' % ', '.join(rets))
    src = F.module_header('jnp') + '\n'.join(L) + '\n'
    mod, modname = _write_module(src)
    kw = {'use_jit': cfg['use_jit']}
    if cfg['matrix_free']:
        kw['matrix_free'] = True
    comp = mod.Comp(**kw)
    return comp, src, modname


# ----------------------------------------------------------------------------------------------
# judging
# ----------------------------------------------------------------------------------------------
def _subkind(case):
    """Component kind plus the a-priori risk class of the configuration (part of the mechanism key)."""
    kind, c, fd = case['kind'], case['cfg'], case['fdesc']
    if kind == 'ImplicitFuncComp':
        sig = [a for a in c['arg_order'] if a in fd['states']]
        if sig != list(fd['states']):
            return kind + '/states-permuted'      # states in the signature ordered unlike their residuals
        if c['coloring'] and c['method'] == 'jax':
            nouts = sum(F.size(s) for s in fd['states'].values())
            nins = sum(F.size(s) for s in fd['inputs'].values())
            if c['mode'] != ('fwd' if nouts >= nins else 'rev'):
                return kind + '/jax-coloring-mode-differs-from-best-direction'
    if kind == 'ExplicitFuncComp' and c['method'] == 'jax' and len(fd['inputs']) == 1:
        return kind + '/jax-single-arg'
    if kind == 'JaxImplicitComponent' and c['coloring']:
        return kind + '/coloring'
    if kind.startswith('Jax') and c['decl'] == 'none' and any(re.search(r'\)\.[A-Za-z]', ln) for ln in fd['lines']):
        # partial dependencies are inferred from the source; an attribute of a parenthesised expression
        # ((a * b).T) is one of the constructs that inference has to see through
        return kind + '/inferred-deps+attribute-of-expression'
    return kind


def _cfgclass(case):
    c = case['cfg']
    f = []
    if c['coloring']:
        f.append('coloring')
    f += [c['method'], 'decl-' + c['decl']]
    if c.get('matrix_free'):
        f.append('matrix_free')
    return '+'.join(f)


def _where(e):
    import traceback
    frames = traceback.extract_tb(e.__traceback__)
    om = [fr for fr in frames if '/openmdao/' in fr.filename]
    fr = (om or frames)[-1]
    return '%s:%d:%s' % (os.path.basename(fr.filename), fr.lineno, fr.name)


class Ctx(object):
    def __init__(self, case, acc):
        self.case, self.acc = case, acc
        self.bad = False
        self.fp = fingerprint({'kind': case['kind'], 'f': case['fdesc']['lines'], 'cfg': case['cfg']})

    def viol(self, obs, what):
        kind = _subkind(self.case)
        # mechanism (input class + observable) first, configuration cell last: one mechanism that shows in several
        # cells can be listed with a narrow '<input class>:<observable>:*' prefix
        self.acc.viol('%s:%s:%s' % (kind, obs, _cfgclass(self.case)), what, self.case, fp=self.fp,
                      new_case=not self.bad)
        self.bad = True


def _cmp(ctx, obs, label, got, ref, tol):
    got = np.asarray(got, dtype=float)
    ref = np.asarray(ref, dtype=float)
    if got.size != ref.size:
        ctx.viol(obs + '-shape', '%s has size %d, expected %d' % (label, got.size, ref.size))
        return False
    got = got.reshape(ref.shape)
    if not np.all(np.isfinite(got)) or np.any(np.abs(got - ref) > tol):
        ctx.viol(obs, '%s: %s (tol %.3g)' % (label, worst(got, ref), float(np.max(tol))))
        return False
    return True


def _fd_bound(refcall, xs, J0, o0):
    """Truncation + round-off bound of a forward difference with absolute step FD_STEP."""
    B = [[np.zeros(j.shape) for j in row] for row in J0]
    fmax = max([float(np.max(np.abs(o))) if o.size else 0.0 for o in o0] + [1e-300])
    for ii, x in enumerate(xs):
        for k in range(x.size):
            xp = [a.copy() for a in xs]
            xp[ii].reshape(-1)[k] += FD_STEP
            _, J1 = cs_jac(refcall, xp)
            for oi in range(len(J0)):
                B[oi][ii][:, k] = 1.5 * np.abs(J1[oi][ii][:, k] - J0[oi][ii][:, k]) + 4 * EPS * fmax / FD_STEP \
                    + 8 * EPS * np.max(np.abs(x)) / FD_STEP * np.abs(J0[oi][ii][:, k])
    return B


def judge(case, acc, seed=0):
    import openmdao.api as om
    kind, fd, cfg = case['kind'], case['fdesc'], case['cfg']
    ctx = Ctx(case, acc)
    implicit = 'states' in fd
    jaxkind = kind.startswith('Jax')
    refcall, refsrc = reference_callable(case)
    in_names = list(fd['inputs'])
    st_names = list(fd['states']) if implicit else []
    out_names = st_names if implicit else list(fd['outputs'])
    modname = None
    # the generated reference itself must be evaluable (an exception here is a harness error, not a finding)
    refcall([np.array(case['points'][0][n], dtype=float).reshape(tuple(shp))
             for n, shp in list(fd['inputs'].items()) + (list(fd['states'].items()) if implicit else [])])
    # what is being attempted (counted even when the case fails early)
    acc.count('kind:' + kind)
    acc.count(cell_name(kind, cfg))
    if cfg['coloring']:
        acc.count('cell:coloring-declared:' + kind)
    acc.count('cell:method-' + cfg['method'])
    acc.count('cell:jit' if cfg['use_jit'] else 'cell:nojit')
    if fd['static']:
        acc.count('cell:static')
    if cfg.get('matrix_free'):
        acc.count('cell:matrix_free')
    if cfg['decl'] == 'pairs':
        acc.count('cell:decl-pairs')
    if cfg['decl'] == 'none':
        acc.count('cell:decl-inferred')
    for p in fd['prims']:
        acc.count('prim:' + p)
    try:
        try:
            comp, src, modname = (build_jaxcomp if jaxkind else build_funccomp)(case, refcall)
            case['source'] = src
            prob = om.Problem()
            ivc = prob.model.add_subsystem('ivc', om.IndepVarComp())
            for n, s in fd['inputs'].items():
                ivc.add_output(n, val=np.ones(tuple(s)))
            prob.model.add_subsystem('c', comp)
            for n in in_names:
                prob.model.connect('ivc.' + n, 'c.' + n)
            if implicit:
                prob.model.linear_solver = om.DirectSolver(assemble_jac=False) if cfg.get('matrix_free') \
                    else om.DirectSolver()
                prob.model.nonlinear_solver = om.NewtonSolver(solve_subsystems=False, maxiter=40, atol=1e-13,
                                                              rtol=1e-14, iprint=-1)
            prob.setup(mode=cfg['mode'])
            prob.final_setup()
        except Exception as e:
            ctx.viol('setup-raises:' + type(e).__name__, '%s at %s: %s' % (type(e).__name__, _where(e), str(e)[:400]))
            return
        mode = cfg['mode']
        for pi, pt in enumerate(case['points']):
            tag = '' if pi == 0 else ':2nd-point'
            if pi > 0 and ctx.bad:
                break
            xs = [np.array(pt[n], dtype=float).reshape(tuple(fd['inputs'][n])) for n in in_names]
            ss = [np.array(pt[n], dtype=float).reshape(tuple(fd['states'][n])) for n in st_names]
            allx = xs + ss
            o0, J0, Do, DJ = perturbed_spread(refcall, allx, seed * 31 + pi)
            extra = None
            if cfg['method'] == 'fd':
                extra = _fd_bound(refcall, allx, J0, o0)
            try:
                for n, x in zip(in_names, xs):
                    prob.set_val('ivc.' + n, x)
                if implicit:
                    for n, s in zip(st_names, ss):
                        prob.set_val('c.' + n, s)
                    # propagate inputs without touching the states: run the ivc transfer via apply_nonlinear
                    prob.model.run_apply_nonlinear()
                    res = [np.asarray(comp._residuals[n], dtype=float).copy() for n in st_names]
                    prob.model.run_linearize()
                else:
                    prob.run_model()
                    res = [np.asarray(prob.get_val('c.' + n), dtype=float) for n in out_names]
            except Exception as e:
                ctx.viol('run-raises:%s%s' % (type(e).__name__, tag),
                         '%s at %s: %s' % (type(e).__name__, _where(e), str(e)[:400]))
                return
            # ---- values
            for k, n in enumerate(out_names):
                acc.count('obs:residual' if implicit else 'obs:output')
                want_shape = tuple(fd['states'][n]) if implicit else tuple(fd['outputs'][n])
                if tuple(np.shape(res[k])) != want_shape and not (want_shape == () and np.size(res[k]) == 1):
                    ctx.viol('value-shape', '%s has shape %s, declared %s' % (n, np.shape(res[k]), want_shape))
                    continue
                _cmp(ctx, ('residual' if implicit else 'output') + tag, ('residual of ' if implicit else 'output ') + n,
                     res[k], o0[k], tol_of(o0[k], Do[k]))
            # ---- sub-jacobians stored by the component
            if not cfg.get('matrix_free'):
                if not implicit:
                    try:
                        prob.model.run_linearize()
                    except Exception as e:
                        ctx.viol('linearize-raises:%s%s' % (type(e).__name__, tag),
                                 '%s at %s: %s' % (type(e).__name__, _where(e), str(e)[:400]))
                        return
                wrts = in_names + st_names
                for oi, o in enumerate(out_names):
                    for ii, w in enumerate(wrts):
                        ref = J0[oi][ii]
                        tol = tol_of(ref, DJ[oi][ii]) + 16 * EPS * np.abs(ref)
                        if extra is not None:
                            tol = tol + extra[oi][ii]
                        sj = dense_subjac(comp, o, w)
                        acc.count('obs:partials')
                        if sj is None:
                            if np.any(ref != 0):
                                ctx.viol('partials-undeclared-nonzero' + tag,
                                         'd%s/d%s is not declared but the derivative is nonzero' % (o, w))
                            continue
                        _cmp(ctx, 'partials' + tag, 'partial d%s/d%s' % (o, w), sj, ref, tol)
            # ---- totals
            try:
                if implicit:
                    prob.run_model()   # Newton solve from the current states
                    sol = [np.asarray(prob.get_val('c.' + n), dtype=float).reshape(tuple(fd['states'][n]))
                           for n in st_names]
                tot = prob.compute_totals(of=['c.' + n for n in out_names], wrt=['ivc.' + n for n in in_names],
                                          return_format='flat_dict')
            except Exception as e:
                ctx.viol('totals-raises:%s%s' % (type(e).__name__, tag),
                         '%s at %s: %s' % (type(e).__name__, _where(e), str(e)[:400]))
                return
            if implicit:
                # reference solve: Newton on the NumPy function
                sref = [s.copy() for s in ss]
                ok = False
                for _ in range(60):
                    r, Jr = cs_jac(refcall, xs + sref)
                    rv = np.concatenate([a.reshape(-1) for a in r])
                    if np.max(np.abs(rv)) < 1e-14:
                        ok = True
                        break
                    A = np.block([[Jr[oi][len(xs) + si] for si in range(len(sref))] for oi in range(len(sref))])
                    ds = np.linalg.solve(A, -rv)
                    k0 = 0
                    for a in sref:
                        a += ds[k0:k0 + a.size].reshape(a.shape)
                        k0 += a.size
                if not ok:
                    acc.count('guard:reference-newton-not-converged')
                else:
                    acc.count('obs:solved-state')

                    def ift(arrs):
                        # totals of the reference at (arrs = inputs + converged states)
                        r, Jr = cs_jac(refcall, arrs)
                        A = np.block([[Jr[oi][len(xs) + si] for si in range(len(sref))] for oi in range(len(sref))])
                        Bm = np.block([[Jr[oi][ii] for ii in range(len(xs))] for oi in range(len(sref))])
                        return A, -np.linalg.solve(A, Bm)
                    A, T = ift(xs + sref)
                    condA = np.linalg.cond(A)
                    for k, n in enumerate(st_names):
                        # Newton stopped at |R| <= 1e-13 (abs) => state error <= cond-scaled 1e-13
                        _cmp(ctx, 'solved-state' + tag, 'converged state ' + n, sol[k], sref[k],
                             1e-11 * condA * (1.0 + np.abs(sref[k])))
                    # conditioning of the totals: perturb inputs and states by 1e-13 relative
                    rng = np.random.default_rng(seed + 5)
                    DT = np.zeros(T.shape)
                    for _ in range(3):
                        ap = [a * (1 + 1e-13 * rng.uniform(-1, 1, a.shape)) for a in xs + sref]
                        DT = np.maximum(DT, np.abs(ift(ap)[1] - T))
                    r0 = 0
                    for oi, o in enumerate(st_names):
                        nr = sref[oi].size
                        c0 = 0
                        for ii, w in enumerate(in_names):
                            nc = xs[ii].size
                            ref = T[r0:r0 + nr, c0:c0 + nc]
                            tol = tol_of(T, DT[r0:r0 + nr, c0:c0 + nc]) + 1e-10 * condA * np.max(np.abs(T))
                            if cfg['method'] == 'fd':
                                tol = tol + 1e-4 * condA * (np.max(np.abs(T)) + 1.0)
                            acc.count('obs:totals-' + mode)
                            _cmp(ctx, 'totals-%s%s' % (mode, tag), 'total d%s/d%s' % (o, w), tot['c.' + o, 'ivc.' + w],
                                 ref, tol)
                            c0 += nc
                        r0 += nr
            else:
                for oi, o in enumerate(out_names):
                    for ii, w in enumerate(in_names):
                        ref = J0[oi][ii]
                        tol = tol_of(ref, DJ[oi][ii]) + 64 * EPS * np.abs(ref)
                        if extra is not None:
                            tol = tol + extra[oi][ii]
                        acc.count('obs:totals-' + mode)
                        _cmp(ctx, 'totals-%s%s' % (mode, tag), 'total d%s/d%s' % (o, w), tot['c.' + o, 'ivc.' + w],
                             ref, tol)
            if pi == 1:
                acc.count('obs:second-point')
        # ---- evidence
        try:
            if comp._coloring_info.coloring is not None:
                acc.count('obs:coloring-used:' + kind)
        except Exception:
            pass
        if not ctx.bad:
            acc.ok(ctx.fp, sample=({'kind': kind, 'lines': fd['lines'], 'cfg': cfg} if acc.judged % 17 == 0 else None))
    finally:
        try:
            prob.cleanup()
        except Exception:
            pass
        if modname:
            sys.modules.pop(modname, None)
            try:
                os.unlink(modname + '.py')
            except OSError:
                pass


# ----------------------------------------------------------------------------------------------
# framework entry points
# ----------------------------------------------------------------------------------------------
def shards(tier, seed):
    if tier == 'quick':
        # 6 shards x 4 rounds x (4 component classes on the grid + 4 cheap cs/fd function components) = 192 small
        # cases; few shards, because the import of jax/openmdao and the compilation of jax primitives are paid once
        # per process (a jax case costs 1-3 CPU-seconds, a cs/fd case < 0.1)
        return [{'seed': seed * 9973 + k, 'per': 4, 'lite': True, 'index': k, 'offset': seed, 'extra': 2}
                for k in range(6)]
    return [{'seed': seed * 9973 + k, 'per': 20} for k in range(48)]


def run_shard(shard, acc):
    import jax
    jax.config.update('jax_enable_x64', True)
    rng = np.random.default_rng(shard['seed'])
    lite = bool(shard.get('lite'))
    for rep in range(shard['per']):
        for ki, kind in enumerate(KINDS):
            cell = None
            if lite:
                cells = cells_of(kind)
                # round-robin over the grid; consecutive rounds of all shards together cover it several times
                cell = cells[(shard['index'] * shard['per'] + rep + shard.get('offset', 0) * 5 + ki * 3) % len(cells)]
            case = gen_case(rng, kind, lite=lite, cell=cell)
            judge(case, acc, seed=shard['seed'] + rep)
        for _ in range(shard.get('extra', 0)):
            for kind in KINDS[:2]:
                case = gen_case(rng, kind, lite=lite, cell={'method': str(pick(rng, ['cs', 'cs', 'fd']))})
                judge(case, acc, seed=shard['seed'] + rep)


def run_case(case, acc):
    import jax
    jax.config.update('jax_enable_x64', True)
    judge(case, acc, seed=0)


def coverage_extra(tier, agg):
    return {'exhaustive': False,
            'primitives_exercised': sorted(k[5:] for k in agg['counters'] if k.startswith('prim:'))}
