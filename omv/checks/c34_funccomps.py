"""C34 - Function-based and jax components compute their functions and exact partials.

Monitor: random smooth function bodies (primitives common to numpy and jax.numpy) are rendered twice:
once for the component under test (ExplicitFuncComp / ImplicitFuncComp through openmdao.func_api, or a
JaxExplicitComponent / JaxImplicitComponent subclass) and once as a plain NumPy function that the harness
calls directly.  Outputs / residuals, the component's own sub-jacobians and total derivatives (fwd or
rev; for implicit components after a Newton solve, against the implicit-function theorem applied to the
reference) are compared with the direct evaluation and its complex-step derivative.  Coloring /
sparsity detection is observed through the same comparison (a dropped or misplaced structurally
nonzero entry is a mismatch).

Histories (jax components): the sparsity pattern of a jax component is detected once, at its first linearization.
A second family of cases therefore puts the FIRST linearization (run_linearize, compute_totals / the Newton solve, or
check_partials) at a degenerate point - exact zeros, the default values, equal entries, zeros among generic entries -
where structurally nonzero derivatives of functions with higher-order stationary points (cubes, cubes of differences,
triple products, ...) vanish, and judges the linearizations at later generic points; optionally a second setup
(also with other variable sizes) and changes of the static value (option or discrete input; possibly 0 at the start)
happen in between.
"""
import importlib
import os
import re
import sys

import numpy as np

from omv.core import fingerprint
from omv.gen import funcs as F
from omv.gen.compkit import dense_subjac, worst, perturbed_spread, tol_of, cs_jac, EPS, conv

PROPERTY = 'C34'
LEVEL = 'exploration'
TECHNIQUE = 'runtime monitoring: func/jax component outputs, sub-jacobians, totals vs direct NumPy evaluation + complex step'
RULE = ('random smooth functions (sin, cos, tanh, exp(0.1 u), squares, products, sums, dot/matmul/@, outer, '
        'transpose, indexing, reversal, slicing, concatenation, axis sums; depth <= 3), 1-3 inputs and 1-3 '
        'outputs/states of shapes () ... (3,4), optional static (option) argument; ExplicitFuncComp / '
        'ImplicitFuncComp x method {cs, fd, jax} x declare_partials {all, dependent pairs} x declare_coloring x '
        'use_jit x argument order; JaxExplicitComponent / JaxImplicitComponent x partial declaration {none '
        '(inferred), all, pairs} x declare_coloring x use_jit x matrix_free x fwd/rev; two input points per '
        'component; distinct = distinct (component kind, function source, configuration); non-trivial = '
        'values and derivatives compared.  quick tier: smaller functions (depth <= 2, <= 2 outputs, shapes up to '
        '(2,3), jit for 1 case in 4) and the grid component class x declaration style x coloring x (method | '
        'matrix_free) walked round-robin (every cell >= 2 times) plus as many cheap cs/fd function components; '
        'thorough tier: the grid is sampled at random.  Histories of jax components (quick 64, thorough 960): functions '
        'with higher-order stationary points; first linearization {run_linearize, compute_totals/Newton, check_partials} '
        'at a point of class {zeros, defaults (nothing set), equal entries, equal per variable, mixed, zeros among '
        'generic entries}, then two generic points (partials, totals judged at all three); x partial declaration {none, '
        'all, pairs} x declared in {setup_partials, setup} x coloring x jit; 30 % with a second setup before the second '
        'point (1 in 5 histories: the second setup changes the sizes (3,) -> (2,)/(4,)/(5,) through an option); static '
        'value as option or discrete input, changed between the points in 75 % of the cases that have one (first value '
        '0 in 1 of 7, -1 followed by -2 - two values of equal hash() - in 1 of 7)')
ASSUMPTIONS = [
    'the same function body evaluated with NumPy by the harness is the reference; derivatives by complex step',
    'tolerance = 20 x spread of the reference under 1e-13 relative input perturbations (3 draws) + 64 ulp of the '
    'largest entry; method fd additionally gets its truncation bound 1.5 |J(x + h e_j) - J(x)| + 4 ulp |f| / h',
    'implicit residuals are diagonally dominant in the states (c s + 0.3 sin s, c >= 2), so Newton converges and '
    'the implicit-function-theorem totals are well conditioned; the reference state is solved to 1e-14',
    'undeclared (of, wrt) pairs are only left undeclared when the reference derivative is identically zero at '
    'three random points',
    'jax derivatives of tanh are formed as 1 - tanh(u)**2 (jax rule): every derivative tolerance of a jax-method case '
    'includes the relative term 4 eps cosh(u_max)**2, u_max = largest |argument| of any tanh in the reference evaluation',
    'function components with coloring: a case is skipped when, at the first point (where the sparsity behind the '
    'coloring is sampled by fd / cs), a derivative that is nonzero at the second point is below 1e-9 x max(1, |f|, |J|) '
    'and 1000 x smaller than at the second point ("non-constant computed zeros", documented for dynamic coloring)',
    'histories: at degenerate points the conditioning estimate perturbs the operands by 1e-13 max(|x|, 1) (absolute '
    'where x = 0); every tolerance includes 1e-50 for the truncation error h^2 f\'\'\'/6 of the complex-step reference',
    'histories: a violation is filed under <class>/first-linearization-where-a-derivative-is-exactly-zero when every '
    'offending jacobian entry has a reference derivative that is exactly 0.0 at three points 1e-9 around the point of '
    'the governing first linearization (with the static value of that moment), or - with coloring - shares a row / '
    'column with such an entry; the harness decides this from its own NumPy reference only',
]
MIN_JUDGED = {'quick': 200, 'thorough': 3600}
KINDS = ['ExplicitFuncComp', 'ImplicitFuncComp', 'JaxExplicitComponent', 'JaxImplicitComponent']
REQUIRED_COUNTERS = ['kind:' + k for k in KINDS] + \
    ['obs:output', 'obs:residual', 'obs:partials', 'obs:totals-fwd', 'obs:totals-rev', 'obs:solved-state',
     'obs:coloring-used:ExplicitFuncComp', 'obs:coloring-used:ImplicitFuncComp',
     'obs:coloring-used:JaxExplicitComponent', 'cell:coloring-declared:JaxImplicitComponent',
     'cell:method-cs', 'cell:method-fd', 'cell:method-jax', 'cell:jit', 'cell:nojit', 'cell:static',
     'cell:matrix_free', 'cell:decl-pairs', 'cell:decl-inferred', 'obs:second-point',
     'hist:lin-via-linearize', 'hist:lin-via-totals', 'hist:lin-via-check_partials', 'hist:declared-in-setup',
     'hist:first-zeros', 'hist:first-defaults', 'hist:first-equal', 'hist:first-sparse-zeros',
     'obs:hist:derivative-below-roundoff-at-first-linearization',
     'obs:hist:judged-after-below-roundoff-derivative:JaxExplicitComponent',
     'obs:hist:judged-after-below-roundoff-derivative:JaxImplicitComponent',
     'obs:hist:judged-after-below-roundoff-derivative:coloring',
     'obs:hist:judged-after-below-roundoff-derivative:nocoloring',
     'obs:hist:judged-after-second-setup', 'obs:hist:judged-after-second-setup-with-other-sizes',
     'obs:hist:judged-after-static-change:option', 'obs:hist:judged-after-static-change:discrete'] + \
    ['cell:%s/decl-%s/%s' % (k, d, c) for k in KINDS for d in (('none', 'all', 'pairs') if k.startswith('Jax')
                                                              else ('all', 'pairs'))
     for c in ('coloring', 'nocoloring')]
SHARD_TIMEOUT = {'quick': 1200, 'thorough': 3600}

FD_STEP = 1e-6
# truncation error of the complex-step reference, h^2 |f'''| / 6 with h = 1e-30 (visible only where the derivative
# itself vanishes, e.g. x**3 at 0 gives -1e-60)
CS_TRUNC = 1e-50
_COUNTER = [0]


def pick(rng, seq):
    return seq[int(rng.integers(len(seq)))]


# ----------------------------------------------------------------------------------------------
# case generation
# ----------------------------------------------------------------------------------------------
# configuration grid (component class x declaration style x coloring [x method / matrix_free]); the quick tier walks
# through it round-robin (every cell is visited a few times), the thorough tier samples it at random
FUNC_CELLS = [{'decl': d, 'coloring': c, 'method': m} for m in ('cs', 'jax', 'fd') for c in (False, True)
              for d in ('all', 'pairs')]
JAX_CELLS = [{'decl': d, 'coloring': c, 'matrix_free': False} for c in (False, True) for d in ('none', 'all', 'pairs')] + \
    [{'decl': 'none', 'coloring': False, 'matrix_free': True}, {'decl': 'all', 'coloring': False, 'matrix_free': True}] + \
    [{'decl': 'none', 'coloring': c, 'matrix_free': False} for c in (False, True)]   # inferred partials: double weight


def cells_of(kind):
    return JAX_CELLS if kind.startswith('Jax') else FUNC_CELLS


def cell_name(kind, cfg):
    return 'cell:%s/decl-%s/%s' % (kind, cfg['decl'], 'coloring' if cfg['coloring'] else 'nocoloring')


def gen_case(rng, kind, lite=False, cell=None, hiorder=False, p_static=0.3, agnostic=False):
    """One case.  lite: small functions (quick tier); cell: configuration entries that are imposed; hiorder:
    functions with higher-order stationary points (histories)."""
    jaxkind = kind.startswith('Jax')
    with_static = bool(rng.random() < p_static)
    # quick tier: the jax components whose partials are inferred from the source get the function style that the
    # inference has to see through (method forms on compound receivers)
    methods = bool(lite and jaxkind and cell and cell.get('decl') == 'none' and not cell.get('matrix_free')
                   and not hiorder)
    kw = {'hiorder': True} if hiorder else {}
    if agnostic:
        kw['agnostic'] = True
    if kind in ('ExplicitFuncComp', 'JaxExplicitComponent'):
        fd = F.gen_explicit(rng, with_static=with_static, lite=lite, methods=methods, **kw)
    else:
        fd = F.gen_implicit(rng, with_static=with_static, lite=lite, methods=methods, **kw)
    cfg = {'mode': str(pick(rng, ['fwd', 'rev'])), 'use_jit': bool(rng.random() < 0.5),
           'coloring': bool(rng.random() < 0.55), 'static_val': float(np.round(rng.uniform(0.5, 2.0), 3)),
           'shape_decl': str(pick(rng, ['shape', 'val']))}
    if jaxkind:
        cfg['method'] = 'jax'
        cfg['decl'] = str(pick(rng, ['none', 'none', 'all', 'pairs']))
        cfg['matrix_free'] = bool(rng.random() < 0.2)
        if cfg['matrix_free']:
            cfg['coloring'] = False
    else:
        cfg['method'] = str(pick(rng, ['cs', 'cs', 'fd', 'jax', 'jax', 'jax']))
        cfg['decl'] = str(pick(rng, ['all', 'all', 'pairs']))
        cfg['matrix_free'] = False
    if lite:
        # most of the quick tier runs without jit: eagerly executed primitives are compiled once per process and
        # operand shape and are shared by all cases of a shard, a jitted function is compiled for one case only
        cfg['use_jit'] = bool(rng.random() < 0.25)
    if cell:
        cfg.update(cell)
    if cfg['matrix_free']:
        cfg['coloring'] = False
    if cfg['method'] != 'jax':
        cfg['use_jit'] = False
    names = list(fd['inputs'])
    if kind == 'ImplicitFuncComp':
        # states interleaved with the inputs in the function signature
        order = names + list(fd['states'])
        order = [order[i] for i in rng.permutation(len(order))]
        if rng.random() < 0.7:
            # keep the states in the order of their residuals (only their positions among the inputs vary)
            it = iter(fd['states'])
            order = [next(it) if a in fd['states'] else a for a in order]
    elif kind == 'JaxImplicitComponent':
        order = names + list(fd['states'])
    else:
        order = names
    if fd['static']:
        if jaxkind:
            pass
        else:
            pos = int(rng.integers(len(order) + 1))
            order = order[:pos] + [fd['static']] + order[pos:]
    cfg['arg_order'] = order
    pts = []
    for _ in range(2):
        pt = {n: np.round(rng.uniform(-1.5, 1.5, size=tuple(s)), 6).tolist() for n, s in fd['inputs'].items()}
        for n, s in fd.get('states', {}).items():
            pt[n] = np.round(rng.uniform(-1.5, 1.5, size=tuple(s)), 6).tolist()
        pts.append(pt)
    return {'kind': kind, 'fdesc': fd, 'cfg': cfg, 'points': pts}


# ----------------------------------------------------------------------------------------------
# histories: the point of the FIRST linearization (where jax components detect their sparsity, once) is degenerate,
# the judged linearizations happen later at generic points; optionally a second setup and changes of the static
# (option / discrete input) value in between
# ----------------------------------------------------------------------------------------------
FIRST_CLASSES = ['zeros', 'defaults', 'equal', 'zeros', 'mixed', 'equal-per-var', 'sparse-zeros']
LIN_VIA = ['linearize', 'totals', 'check_partials']
HIST_CELLS = [{'decl': d, 'coloring': c, 'matrix_free': False, 'decl_where': w}
              for c in (False, True) for (d, w) in (('none', 'setup_partials'), ('all', 'setup_partials'),
                                                    ('pairs', 'setup_partials'), ('none', 'setup_partials'),
                                                    ('all', 'setup'), ('pairs', 'setup'))]


def _point(rng, cls, shapes):
    """name -> nested list; shapes: name -> shape.  Degenerate classes: exact zeros, ones (the default values: the
    point is not even set), equal entries, zero entries among generic ones."""
    pt = {}
    c_all = float(np.round(rng.uniform(-1.5, 1.5), 3))
    for n, shp in shapes.items():
        shp = tuple(shp)
        k = cls
        if k == 'mixed':
            k = str(pick(rng, ['zeros', 'defaults', 'generic', 'equal-per-var', 'zeros']))
        if k == 'zeros':
            v = np.zeros(shp)
        elif k == 'defaults':
            v = np.ones(shp)
        elif k == 'equal':
            v = np.full(shp, c_all)
        elif k == 'equal-per-var':
            v = np.full(shp, float(np.round(rng.uniform(-1.5, 1.5), 3)))
        elif k == 'sparse-zeros':
            v = np.round(rng.uniform(-1.5, 1.5, size=shp), 6) * (rng.random(size=shp) < 0.5)
        else:
            v = np.round(rng.uniform(-1.5, 1.5, size=shp), 6)
        pt[n] = (v + 0.0).tolist()
    return pt


def _with_n(fd, n):
    """Copy of a shape-agnostic function description with every (3,) replaced by (n,)."""
    fd2 = dict(fd)
    for k in ('inputs', 'outputs', 'states'):
        if k in fd:
            fd2[k] = {v: ([n] if list(shp) == list(F.AGNOSTIC_SHAPE) else list(shp)) for v, shp in fd[k].items()}
    return fd2


def gen_hist_case(rng, kind, cell, first, lin_via, reshape=False):
    """reshape: the second setup changes the variable sizes (an option of the component gives n)."""
    case = gen_case(rng, kind, lite=True, cell=cell, hiorder=True, p_static=0.4, agnostic=reshape)
    fd, cfg = case['fdesc'], case['cfg']
    cfg.setdefault('decl_where', 'setup_partials')
    # the functions of the histories are larger: executed eagerly, every primitive (and its jvp / vmap rule) is
    # dispatched and compiled per operand shape, which costs more than one jit compilation of the whole function
    cfg['use_jit'] = bool(rng.random() < 0.6)
    shapes = dict(fd['inputs'])
    shapes.update(fd.get('states', {}))
    h = {'first': first, 'lin_via': lin_via, 'resetup': None, 'static_seq': None, 'reshape': None}
    classes = [first, 'generic', 'generic']
    if reshape or rng.random() < 0.3:
        # second setup: its first linearization is the degenerate one (the first setup saw a generic or another
        # degenerate point)
        h['resetup'] = 1
        classes = [str(pick(rng, ['generic', 'zeros', first])), first, 'generic']
    h['classes'] = classes
    if fd['static']:
        cfg['static_kind'] = str(pick(rng, ['option', 'discrete']))
        if rng.random() < 0.75:
            g = [float(np.round(rng.uniform(0.5, 2.0), 3)) for _ in range(3)]
            v0 = pick(rng, [0.0, 1.0, -1.0, g[0], g[0], g[0], g[0]])
            # -1.0 -> -2.0: different values with the same hash() (CPython)
            h['static_seq'] = [float(v0), -2.0 if v0 == -1.0 else g[1], g[2]]
            cfg['static_val'] = float(v0)
    case['points'] = [_point(rng, c, shapes) for c in classes]
    if reshape:
        h['reshape'] = int(pick(rng, [2, 4, 5]))
        case['fdesc2'] = _with_n(fd, h['reshape'])
        shapes2 = dict(case['fdesc2']['inputs'])
        shapes2.update(case['fdesc2'].get('states', {}))
        case['points'][1:] = [_point(rng, c, shapes2) for c in classes[1:]]
    case['hist'] = h
    return case


# ----------------------------------------------------------------------------------------------
# reference function (NumPy rendering, executed directly by the harness)
# ----------------------------------------------------------------------------------------------
def reference_callable(case, fd=None):
    fd, cfg = fd or case['fdesc'], case['cfg']
    implicit = 'states' in fd
    rets = ['r%d' % k for k in range(len(fd['states']))] if implicit else list(fd['outputs'])
    args = list(fd['inputs']) + (list(fd['states']) if implicit else [])
    if fd['static']:
        args.append(fd['static'])
    src = F.module_header('np') + F.render_function('ref', args, fd['lines'], rets, 'np')
    tanh_max = [0.0]      # largest |argument| any tanh of the function has seen (saturation monitor)

    def _tanh(u):
        a = float(np.max(np.abs(np.real(u)))) if np.size(u) else 0.0
        if a > tanh_max[0]:
            tanh_max[0] = a
        return np.tanh(u)
    ns = {'_tanh': _tanh}
    exec(compile(src.replace('np.tanh(', '_tanh('), '<omv-c34-reference>', 'exec'), ns)   # noqa: S102 - own source
    fun = ns['ref']
    static = [cfg['static_val']]    # current value of the static argument (histories change it)
    shapes = [tuple(fd['states'][s]) for s in fd['states']] if implicit else [tuple(s) for s in fd['outputs'].values()]

    def call(arrs):
        a = list(arrs)
        if fd['static']:
            a.append(static[0])
        a = [np.asarray(x)[()] if np.ndim(x) == 0 else x for x in a]
        res = fun(*a)
        if not isinstance(res, tuple):
            res = (res,)
        return [np.broadcast_to(np.asarray(r), shp) for r, shp in zip(res, shapes)]
    call.static = static
    call.tanh_max = tanh_max
    return call, src


# ----------------------------------------------------------------------------------------------
# component construction
# ----------------------------------------------------------------------------------------------
def _write_module(src):
    _COUNTER[0] += 1
    name = 'omvgen_c34_%d_%d' % (os.getpid(), _COUNTER[0])
    with open(name + '.py', 'w') as f:
        f.write(src)
    cwd = os.getcwd()
    if cwd not in sys.path:
        sys.path.insert(0, cwd)
    importlib.invalidate_caches()
    return importlib.import_module(name), name


def _dependent_pairs(case, refcall, ofs, wrts, shapes_in):
    """(of, wrt) pairs whose reference derivative is nonzero at any of three random points."""
    rng = np.random.default_rng(12345)
    dep = set()
    keep = refcall.static[0]
    if case.get('hist'):
        refcall.static[0] = 1.2345     # the static value of a history may be 0 at the start
    for _ in range(3):
        xs = [rng.uniform(-1.5, 1.5, size=s) for s in shapes_in]
        _, J = cs_jac(refcall, xs)
        for oi, o in enumerate(ofs):
            for ii, w in enumerate(wrts):
                if np.any(J[oi][ii] != 0):
                    dep.add((o, w))
    refcall.static[0] = keep
    return dep


def build_funccomp(case, refcall):
    import openmdao.api as om
    import openmdao.func_api as omf
    fd, cfg = case['fdesc'], case['cfg']
    implicit = case['kind'] == 'ImplicitFuncComp'
    rets = ['r%d' % k for k in range(len(fd['states']))] if implicit else list(fd['outputs'])
    src = F.module_header('np') + F.render_function('func', cfg['arg_order'], fd['lines'], rets, 'np')
    mod, modname = _write_module(src)
    f = omf.wrap(mod.func)
    for n, s in fd['inputs'].items():
        if cfg['shape_decl'] == 'shape':
            f.add_input(n, shape=tuple(s))
        else:
            f.add_input(n, val=np.ones(tuple(s)))
    if implicit:
        for k, (n, s) in enumerate(fd['states'].items()):
            f.add_output(n, resid='r%d' % k, shape=tuple(s))
        ofs = list(fd['states'])
        wrts = list(fd['inputs']) + list(fd['states'])
        shapes_in = [tuple(s) for s in fd['inputs'].values()] + [tuple(s) for s in fd['states'].values()]
    else:
        for n, s in fd['outputs'].items():
            f.add_output(n, shape=tuple(s))
        ofs = list(fd['outputs'])
        wrts = list(fd['inputs'])
        shapes_in = [tuple(s) for s in fd['inputs'].values()]
    if fd['static']:
        f.declare_option(fd['static'], default=cfg['static_val'])
    m = cfg['method']
    if cfg['decl'] == 'all':
        f.declare_partials(of='*', wrt='*', method=m)
    else:
        for (o, w) in sorted(_dependent_pairs(case, refcall, ofs, wrts, shapes_in)):
            f.declare_partials(of=o, wrt=w, method=m)
    if cfg['coloring']:
        f.declare_coloring(wrt='*', method=m, show_summary=False)
    kw = {}
    if m == 'jax':
        kw['use_jit'] = cfg['use_jit']
    comp = om.ImplicitFuncComp(f, **kw) if implicit else om.ExplicitFuncComp(f, **kw)
    return comp, src, modname


def build_jaxcomp(case, refcall):
    fd, cfg = case['fdesc'], case['cfg']
    implicit = case['kind'] == 'JaxImplicitComponent'
    base = 'om.JaxImplicitComponent' if implicit else 'om.JaxExplicitComponent'
    L = ['class Comp(%s):' % base]
    discrete = bool(fd['static']) and cfg.get('static_kind') == 'discrete'
    nopt = bool((case.get('hist') or {}).get('reshape'))     # sizes given by the option 'n'

    def shp(s):
        return "(self.options['n'],)" if nopt and tuple(s) == F.AGNOSTIC_SHAPE else repr(tuple(s))
    if (fd['static'] and not discrete) or nopt:
        L.append('    def initialize(self):')
        if nopt:
            L.append("        self.options.declare('n', default=%d)" % F.AGNOSTIC_SHAPE[0])
    if fd['static'] and not discrete:
        L += ["        self.options.declare('kopt', default=%r)" % cfg['static_val'],
              '    def get_self_statics(self):',
              "        return (self.options['kopt'],)"]
    L.append('    def setup(self):')
    for n, s in fd['inputs'].items():
        # a scalar `val` means "default_shape" (1,) for a component, so () must be given as shape
        if cfg['shape_decl'] == 'shape' or tuple(s) == ():
            L.append('        self.add_input(%r, shape=%s)' % (n, shp(s)))
        else:
            L.append('        self.add_input(%r, val=np.ones(%s))' % (n, shp(s)))
    if implicit:
        ofs = list(fd['states'])
        wrts = list(fd['inputs']) + list(fd['states'])
        shapes_in = [tuple(s) for s in fd['inputs'].values()] + [tuple(s) for s in fd['states'].values()]
        for n, s in fd['states'].items():
            L.append('        self.add_output(%r, shape=%s)' % (n, shp(s)))
        rets = ['r%d' % k for k in range(len(fd['states']))]
    else:
        ofs = list(fd['outputs'])
        wrts = list(fd['inputs'])
        shapes_in = [tuple(s) for s in fd['inputs'].values()]
        for n, s in fd['outputs'].items():
            L.append('        self.add_output(%r, shape=%s)' % (n, shp(s)))
        rets = list(fd['outputs'])
    if discrete:
        L.append("        self.add_discrete_input('kopt', val=%r)" % cfg['static_val'])
    sp = []
    if cfg['decl'] == 'all':
        sp.append("        self.declare_partials('*', '*')")
    elif cfg['decl'] == 'pairs':
        for (o, w) in sorted(_dependent_pairs(case, refcall, ofs, wrts, shapes_in)):
            sp.append('        self.declare_partials(%r, %r)' % (o, w))
    if cfg.get('decl_where') == 'setup':
        # declared in setup(): the component then does not add inferred declarations / detect the sparsity
        L += sp
        sp = []
    if cfg['coloring']:
        sp.append('        self.declare_coloring(show_summary=False)')
    if sp:
        L.append('    def setup_partials(self):')
        L += sp
    args = ['self'] + [a for a in cfg['arg_order'] if a != fd['static']] + (['kopt'] if discrete else [])
    L.append('    def compute_primal(%s):' % ', '.join(args))
    for ln in fd['lines']:
        ln = ln.replace('XP.', 'jnp.')
        if fd['static'] and not discrete:
            ln = ln.replace('kopt', "self.options['kopt']")
        L.append('        ' + ln)
    if implicit:
        # return names of a jax component must equal its output names or be expressions: return expressions
        L.append('        return %s' % ', '.join('(%s + 0.0)' % r for r in rets))
    else:
        L.append('        return %s' % ', '.join(rets))
    src = F.module_header('jnp') + '\n'.join(L) + '\n'
    mod, modname = _write_module(src)
    kw = {'use_jit': cfg['use_jit']}
    if cfg['matrix_free']:
        kw['matrix_free'] = True
    comp = mod.Comp(**kw)
    return comp, src, modname


# ----------------------------------------------------------------------------------------------
# judging
# ----------------------------------------------------------------------------------------------
def _subkind(case):
    """Component kind plus the a-priori risk class of the configuration (part of the mechanism key)."""
    kind, c, fd = case['kind'], case['cfg'], case['fdesc']
    if kind == 'ImplicitFuncComp':
        sig = [a for a in c['arg_order'] if a in fd['states']]
        if sig != list(fd['states']):
            return kind + '/states-permuted'      # states in the signature ordered unlike their residuals
        if c['coloring'] and c['method'] == 'jax':
            nouts = sum(F.size(s) for s in fd['states'].values())
            nins = sum(F.size(s) for s in fd['inputs'].values())
            if c['mode'] != ('fwd' if nouts >= nins else 'rev'):
                return kind + '/jax-coloring-mode-differs-from-best-direction'
    if kind == 'ExplicitFuncComp' and c['method'] == 'jax' and len(fd['inputs']) == 1:
        return kind + '/jax-single-arg'
    if kind.startswith('Jax') and c['coloring'] and (case.get('hist') or {}).get('reshape'):
        # the coloring of a system outlives a setup
        return kind + '/second-setup-changes-sizes+coloring'
    seq = (case.get('hist') or {}).get('static_seq')
    if kind.startswith('Jax') and seq and any(a != b and hash(a) == hash(b) for a, b in zip(seq, seq[1:])):
        return kind + '/static-change-between-values-of-equal-hash'
    if kind.startswith('Jax') and c.get('static_kind') == 'discrete' and not c['use_jit'] and \
            (case.get('hist') or {}).get('static_seq'):
        # without jit nothing signals a changed discrete value to the function that computes the jacobian
        return kind + '/discrete-input-changes+nojit'
    if kind == 'JaxImplicitComponent' and c['coloring']:
        return kind + '/coloring'
    if kind.startswith('Jax') and c['decl'] == 'none' and any(re.search(r'\)\.[A-Za-z]', ln) for ln in fd['lines']):
        # partial dependencies are inferred from the source; an attribute of a parenthesised expression
        # ((a * b).T) is one of the constructs that inference has to see through
        return kind + '/inferred-deps+attribute-of-expression'
    return kind


def _cfgclass(case):
    c = case['cfg']
    f = []
    if c['coloring']:
        f.append('coloring')
    f += [c['method'], 'decl-' + c['decl']]
    if c.get('matrix_free'):
        f.append('matrix_free')
    return '+'.join(f)


def _where(e):
    import traceback
    frames = traceback.extract_tb(e.__traceback__)
    om = [fr for fr in frames if '/openmdao/' in fr.filename]
    fr = (om or frames)[-1]
    return '%s:%d:%s' % (os.path.basename(fr.filename), fr.lineno, fr.name)


ZERO_CLASS = '/first-linearization-where-a-derivative-is-exactly-zero'


class Ctx(object):
    def __init__(self, case, acc):
        self.case, self.acc = case, acc
        self.bad = False
        self.fp = fingerprint({'kind': case['kind'], 'f': case['fdesc']['lines'], 'cfg': case['cfg'],
                               'hist': case.get('hist')})
        # histories: Z = structurally nonzero entries of the full jacobian whose reference value is exactly 0.0 at
        # (and 1e-9 around) the point of the governing first linearization; row/column offsets of the blocks
        self.Z = None
        self.roff = self.coff = None
        self.explained = self.unexplained = False

    def explains(self, blk, mask):
        """True if every offending entry of block blk=(oi, ii) (mask over the block) is an entry whose derivative is
        exactly zero around the first linearization point, or - with coloring - shares a row/column with one (a
        dropped entry merges columns/rows that really overlap, which corrupts their other entries).  blk None:
        derived quantity (totals through a solve, converged state): explained iff the partials were."""
        if self.Z is None or not self.Z.any():
            return False
        if blk is None:
            return self.explained and not self.unexplained
        oi, ii = blk
        Z = self.Z
        col = bool(self.case['cfg']['coloring'])
        for r, c in zip(*np.nonzero(mask)):
            R, C = self.roff[oi] + r, self.coff[ii] + c
            if not (Z[R, C] or (col and (Z[R, :].any() or Z[:, C].any()))):
                return False
        return True

    def viol(self, obs, what, explained=False):
        kind = _subkind(self.case)
        if explained:
            kind = self.case['kind'] + ZERO_CLASS
            self.explained = True
        else:
            self.unexplained = True
        # mechanism (input class + observable) first, configuration cell last: one mechanism that shows in several
        # cells can be listed with a narrow '<input class>:<observable>:*' prefix
        self.acc.viol('%s:%s:%s' % (kind, obs, _cfgclass(self.case)), what, self.case, fp=self.fp,
                      new_case=not self.bad)
        self.bad = True


def _cmp(ctx, obs, label, got, ref, tol, blk=False):
    """blk: (oi, ii) block of the component jacobian the compared array is / None for a derived quantity / False
    when the first-linearization classification does not apply."""
    got = np.asarray(got, dtype=float)
    ref = np.asarray(ref, dtype=float)
    if got.size != ref.size:
        ctx.viol(obs + '-shape', '%s has size %d, expected %d' % (label, got.size, ref.size))
        return False
    got = got.reshape(ref.shape)
    tol = tol + CS_TRUNC
    if not np.all(np.isfinite(got)) or np.any(np.abs(got - ref) > tol):
        expl = False
        if blk is not False and np.all(np.isfinite(got)):
            expl = ctx.explains(blk, np.abs(got - ref) > tol)
        ctx.viol(obs, '%s: %s (tol %.3g)' % (label, worst(got, ref), float(np.max(tol))), explained=expl)
        return False
    return True


def _spread_abs(fun, xs, seed, nrep=3):
    """perturbed_spread for degenerate points: operands perturbed by 1e-13 max(|x|, 1) (a relative perturbation
    does not move an exact zero)."""
    rng = np.random.default_rng(seed)
    xs = [np.asarray(x, dtype=float) for x in xs]
    o0, J0 = cs_jac(fun, xs)
    Do = [np.zeros(o.shape) for o in o0]
    DJ = [[np.zeros(j.shape) for j in row] for row in J0]
    for _ in range(nrep):
        xp = [x + 1e-13 * rng.uniform(-1, 1, size=x.shape) * np.maximum(np.abs(x), 1.0) for x in xs]
        o1, J1 = cs_jac(fun, xp)
        for i, o in enumerate(o1):
            Do[i] = np.maximum(Do[i], np.abs(o - o0[i]))
        for i, row in enumerate(J1):
            for k, j in enumerate(row):
                DJ[i][k] = np.maximum(DJ[i][k], np.abs(j - J0[i][k]))
    return o0, J0, Do, DJ


def _first_point_classes(refcall, allx, seed, S):
    """Reference jacobian 1e-9 around a first-linearization point (the way the sparsity detection samples it: relative
    perturbation, absolute where the value is 0).  Returns boolean matrices over the full jacobian, restricted to the
    structurally nonzero entries S: Z exactly 0.0 in all samples; tiny: nonzero but below eps x largest entry;
    small: below 1e-6 x largest entry."""
    rng = np.random.default_rng(seed)
    zero = np.ones(S.shape, dtype=bool)
    rel = np.zeros(S.shape)
    for _ in range(3):
        xp = [x + 1e-9 * rng.uniform(0.1, 1.0, size=x.shape) * np.where(x == 0, 1.0, x) for x in allx]
        J = np.abs(np.block(cs_jac(refcall, xp)[1]))
        zero &= (J == 0)
        rel = np.maximum(rel, J / max(float(J.max()), 1e-300))
    return S & zero, S & ~zero & (rel < EPS), S & (rel < 1e-6)


def _fd_bound(refcall, xs, J0, o0):
    """Truncation + round-off bound of a forward difference with absolute step FD_STEP."""
    B = [[np.zeros(j.shape) for j in row] for row in J0]
    fmax = max([float(np.max(np.abs(o))) if o.size else 0.0 for o in o0] + [1e-300])
    for ii, x in enumerate(xs):
        for k in range(x.size):
            xp = [a.copy() for a in xs]
            xp[ii].reshape(-1)[k] += FD_STEP
            _, J1 = cs_jac(refcall, xp)
            for oi in range(len(J0)):
                B[oi][ii][:, k] = 1.5 * np.abs(J1[oi][ii][:, k] - J0[oi][ii][:, k]) + 4 * EPS * fmax / FD_STEP \
                    + 8 * EPS * np.max(np.abs(x)) / FD_STEP * np.abs(J0[oi][ii][:, k])
    return B


def _sized_ivc(om, shapes):
    """IndepVarComp whose (3,) outputs follow its option 'n' (histories whose second setup changes the sizes)."""
    class SizedIvc(om.IndepVarComp):
        def initialize(self):
            super().initialize()
            self.options.declare('n', default=F.AGNOSTIC_SHAPE[0])

        def setup(self):
            for name, s in shapes.items():
                self.add_output(name, val=np.ones((self.options['n'],) if tuple(s) == F.AGNOSTIC_SHAPE else tuple(s)))
    return SizedIvc()


def _structure(refcall, fd, in_names, st_names, out_names, implicit):
    """Structurally nonzero entries of the full jacobian (reference at two generic points with a generic static value)
    and the row / column offsets of its blocks."""
    keep = refcall.static[0]
    refcall.static[0] = 1.2345
    grng = np.random.default_rng(4321)
    allshapes = [tuple(fd['inputs'][n]) for n in in_names] + [tuple(fd['states'][n]) for n in st_names]
    S = None
    for _ in range(2):
        Jg = np.block(cs_jac(refcall, [grng.uniform(-1.5, 1.5, size=shp) for shp in allshapes])[1])
        S = (Jg != 0) if S is None else (S | (Jg != 0))
    refcall.static[0] = keep
    osz = [F.size(fd['states'][n]) if implicit else F.size(fd['outputs'][n]) for n in out_names]
    roff = [int(v) for v in np.concatenate([[0], np.cumsum(osz)])]
    coff = [int(v) for v in np.concatenate([[0], np.cumsum([F.size(shp) for shp in allshapes])])]
    return S, roff, coff


def judge(case, acc, seed=0):
    import openmdao.api as om
    kind, fd, cfg = case['kind'], case['fdesc'], case['cfg']
    ctx = Ctx(case, acc)
    implicit = 'states' in fd
    jaxkind = kind.startswith('Jax')
    refcall, refsrc = reference_callable(case)
    in_names = list(fd['inputs'])
    st_names = list(fd['states']) if implicit else []
    out_names = st_names if implicit else list(fd['outputs'])
    modname = None
    # the generated reference itself must be evaluable (an exception here is a harness error, not a finding)
    refcall([np.array(case['points'][0][n], dtype=float).reshape(tuple(shp))
             for n, shp in list(fd['inputs'].items()) + (list(fd['states'].items()) if implicit else [])])
    if not jaxkind and cfg['coloring'] and len(case['points']) > 1:
        # function components compute the sparsity behind their coloring from finite differences / complex steps at
        # the first point, where an entry smaller than the tolerance counts as a structural zero ("non-constant
        # computed zeros", documented for dynamic coloring): a case whose first point has such an entry (e.g. a
        # saturated tanh: the difference quotient is exactly 0) is outside the domain of the property
        pts = [[np.array(pt[n], dtype=float).reshape(tuple(shp))
                for n, shp in list(fd['inputs'].items()) + (list(fd['states'].items()) if implicit else [])]
               for pt in case['points'][:2]]
        (f0, Ja), (_, Jb) = cs_jac(refcall, pts[0]), cs_jac(refcall, pts[1])
        Ja, Jb = np.abs(np.block(Ja)), np.abs(np.block(Jb))
        scale = max([1.0, float(Ja.max()) if Ja.size else 0.0] + [float(np.max(np.abs(o))) for o in f0 if o.size])
        if np.any((Ja < 1e-9 * scale) & (Jb > CS_TRUNC) & (Jb > 1e3 * Ja)):
            acc.skip('coloring of a function component sampled where a structurally nonzero derivative computes to zero')
            return
    # what is being attempted (counted even when the case fails early)
    acc.count('kind:' + kind)
    acc.count(cell_name(kind, cfg))
    if cfg['coloring']:
        acc.count('cell:coloring-declared:' + kind)
    acc.count('cell:method-' + cfg['method'])
    acc.count('cell:jit' if cfg['use_jit'] else 'cell:nojit')
    if fd['static']:
        acc.count('cell:static')
    if cfg.get('matrix_free'):
        acc.count('cell:matrix_free')
    if cfg['decl'] == 'pairs':
        acc.count('cell:decl-pairs')
    if cfg['decl'] == 'none':
        acc.count('cell:decl-inferred')
    for p in fd['prims']:
        acc.count('prim:' + p)
    try:
        try:
            comp, src, modname = (build_jaxcomp if jaxkind else build_funccomp)(case, refcall)
            case['source'] = src
            prob = om.Problem()
            if (case.get('hist') or {}).get('reshape'):
                ivc = prob.model.add_subsystem('ivc', _sized_ivc(om, fd['inputs']))
            else:
                ivc = prob.model.add_subsystem('ivc', om.IndepVarComp())
                for n, s in fd['inputs'].items():
                    ivc.add_output(n, val=np.ones(tuple(s)))
            # a Newton solver does not accept discrete variables in its group: an implicit component with a discrete
            # input is solved in a subgroup, the (automatic) source of the discrete input stays outside
            nested = bool(implicit and fd['static'] and cfg.get('static_kind') == 'discrete')
            holder = prob.model.add_subsystem('g', om.Group()) if nested else prob.model
            cp = 'g.c.' if nested else 'c.'
            holder.add_subsystem('c', comp)
            for n in in_names:
                prob.model.connect('ivc.' + n, cp + n)
            if implicit:
                holder.linear_solver = om.DirectSolver(assemble_jac=False) if cfg.get('matrix_free') \
                    else om.DirectSolver()
                holder.nonlinear_solver = om.NewtonSolver(solve_subsystems=False, maxiter=40, atol=1e-13,
                                                          rtol=1e-14, iprint=-1)
            prob.setup(mode=cfg['mode'])
            prob.final_setup()
        except Exception as e:
            ctx.viol('setup-raises:' + type(e).__name__, '%s at %s: %s' % (type(e).__name__, _where(e), str(e)[:400]))
            return
        mode = cfg['mode']
        hist = case.get('hist')
        first_idx, tiny_first, S = 0, False, None
        if hist:
            acc.count('hist:first-' + hist['first'])
            acc.count('hist:lin-via-' + hist['lin_via'])
            if hist['resetup'] is not None:
                acc.count('hist:resetup')
            if hist['static_seq']:
                acc.count('hist:static-change-' + cfg['static_kind'])
                if hist['static_seq'][:2] == [-1.0, -2.0]:
                    acc.count('hist:static-change-equal-hash' + ('+jit' if cfg['use_jit'] else '+nojit'))
            if cfg.get('decl_where') == 'setup' and cfg['decl'] != 'none':
                acc.count('hist:declared-in-setup')
            if hist['reshape']:
                acc.count('hist:resetup-changes-sizes')
            S, ctx.roff, ctx.coff = _structure(refcall, fd, in_names, st_names, out_names, implicit)
        for pi, pt in enumerate(case['points']):
            tag = '' if pi == 0 else ':2nd-point'
            if pi > 0 and ctx.bad:
                break
            if hist and hist['reshape'] and pi == hist['resetup']:
                # from here on the sizes of the second setup
                fd = case['fdesc2']
                static_now = refcall.static[0]
                refcall, _ = reference_callable(case, fd)
                refcall.static[0] = static_now
                S, ctx.roff, ctx.coff = _structure(refcall, fd, in_names, st_names, out_names, implicit)
            xs = [np.array(pt[n], dtype=float).reshape(tuple(fd['inputs'][n])) for n in in_names]
            ss = [np.array(pt[n], dtype=float).reshape(tuple(fd['states'][n])) for n in st_names]
            allx = xs + ss
            is_first = False
            if hist:
                seq = hist['static_seq']
                if seq:
                    refcall.static[0] = seq[pi]
                is_first = pi == 0 or pi == hist['resetup']
                rs = '+resetup-changing-sizes' if hist['reshape'] else '+resetup'
                if is_first:
                    first_idx = pi
                    Znew, tiny, small = _first_point_classes(refcall, allx, seed * 31 + 7 + pi, S)
                    # a computed partial coloring outlives a setup: with coloring the pattern of the very first
                    # linearization keeps governing (same sizes)
                    ctx.Z = (ctx.Z | Znew) if (pi and cfg['coloring'] and not hist['reshape']) else Znew
                    tiny_first = bool(tiny.any())
                    if small.any():
                        acc.count('obs:hist:derivative-vanishes-at-first-linearization')
                    if tiny_first:
                        acc.count('obs:hist:derivative-below-roundoff-at-first-linearization')
                    if ctx.Z.any():
                        acc.count('obs:hist:derivative-exactly-zero-at-first-linearization')
                    tag = ':first-linearization-at-%s%s' % (hist['classes'][pi], rs if pi else '')
                else:
                    tag = ':after-first-linearization-at-%s%s%s' % (
                        hist['classes'][first_idx], rs if first_idx else '',
                        '+static-changed' if seq and seq[pi] != seq[first_idx] else '')
            refcall.tanh_max[0] = 0.0
            if hist and hist['classes'][pi] != 'generic':
                o0, J0, Do, DJ = _spread_abs(refcall, allx, seed * 31 + pi)
            else:
                o0, J0, Do, DJ = perturbed_spread(refcall, allx, seed * 31 + pi)
            # jax differentiates tanh as 1 - tanh(u)**2: absolute rounding error ~ 2 ulp(1) of a factor that is
            # 1 / cosh(u)**2, i.e. a relative error of 4 EPS cosh(u)**2 in every derivative that passes through it
            ad_rel = 4 * EPS * float(np.cosh(min(refcall.tanh_max[0], 300.0))) ** 2 if cfg['method'] == 'jax' else 0.0
            extra = None
            if cfg['method'] == 'fd':
                extra = _fd_bound(refcall, allx, J0, o0)
            blk_of = (lambda oi, ii: (oi, ii)) if hist else (lambda oi, ii: False)
            derived = None if hist else False
            # first linearization through compute_totals / the Newton solve: no explicit linearize call before it
            skip_lin = bool(hist and is_first and hist['lin_via'] == 'totals')
            try:
                if hist and hist['resetup'] == pi:
                    if hist['reshape']:
                        comp.options['n'] = hist['reshape']
                        ivc.options['n'] = hist['reshape']
                    prob.setup(mode=cfg['mode'])
                    prob.final_setup()
                if hist and hist['static_seq']:
                    if cfg['static_kind'] == 'discrete':
                        prob.set_val(cp + 'kopt', hist['static_seq'][pi])
                    else:
                        comp.options['kopt'] = hist['static_seq'][pi]
                if not (hist and pi == 0 and hist['classes'][0] == 'defaults'):   # defaults: nothing is set
                    for n, x in zip(in_names, xs):
                        prob.set_val('ivc.' + n, x)
                    for n, s in zip(st_names, ss):
                        prob.set_val(cp + n, s)
                if implicit:
                    # propagate inputs without touching the states: run the ivc transfer via apply_nonlinear
                    prob.model.run_apply_nonlinear()
                    res = [np.asarray(comp._residuals[n], dtype=float).copy() for n in st_names]
                    if hist and is_first and hist['lin_via'] == 'check_partials':
                        # check_partials runs the model first when it has not been run yet (the states move): the
                        # point is restored afterwards
                        prob.check_partials(out_stream=None)
                        for n, x in zip(in_names, xs):
                            prob.set_val('ivc.' + n, x)
                        for n, s in zip(st_names, ss):
                            prob.set_val(cp + n, s)
                        prob.model.run_apply_nonlinear()
                    if not skip_lin:
                        prob.model.run_linearize()
                else:
                    prob.run_model()
                    res = [np.asarray(prob.get_val(cp + n), dtype=float) for n in out_names]
                    if hist and is_first and hist['lin_via'] == 'check_partials':
                        prob.check_partials(out_stream=None)
            except Exception as e:
                ctx.viol('run-raises:%s%s' % (type(e).__name__, tag),
                         '%s at %s: %s' % (type(e).__name__, _where(e), str(e)[:400]))
                return
            # ---- values
            for k, n in enumerate(out_names):
                acc.count('obs:residual' if implicit else 'obs:output')
                want_shape = tuple(fd['states'][n]) if implicit else tuple(fd['outputs'][n])
                if tuple(np.shape(res[k])) != want_shape and not (want_shape == () and np.size(res[k]) == 1):
                    ctx.viol('value-shape', '%s has shape %s, declared %s' % (n, np.shape(res[k]), want_shape))
                    continue
                _cmp(ctx, ('residual' if implicit else 'output') + tag, ('residual of ' if implicit else 'output ') + n,
                     res[k], o0[k], tol_of(o0[k], Do[k]))
            # ---- sub-jacobians stored by the component
            if not cfg.get('matrix_free') and not skip_lin:
                if not implicit:
                    try:
                        prob.model.run_linearize()
                    except Exception as e:
                        ctx.viol('linearize-raises:%s%s' % (type(e).__name__, tag),
                                 '%s at %s: %s' % (type(e).__name__, _where(e), str(e)[:400]))
                        return
                wrts = in_names + st_names
                for oi, o in enumerate(out_names):
                    for ii, w in enumerate(wrts):
                        ref = J0[oi][ii]
                        tol = tol_of(ref, DJ[oi][ii]) + (16 * EPS + ad_rel) * np.abs(ref)
                        if extra is not None:
                            tol = tol + extra[oi][ii]
                        sj = dense_subjac(comp, o, w)
                        acc.count('obs:partials')
                        if sj is None:
                            if np.any(np.abs(ref) > CS_TRUNC):
                                ctx.viol('partials-undeclared-nonzero' + tag,
                                         'd%s/d%s is not declared but the derivative is nonzero' % (o, w),
                                         explained=bool(hist) and ctx.explains((oi, ii), np.abs(ref) > CS_TRUNC))
                            continue
                        _cmp(ctx, 'partials' + tag, 'partial d%s/d%s' % (o, w), sj, ref, tol, blk=blk_of(oi, ii))
            # ---- totals
            try:
                if implicit:
                    prob.run_model()   # Newton solve from the current states
                    sol = [np.asarray(prob.get_val(cp + n), dtype=float).reshape(tuple(fd['states'][n]))
                           for n in st_names]
                tot = prob.compute_totals(of=[cp + n for n in out_names], wrt=['ivc.' + n for n in in_names],
                                          return_format='flat_dict')
            except Exception as e:
                ctx.viol('totals-raises:%s%s' % (type(e).__name__, tag),
                         '%s at %s: %s' % (type(e).__name__, _where(e), str(e)[:400]),
                         explained=bool(hist) and ctx.explains(None, None))
                return
            if implicit:
                # reference solve: Newton on the NumPy function
                sref = [s.copy() for s in ss]
                ok = False
                for _ in range(60):
                    r, Jr = cs_jac(refcall, xs + sref)
                    rv = np.concatenate([a.reshape(-1) for a in r])
                    if np.max(np.abs(rv)) < 1e-14:
                        ok = True
                        break
                    A = np.block([[Jr[oi][len(xs) + si] for si in range(len(sref))] for oi in range(len(sref))])
                    ds = np.linalg.solve(A, -rv)
                    k0 = 0
                    for a in sref:
                        a += ds[k0:k0 + a.size].reshape(a.shape)
                        k0 += a.size
                if not ok:
                    acc.count('guard:reference-newton-not-converged')
                else:
                    acc.count('obs:solved-state')

                    def ift(arrs):
                        # totals of the reference at (arrs = inputs + converged states)
                        r, Jr = cs_jac(refcall, arrs)
                        A = np.block([[Jr[oi][len(xs) + si] for si in range(len(sref))] for oi in range(len(sref))])
                        Bm = np.block([[Jr[oi][ii] for ii in range(len(xs))] for oi in range(len(sref))])
                        return A, -np.linalg.solve(A, Bm)
                    A, T = ift(xs + sref)
                    condA = np.linalg.cond(A)
                    for k, n in enumerate(st_names):
                        # Newton stopped at |R| <= 1e-13 (abs) => state error <= cond-scaled 1e-13
                        _cmp(ctx, 'solved-state' + tag, 'converged state ' + n, sol[k], sref[k],
                             1e-11 * condA * (1.0 + np.abs(sref[k])), blk=derived)
                    # conditioning of the totals: perturb inputs and states by 1e-13 relative
                    rng = np.random.default_rng(seed + 5)
                    DT = np.zeros(T.shape)
                    for _ in range(3):
                        ap = [a * (1 + 1e-13 * rng.uniform(-1, 1, a.shape)) for a in xs + sref]
                        DT = np.maximum(DT, np.abs(ift(ap)[1] - T))
                    r0 = 0
                    for oi, o in enumerate(st_names):
                        nr = sref[oi].size
                        c0 = 0
                        for ii, w in enumerate(in_names):
                            nc = xs[ii].size
                            ref = T[r0:r0 + nr, c0:c0 + nc]
                            tol = tol_of(T, DT[r0:r0 + nr, c0:c0 + nc]) + (1e-10 + ad_rel) * condA * np.max(np.abs(T))
                            if cfg['method'] == 'fd':
                                tol = tol + 1e-4 * condA * (np.max(np.abs(T)) + 1.0)
                            acc.count('obs:totals-' + mode)
                            _cmp(ctx, 'totals-%s%s' % (mode, tag), 'total d%s/d%s' % (o, w), tot[cp + o, 'ivc.' + w],
                                 ref, tol, blk=derived)
                            c0 += nc
                        r0 += nr
            else:
                for oi, o in enumerate(out_names):
                    for ii, w in enumerate(in_names):
                        ref = J0[oi][ii]
                        tol = tol_of(ref, DJ[oi][ii]) + (64 * EPS + ad_rel) * np.abs(ref)
                        if extra is not None:
                            tol = tol + extra[oi][ii]
                        acc.count('obs:totals-' + mode)
                        _cmp(ctx, 'totals-%s%s' % (mode, tag), 'total d%s/d%s' % (o, w), tot[cp + o, 'ivc.' + w],
                             ref, tol, blk=blk_of(oi, ii))
            if pi == 1:
                acc.count('obs:second-point')
            if hist and not is_first:
                # a linearization judged after the one that fixed the sparsity pattern
                acc.count('obs:hist:judged-after-first-linearization')
                if tiny_first and not cfg.get('matrix_free'):
                    acc.count('obs:hist:judged-after-below-roundoff-derivative:' + kind)
                    acc.count('obs:hist:judged-after-below-roundoff-derivative:' +
                              ('coloring' if cfg['coloring'] else 'nocoloring'))
                if first_idx:
                    acc.count('obs:hist:judged-after-second-setup')
                    if hist['reshape']:
                        acc.count('obs:hist:judged-after-second-setup-with-other-sizes')
                if hist['static_seq'] and hist['static_seq'][pi] != hist['static_seq'][first_idx]:
                    acc.count('obs:hist:judged-after-static-change:' + cfg['static_kind'])
        # ---- evidence
        try:
            if comp._coloring_info.coloring is not None:
                acc.count('obs:coloring-used:' + kind)
        except Exception:
            pass
        if not ctx.bad:
            acc.ok(ctx.fp, sample=({'kind': kind, 'lines': fd['lines'], 'cfg': cfg} if acc.judged % 17 == 0 else None))
    finally:
        try:
            prob.cleanup()
        except Exception:
            pass
        if modname:
            sys.modules.pop(modname, None)
            try:
                os.unlink(modname + '.py')
            except OSError:
                pass


# ----------------------------------------------------------------------------------------------
# framework entry points
# ----------------------------------------------------------------------------------------------
def shards(tier, seed):
    if tier == 'quick':
        # 6 shards x 4 rounds x (4 component classes on the grid + 4 cheap cs/fd function components) = 192 small
        # cases; few shards, because the import of jax/openmdao and the compilation of jax primitives are paid once
        # per process (a jax case costs 1-3 CPU-seconds, a cs/fd case < 0.1)
        # + 8 shards x 8 histories of jax components (first linearization at a degenerate point)
        return [{'seed': seed * 9973 + k, 'per': 4, 'lite': True, 'index': k, 'offset': seed, 'extra': 2}
                for k in range(6)] + \
            [{'seed': seed * 9973 + 500 + k, 'hist': 8, 'index': k, 'offset': seed, 'nshards': 8} for k in range(8)]
    return [{'seed': seed * 9973 + k, 'per': 20} for k in range(48)] + \
        [{'seed': seed * 9973 + 500 + k, 'hist': 60, 'index': k, 'offset': seed, 'nshards': 16} for k in range(16)]


def run_shard(shard, acc):
    import jax
    jax.config.update('jax_enable_x64', True)
    rng = np.random.default_rng(shard['seed'])
    lite = bool(shard.get('lite'))
    if shard.get('hist'):
        for rep in range(shard['hist']):
            # global running index: component class alternates, the configuration grid, the class of the first point and
            # the way the first linearization is triggered are walked with co-prime strides
            g = rep * shard['nshards'] + shard['index'] + shard['offset'] * 7
            kind = KINDS[2 + g % 2]
            cell = HIST_CELLS[(g // 2) % len(HIST_CELLS)]
            case = gen_hist_case(rng, kind, cell, FIRST_CLASSES[(g // 2) % len(FIRST_CLASSES)], LIN_VIA[g % len(LIN_VIA)],
                                 reshape=(g % 5 == 4))
            judge(case, acc, seed=shard['seed'] + rep)
        return
    for rep in range(shard['per']):
        for ki, kind in enumerate(KINDS):
            cell = None
            if lite:
                cells = cells_of(kind)
                # round-robin over the grid; consecutive rounds of all shards together cover it several times
                cell = cells[(shard['index'] * shard['per'] + rep + shard.get('offset', 0) * 5 + ki * 3) % len(cells)]
            case = gen_case(rng, kind, lite=lite, cell=cell)
            judge(case, acc, seed=shard['seed'] + rep)
        for _ in range(shard.get('extra', 0)):
            for kind in KINDS[:2]:
                case = gen_case(rng, kind, lite=lite, cell={'method': str(pick(rng, ['cs', 'cs', 'fd']))})
                judge(case, acc, seed=shard['seed'] + rep)


def run_case(case, acc):
    import jax
    jax.config.update('jax_enable_x64', True)
    judge(case, acc, seed=0)


def coverage_extra(tier, agg):
    return {'exhaustive': False,
            'primitives_exercised': sorted(k[5:] for k in agg['counters'] if k.startswith('prim:'))}
