"""C30 - Complex-step-safe helpers agree with NumPy and differentiate exactly.

Monitor: reference comparison at the function boundary.
 * openmdao.utils.cs_safe.abs / norm / arctan2 are called (a) on real input and compared with
   np.abs / np.linalg.norm / np.arctan2, (b) on  x + i*h*d  and the imaginary part is compared with
   h * (closed-form directional derivative), the real part with the NumPy value.
 * openmdao.jax_funcs.smooth.{act_tanh, smooth_max, smooth_min, smooth_abs, smooth_round} are compared
   with a NumPy re-implementation of their formulas (omv/ref/smooth_ref.py), jax.grad with the closed-form
   derivative of those formulas, and - far from the kink - with np.maximum/minimum/abs/round inside the
   bound the formula implies.

Tolerances (u = 2**-53, eps = 2u):
 abs      : x*sign is exact -> 4 eps relative.
 norm     : value: both sides are sqrt(sum of n rounded squares) -> |diff| <= (n+4) eps * ref.
            derivative  (a.d)/||a|| : the dot product has abs. error <= (n+4) eps * sum|a_i d_i|.
 arctan2  : real: the very same libm call -> exact.  derivative (c*b - a*d)/(a^2+c^2): numerator abs. error
            <= 4 eps (|c b| + |a d|), denominator relative 4 eps.
 smooth   : library tanh assumed accurate to 8 ulp; value tolerance 64 eps * (scale of the operands);
            derivative tolerance 64 eps * (scale/mu) * (1 + |t|) because jax differentiates tanh as
            1 - tanh^2 (abs. error ~eps, multiplied by |x - y|/mu = |t|).
"""
import random

import numpy as np

from omv.core import fingerprint

PROPERTY = 'C30'
LEVEL = 'exploration'
TECHNIQUE = 'runtime monitoring: NumPy / closed-form derivative reference at the function boundary'
RULE = ('random real arrays (shapes up to 3-D, 0-d arrays, numpy and python scalars, int arrays) whose entries '
        'are drawn from {0, +-log-uniform[1e-3,1e3], small integers, ties}, complex perturbation i*h*d with '
        'h in {1e-20,1e-30,1e-40} and random directions d (zeros included); norm over axis None and every int '
        'axis (negative too); arctan2 with either or both arguments complex, scalars and broadcasting; smooth '
        'helpers over a mu grid; distinct = distinct (function, form, shape, axis, h, which-arg-complex, sign '
        'pattern of the entries); non-trivial = every judged case (all compare against an independent value)')
LEVEL_TEXT = ('every observable value and complex-step derivative of the three cs_safe functions and the five '
              'jax smooth helpers was compared with NumPy / closed forms on random inputs that include zeros, '
              'sign changes and ties; not a proof for all inputs')
ASSUMPTIONS = ['np.abs, np.linalg.norm, np.arctan2, np.tanh, np.exp are the reference semantics',
               'entries are exactly 0 or have magnitude in [1e-3, 1e3]: |a| >> h so that a complex-step '
               'perturbation is infinitesimal; (0,0) is excluded for arctan2 (singular)',
               'at the kink a=0, abs of an ndarray follows the convention documented in the source (NumPy 1.x '
               'sign: sign of the imaginary part, i.e. derivative |d|); for non-array scalars either one-sided '
               'value +-d is accepted; for norm of an all-zero vector only the magnitude h*||d|| is demanded',
               'the jax helpers are differentiated with jax.grad (their intended use); the complex perturbation '
               'is additionally checked for the four helpers that contain no floor()',
               'jax/XLA tanh is accurate to 8 ulp']
MIN_JUDGED = {'quick': 3000, 'thorough': 100000}
REQUIRED_COUNTERS = ['obs:abs:real', 'obs:abs:cs', 'obs:abs:cs-at-zero', 'obs:abs:scalar',
                     'obs:norm:real', 'obs:norm:cs', 'obs:norm:axis-int', 'obs:norm:cs-zero-vector',
                     'obs:arctan2:real', 'obs:arctan2:cs', 'obs:arctan2:branch-cut',
                     'obs:act_tanh:value', 'obs:act_tanh:grad', 'obs:smooth_max:value', 'obs:smooth_max:grad',
                     'obs:smooth_min:value', 'obs:smooth_min:grad', 'obs:smooth_abs:value',
                     'obs:smooth_abs:grad', 'obs:smooth_round:value', 'obs:smooth_round:grad',
                     'obs:smooth:tie', 'obs:smooth:far-from-kink']
SHARD_TIMEOUT = {'quick': 600, 'thorough': 2400}

EPS = 2.0 ** -52
SHAPES = [(1,), (2,), (3,), (5,), (1, 1), (2, 3), (3, 2), (4, 1), (2, 2, 2), (1, 3, 2), (3, 1, 2)]
HS = [1e-20, 1e-30, 1e-40]
MUS = [1.0, 0.1, 1e-2, 1e-3]


# ----------------------------------------------------------------------------------------------
# value generation (deterministic from the case)
# ----------------------------------------------------------------------------------------------
def _vals(rng, n, pzero=0.2, ints=False):
    out = np.empty(n)
    for i in range(n):
        r = rng.random()
        if r < pzero:
            v = 0.0
        elif r < pzero + 0.15 or ints:
            v = float(rng.randrange(-4, 5))
        else:
            v = rng.choice([-1.0, 1.0]) * 10.0 ** rng.uniform(-3, 3)
        out[i] = v
    return out


def _signs(a):
    return ''.join('-0+'[int(np.sign(v)) + 1] for v in np.ravel(a))


def _close(got, ref, tol):
    got = np.asarray(got, dtype=float)
    ref = np.asarray(ref, dtype=float)
    if got.shape != ref.shape:
        return False
    both_nan = np.isnan(got) & np.isnan(ref)
    with np.errstate(all='ignore'):
        okm = (np.abs(got - ref) <= tol) | both_nan | (got == ref)
    return bool(np.all(okm))


def _mk(a, form):
    """Turn a flat float array into the requested python/numpy object."""
    if form == 'pyscalar':
        v = a.ravel()[0]
        return complex(v) if np.iscomplexobj(a) else float(v)
    if form == 'npscalar':
        return a.ravel()[0]
    if form == '0d':
        return np.array(a.ravel()[0])
    return a


# ----------------------------------------------------------------------------------------------
# cs_safe.abs
# ----------------------------------------------------------------------------------------------
def judge_abs(case, acc):
    from openmdao.utils import cs_safe
    rng = random.Random(case['seed'])
    form = case['form']
    shape = tuple(case['shape']) if form in ('array', 'intarray') else (1,)
    n = int(np.prod(shape))
    a = _vals(rng, n, pzero=0.3, ints=(form == 'intarray')).reshape(shape)
    bad = False
    fp = fingerprint(['abs', form, list(shape), case['h'], _signs(a)])
    # real input
    x = _mk(a.astype(int) if form == 'intarray' else a.copy(), form)
    try:
        got = cs_safe.abs(x)
    except Exception as e:
        acc.viol('abs:%s:real:raises-%s' % (form, type(e).__name__), str(e)[:200], case)
        return
    acc.count('obs:abs:real')
    if form in ('pyscalar', 'npscalar'):
        acc.count('obs:abs:scalar')
    if np.iscomplexobj(got) or np.size(got) != a.size or not _close(np.reshape(got, shape), np.abs(a), 0.0):
        acc.viol('abs:%s:real-value' % form, 'cs_safe.abs(%s)=%s, np.abs=%s' %
                 (np.ravel(a)[:6].tolist(), np.ravel(got)[:6].tolist(), np.abs(a).ravel()[:6].tolist()), case)
        bad = True
    if form != 'intarray':
        h = case['h']
        d = _vals(rng, n, pzero=0.2).reshape(shape)
        if case.get('dzero'):
            d[...] = 0.0
        z = _mk(a + 1j * h * d, form)
        try:
            got = cs_safe.abs(z)
        except Exception as e:
            acc.viol('abs:%s:cs:raises-%s' % (form, type(e).__name__), str(e)[:200], case, new_case=not bad)
            return
        acc.count('obs:abs:cs')
        got = np.asarray(got)
        gi = got.imag.reshape(shape) / h
        gr = got.real.reshape(shape)
        nz = a != 0
        if not _close(gr, np.abs(a), 0.0):
            acc.viol('abs:%s:cs-real-part' % form, 'real part %s != |a| %s' %
                     (gr.ravel()[:6].tolist(), np.abs(a).ravel()[:6].tolist()), case, new_case=not bad)
            bad = True
        ref = np.sign(a) * d
        if not _close(gi[nz], ref[nz], 4 * EPS * np.abs(ref[nz])):
            acc.viol('abs:%s:cs-deriv:nonzero' % form, 'imag/h=%s expected sign(a)*d=%s' %
                     (gi[nz][:6].tolist(), ref[nz][:6].tolist()), case, new_case=not bad)
            bad = True
        if np.any(~nz):
            acc.count('obs:abs:cs-at-zero')
            g0, d0 = gi[~nz], d[~nz]
            if form in ('array', '0d'):
                # documented in the source: NumPy 1.x sign convention -> sign(imag) -> |d|
                good = _close(g0, np.abs(d0), 4 * EPS * np.abs(d0))
            else:
                good = bool(np.all(np.abs(np.abs(g0) - np.abs(d0)) <= 4 * EPS * np.abs(d0)))
            if not good:
                acc.viol('abs:%s:cs-deriv:at-zero' % form, 'at a=0: imag/h=%s, d=%s' %
                         (g0[:6].tolist(), d0[:6].tolist()), case, new_case=not bad)
                bad = True
    if not bad:
        acc.ok(fp, sample=case if acc.judged % 1501 == 0 else None)


# ----------------------------------------------------------------------------------------------
# cs_safe.norm
# ----------------------------------------------------------------------------------------------
def judge_norm(case, acc):
    from openmdao.utils import cs_safe
    rng = random.Random(case['seed'])
    shape = tuple(case['shape'])
    axis = case['axis']
    n = int(np.prod(shape))
    a = _vals(rng, n, pzero=0.25).reshape(shape)
    if case.get('zero_slice'):
        # make one whole vector (along axis, or everything) exactly zero
        if axis is None:
            a[...] = 0.0
        else:
            idx = [slice(None)] * len(shape)
            for k in range(len(shape)):
                if k != axis % len(shape):
                    idx[k] = 0
            a[tuple(idx)] = 0.0
    nred = n if axis is None else shape[axis]
    fp = fingerprint(['norm', list(shape), axis, case['h'], _signs(a)])
    bad = False
    kax = 'axis-none' if axis is None else 'axis-int'
    try:
        got = cs_safe.norm(a.copy()) if (axis is None and case.get('noaxisarg')) else cs_safe.norm(a.copy(), axis=axis)
    except Exception as e:
        acc.viol('norm:%s:real:raises-%s' % (kax, type(e).__name__), str(e)[:200], case)
        return
    ref = np.linalg.norm(a, axis=axis) if axis is not None else np.linalg.norm(a.ravel())
    acc.count('obs:norm:real')
    if axis is not None:
        acc.count('obs:norm:axis-int')
    if np.iscomplexobj(got) or not _close(got, ref, (nred + 4) * EPS * np.abs(ref)):
        acc.viol('norm:%s:real-value' % kax, 'cs_safe.norm=%s np.linalg.norm=%s' %
                 (np.ravel(got)[:6].tolist(), np.ravel(ref)[:6].tolist()), case)
        bad = True
    h = case['h']
    d = _vals(rng, n, pzero=0.2).reshape(shape)
    try:
        got = np.asarray(cs_safe.norm(a + 1j * h * d, axis=axis))
    except Exception as e:
        acc.viol('norm:%s:cs:raises-%s' % (kax, type(e).__name__), str(e)[:200], case, new_case=not bad)
        return
    acc.count('obs:norm:cs')
    ref = np.asarray(ref, dtype=float)
    if got.shape != ref.shape:
        acc.viol('norm:%s:cs-shape' % kax, 'shape %s != %s' % (got.shape, ref.shape), case, new_case=not bad)
        return
    got = np.atleast_1d(got)
    ref = np.atleast_1d(ref)
    gi = got.imag / h
    dot = np.atleast_1d(np.sum(a * d, axis=axis))
    adot = np.atleast_1d(np.sum(np.abs(a * d), axis=axis))
    nz = ref != 0
    with np.errstate(all='ignore'):
        dref = np.where(nz, dot / np.where(nz, ref, 1.0), 0.0)
        tol = np.where(nz, (nred + 8) * EPS * adot / np.where(nz, ref, 1.0), 0.0)
    if not _close(got.real, ref, (nred + 4) * EPS * np.abs(ref)):
        acc.viol('norm:%s:cs-real-part' % kax, 'real part %s != norm %s' %
                 (got.real.ravel()[:6].tolist(), ref.ravel()[:6].tolist()), case, new_case=not bad)
        bad = True
    if not _close(gi[nz], dref[nz], tol[nz]):
        acc.viol('norm:%s:cs-deriv' % kax, 'imag/h=%s expected (a.d)/||a||=%s' %
                 (gi[nz].ravel()[:6].tolist(), dref[nz].ravel()[:6].tolist()), case, new_case=not bad)
        bad = True
    if np.any(~nz):
        acc.count('obs:norm:cs-zero-vector')
        dn = np.atleast_1d(np.sqrt(np.sum(d * d, axis=axis)))
        if not _close(np.abs(gi[~nz]), dn[~nz], (nred + 8) * EPS * dn[~nz]):
            acc.viol('norm:%s:cs-deriv:zero-vector' % kax, '|imag|/h=%s expected ||d||=%s' %
                     (np.abs(gi[~nz]).ravel()[:6].tolist(), np.ravel(dn)[:6].tolist()), case, new_case=not bad)
            bad = True
    if not bad:
        acc.ok(fp, sample=case if acc.judged % 1501 == 0 else None)


# ----------------------------------------------------------------------------------------------
# cs_safe.arctan2
# ----------------------------------------------------------------------------------------------
def judge_arctan2(case, acc):
    from openmdao.utils import cs_safe
    rng = random.Random(case['seed'])
    fy, fx = case['forms']            # each 'array' | 'pyscalar' | 'npscalar' | '0d'
    shape = tuple(case['shape'])
    sy = shape if fy == 'array' else (1,)
    sx = shape if fx == 'array' else (1,)
    if case.get('bcast') and fy == 'array' and fx == 'array' and len(shape) > 1:
        sx = shape[-1:]
    y = _vals(rng, int(np.prod(sy)), pzero=0.25).reshape(sy)
    x = _vals(rng, int(np.prod(sx)), pzero=0.25).reshape(sx)
    if case.get('branch'):            # negative real axis: y = 0, x < 0
        y[...] = 0.0
        x = -np.abs(x) - (x == 0)
    yb, xb = np.broadcast_arrays(y, x)
    origin = (yb == 0) & (xb == 0)
    if np.any(origin):
        # move the singular points away deterministically (x := 1) where possible, else skip
        if x.shape == xb.shape:
            x = np.where(origin, 1.0, x)
        elif y.shape == yb.shape:
            y = np.where(origin, 1.0, y)
        else:
            acc.skip('arctan2-origin')
            return
        yb, xb = np.broadcast_arrays(y, x)
        if np.any((yb == 0) & (xb == 0)):
            acc.skip('arctan2-origin')
            return
    which = case['which']             # 'y' | 'x' | 'both'
    fp = fingerprint(['arctan2', fy, fx, list(sy), list(sx), which, case['h'], _signs(yb), _signs(xb)])
    bad = False
    kf = ('arr' if fy in ('array', '0d') else 'sc') + '-' + ('arr' if fx in ('array', '0d') else 'sc')
    try:
        got = cs_safe.arctan2(_mk(y.copy(), fy), _mk(x.copy(), fx))
    except Exception as e:
        acc.viol('arctan2:%s:real:raises-%s' % (kf, type(e).__name__), str(e)[:200], case)
        return
    ref = np.arctan2(yb, xb)
    acc.count('obs:arctan2:real')
    if np.any((yb == 0) & (xb < 0)):
        acc.count('obs:arctan2:branch-cut')
    if np.iscomplexobj(got) or not _close(np.broadcast_to(got, ref.shape), ref, 0.0):
        acc.viol('arctan2:%s:real-value' % kf, 'cs_safe.arctan2=%s np.arctan2=%s' %
                 (np.ravel(got)[:6].tolist(), ref.ravel()[:6].tolist()), case)
        bad = True
    h = case['h']
    dy = _vals(rng, y.size, pzero=0.2).reshape(y.shape) if which in ('y', 'both') else np.zeros(y.shape)
    dx = _vals(rng, x.size, pzero=0.2).reshape(x.shape) if which in ('x', 'both') else np.zeros(x.shape)
    yy = _mk(y + 1j * h * dy, fy) if which in ('y', 'both') else _mk(y.copy(), fy)
    xx = _mk(x + 1j * h * dx, fx) if which in ('x', 'both') else _mk(x.copy(), fx)
    try:
        got = np.asarray(cs_safe.arctan2(yy, xx))
    except Exception as e:
        acc.viol('arctan2:%s:cs-%s:raises-%s' % (kf, which, type(e).__name__), str(e)[:200], case, new_case=not bad)
        return
    acc.count('obs:arctan2:cs')
    acc.count('obs:arctan2:cs-' + which)
    try:
        got = np.broadcast_to(got, ref.shape)
    except ValueError:
        acc.viol('arctan2:%s:cs-shape' % kf, 'shape %s vs %s' % (got.shape, ref.shape), case, new_case=not bad)
        return
    dyb, dxb = np.broadcast_arrays(dy, dx)
    dyb = np.broadcast_to(dyb, ref.shape)
    dxb = np.broadcast_to(dxb, ref.shape)
    r2 = xb * xb + yb * yb
    dref = (xb * dyb - yb * dxb) / r2
    tol = 8 * EPS * (np.abs(xb * dyb) + np.abs(yb * dxb)) / r2
    if not _close(got.real, ref, 0.0):
        acc.viol('arctan2:%s:cs-real-part' % kf, 'real part %s != np.arctan2 %s' %
                 (got.real.ravel()[:6].tolist(), ref.ravel()[:6].tolist()), case, new_case=not bad)
        bad = True
    if not _close(got.imag / h, dref, tol):
        acc.viol('arctan2:%s:cs-deriv:%s' % (kf, which), 'imag/h=%s expected (x dy - y dx)/(x^2+y^2)=%s' %
                 ((got.imag / h).ravel()[:6].tolist(), dref.ravel()[:6].tolist()), case, new_case=not bad)
        bad = True
    if not bad:
        acc.ok(fp, sample=case if acc.judged % 1501 == 0 else None)


# ----------------------------------------------------------------------------------------------
# jax smooth helpers
# ----------------------------------------------------------------------------------------------
_JAX = {}


class _CutRaised(Exception):
    """An exception that escaped the code under test (as opposed to the harness)."""


def _call(f, *a):
    try:
        return f(*a)
    except Exception as e:  # noqa
        raise _CutRaised('%s: %s' % (type(e).__name__, str(e)[:200]))


def _jax():
    if not _JAX:
        import jax
        jax.config.update('jax_enable_x64', True)
        import jax.numpy as jnp
        from openmdao.jax_funcs import smooth as sm
        _JAX['jax'] = jax
        _JAX['jnp'] = jnp
        _JAX['sm'] = sm
        g = {}
        g['act_tanh'] = jax.jit(jax.grad(lambda x, mu, z, a, b: jnp.sum(sm.act_tanh(x, mu, z, a, b))))
        g['act_tanh_default'] = jax.jit(jax.grad(lambda x: jnp.sum(sm.act_tanh(x))))
        g['smooth_max'] = jax.jit(jax.grad(lambda x, y, mu: jnp.sum(sm.smooth_max(x, y, mu)), argnums=(0, 1)))
        g['smooth_min'] = jax.jit(jax.grad(lambda x, y, mu: jnp.sum(sm.smooth_min(x, y, mu)), argnums=(0, 1)))
        g['smooth_abs'] = jax.jit(jax.grad(lambda x, mu: jnp.sum(sm.smooth_abs(x, mu))))
        g['smooth_round'] = jax.jit(jax.grad(lambda x, mu: jnp.sum(sm.smooth_round(x, mu))))
        _JAX['g'] = g
    return _JAX


def _smooth_vals(rng, n, mu, kind):
    """Entries: far from the kink, near it (within a few mu), exactly on it."""
    out = np.empty(n)
    for i in range(n):
        r = rng.random()
        if r < 0.2:
            v = 0.0
        elif r < 0.55:
            v = rng.choice([-1.0, 1.0]) * mu * rng.uniform(0.01, 6.0)
        else:
            v = rng.choice([-1.0, 1.0]) * 10.0 ** rng.uniform(-3, 2)
        out[i] = v
    return out


def judge_smooth(case, acc):
    from omv.ref import smooth_ref as R
    J = _jax()
    jnp, sm, G = J['jnp'], J['sm'], J['g']
    fn = case['fn']
    rng = random.Random(case['seed'])
    shape = tuple(case['shape'])
    n = int(np.prod(shape)) if shape else 1
    dflt = bool(case.get('defaults'))
    mu = 1e-2 if dflt else case['mu']       # 1e-2 is the documented default of every helper
    scalar = case.get('scalar', False)
    bad = False

    def finish(fp):
        if not bad:
            acc.ok(fp, sample=case if acc.judged % 1501 == 0 else None)

    def cmp(kind, got, ref, tol, what):
        nonlocal bad
        acc.count('obs:%s:%s' % (fn, kind))
        got = np.asarray(got)
        ref = np.asarray(ref, dtype=float)
        if np.iscomplexobj(got) or got.shape != ref.shape:
            acc.viol('%s:%s:dtype-or-shape' % (fn, kind), '%s: got dtype %s shape %s, expected real %s' %
                     (what, got.dtype, got.shape, ref.shape), case, new_case=not bad)
            bad = True
            return
        if not _close(got, ref, tol):
            acc.viol('%s:%s' % (fn, kind), '%s: got %s expected %s (mu=%g)' %
                     (what, np.ravel(got)[:5].tolist(), np.ravel(ref)[:5].tolist(), mu), case, new_case=not bad)
            bad = True

    def arg(v):
        return float(v.ravel()[0]) if scalar else jnp.asarray(v)

    try:
        if fn == 'act_tanh':
            z = rng.choice([0.0, rng.uniform(-3, 3)])
            a = rng.choice([-1.0, 0.0, rng.uniform(-5, 5)])
            b = rng.choice([1.0, rng.uniform(-5, 5)])
            x = z + _smooth_vals(rng, n, mu, 'x').reshape(shape)
            t = np.abs((x - z) / mu)
            sc = abs(a) + abs(b)
            if dflt:
                z, a, b = 0.0, -1.0, 1.0
                x = _smooth_vals(rng, n, mu, 'x').reshape(shape)
                t = np.abs(x / mu)
                sc = 2.0
            fp = fingerprint([fn, list(shape), mu, scalar, dflt, _signs(x - z)])
            if dflt:
                got = _call(sm.act_tanh, arg(x))
                gg = _call(G['act_tanh_default'], jnp.asarray(x))
            else:
                got = _call(sm.act_tanh, arg(x), mu, z, a, b)
                gg = _call(G['act_tanh'], jnp.asarray(x), mu, z, a, b)
            xs = x.ravel()[:1].reshape(()) if scalar else x
            cmp('value', got, R.act_tanh(xs, mu, z, a, b), 64 * EPS * sc, 'act_tanh')
            cmp('grad', gg, R.d_act_tanh(x, mu, z, a, b), 64 * EPS * sc / mu * (1 + t), 'd act_tanh/dx')
            if np.any(x == z):
                acc.count('obs:smooth:tie')
            far = t >= 20
            if np.any(far) and not scalar:
                acc.count('obs:smooth:far-from-kink')
                step = np.where(x > z, b, a)
                # |act_tanh - step| = |b-a| / (1 + e^{2t}) <= |b-a| e^{-2t}
                cmp('far', np.asarray(got)[far], step[far], abs(b - a) * np.exp(-2 * t[far]) + 64 * EPS * sc,
                    'act_tanh vs step function')
            finish(fp)
        elif fn in ('smooth_max', 'smooth_min'):
            y = _vals(rng, n, pzero=0.2).reshape(shape)
            x = y + _smooth_vals(rng, n, mu, 'x').reshape(shape)
            if case.get('swap'):
                x, y = y, x
            t = np.abs((x - y) / mu)
            sc = np.abs(x) + np.abs(y)
            fp = fingerprint([fn, list(shape), mu, scalar, dflt, case.get('swap', False), _signs(x - y)])
            f = getattr(sm, fn)
            got = _call(f, arg(x), arg(y)) if dflt else _call(f, arg(x), arg(y), mu)
            gx, gy = _call(G[fn], jnp.asarray(x), jnp.asarray(y), mu)
            xs, ys = (x.ravel()[0], y.ravel()[0]) if scalar else (x, y)
            scs = sc.ravel()[0] if scalar else sc
            cmp('value', got, getattr(R, fn)(np.asarray(xs), np.asarray(ys), mu), 64 * EPS * (scs + 1e-300), fn)
            rx, ry = getattr(R, 'd_' + fn)(x, y, mu)
            # d/dx = s + (x-y) sech^2(t)/(2mu): abs. error eps*(1 + |t|); evaluated in forward/complex mode
            # the documented form s*x + (1-s)*y yields s'*x - s'*y, whose cancellation costs
            # eps * s' * (|x| + |y|) with s' = sech^2(t)/(2mu)  (conditioning of the formula, not a defect)
            canc = 8 * EPS * R.sech2((x - y) / mu) / (2 * mu) * sc
            cmp('grad', gx, rx, 64 * EPS * (1 + t) + canc, 'd %s/dx' % fn)
            cmp('grad', gy, ry, 64 * EPS * (1 + t) + canc, 'd %s/dy' % fn)
            if np.any(x == y):
                acc.count('obs:smooth:tie')
            far = t >= 20
            if np.any(far) and not scalar:
                acc.count('obs:smooth:far-from-kink')
                npref = np.maximum(x, y) if fn == 'smooth_max' else np.minimum(x, y)
                # |smooth - exact| = |x-y| / (1 + e^{2t}) <= |x-y| e^{-2t}
                cmp('far', np.asarray(got)[far], npref[far],
                    np.abs(x - y)[far] * np.exp(-2 * t[far]) + 64 * EPS * sc[far],
                    '%s vs np.%s' % (fn, 'maximum' if fn == 'smooth_max' else 'minimum'))
            if not scalar and not dflt:
                h = 1e-30
                dx_ = _vals(rng, n, pzero=0.2).reshape(shape)
                gotc = np.asarray(_call(f, jnp.asarray(x + 1j * h * dx_), jnp.asarray(y), mu))
                cmp('cs', gotc.imag / h, rx * dx_, (64 * EPS * (1 + t) + canc) * np.abs(dx_),
                    'complex step d %s/dx' % fn)
            finish(fp)
        elif fn == 'smooth_abs':
            x = _smooth_vals(rng, n, mu, 'x').reshape(shape)
            t = np.abs(x / mu)
            fp = fingerprint([fn, list(shape), mu, scalar, dflt, _signs(x)])
            got = _call(sm.smooth_abs, arg(x)) if dflt else _call(sm.smooth_abs, arg(x), mu)
            gg = _call(G[fn], jnp.asarray(x), mu)
            xs = x.ravel()[0] if scalar else x
            cmp('value', got, R.smooth_abs(np.asarray(xs), mu), 64 * EPS * np.abs(xs), fn)
            cmp('grad', gg, R.d_smooth_abs(x, mu), 64 * EPS * (1 + t), 'd smooth_abs/dx')
            if np.any(x == 0):
                acc.count('obs:smooth:tie')
            far = t >= 20
            if np.any(far) and not scalar:
                acc.count('obs:smooth:far-from-kink')
                # |x tanh(t)| = |x| (1 - 2/(1+e^{2t}))
                cmp('far', np.asarray(got)[far], np.abs(x)[far],
                    2 * np.abs(x)[far] * np.exp(-2 * t[far]) + 64 * EPS * np.abs(x)[far], 'smooth_abs vs np.abs')
            if not scalar and not dflt:
                h = 1e-30
                dx_ = _vals(rng, n, pzero=0.2).reshape(shape)
                gotc = np.asarray(_call(sm.smooth_abs, jnp.asarray(x + 1j * h * dx_), mu))
                cmp('cs', gotc.imag / h, R.d_smooth_abs(x, mu) * dx_, 64 * EPS * (1 + t) * np.abs(dx_),
                    'complex step d smooth_abs/dx')
            finish(fp)
        elif fn == 'smooth_round':
            base = np.array([float(rng.randrange(-5, 6)) for _ in range(n)])
            frac = np.empty(n)
            for i in range(n):
                r = rng.random()
                if r < 0.15:
                    frac[i] = 0.0                       # exactly an integer (floor jumps here)
                elif r < 0.3:
                    frac[i] = 0.5                       # exactly the rounding tie
                elif r < 0.65:
                    frac[i] = min(max(0.5 + rng.choice([-1, 1]) * mu * rng.uniform(0.01, 6.0), 0.0), 0.999)
                else:
                    frac[i] = rng.uniform(0.0, 0.999)
            x = (base + frac).reshape(shape)
            f0 = np.floor(x)
            t = np.abs((x - f0 - 0.5) / mu)
            fp = fingerprint([fn, list(shape), mu, scalar, dflt, _signs(x - f0 - 0.5), _signs(x)])
            got = _call(sm.smooth_round, arg(x)) if dflt else _call(sm.smooth_round, arg(x), mu)
            gg = _call(G[fn], jnp.asarray(x), mu)
            xs = x.ravel()[0] if scalar else x
            cmp('value', got, R.smooth_round(np.asarray(xs), mu), 64 * EPS * (np.abs(xs) + 1), fn)
            # x - floor(x) - 0.5 is exact in both; derivative = sech^2(t)/(2mu)
            cmp('grad', gg, R.d_smooth_round(x, mu), 64 * EPS / mu * (1 + t), 'd smooth_round/dx')
            if np.any(x - f0 == 0.5):
                acc.count('obs:smooth:tie')
            far = (t >= 20) & (x != f0)
            if np.any(far) and not scalar:
                acc.count('obs:smooth:far-from-kink')
                # away from the tie the helper is within e^{-2t} of round-half-up == np.round there
                cmp('far', np.asarray(got)[far], np.round(x)[far],
                    np.exp(-2 * t[far]) + 64 * EPS * (np.abs(x)[far] + 1), 'smooth_round vs np.round')
            finish(fp)
        else:
            raise ValueError(fn)
    except _CutRaised as e:
        acc.viol('%s:raises-%s' % (fn, str(e).split(':')[0]), str(e), case, new_case=not bad)


# ----------------------------------------------------------------------------------------------
# framework entry points
# ----------------------------------------------------------------------------------------------
def _gen_cs_case(rng, seed):
    r = rng.random()
    h = rng.choice(HS)
    if r < 0.34:
        form = rng.choice(['array', 'array', 'array', '0d', 'npscalar', 'pyscalar', 'intarray'])
        return {'fn': 'abs', 'form': form, 'shape': list(rng.choice(SHAPES)), 'h': h, 'seed': seed,
                'dzero': rng.random() < 0.05}
    if r < 0.67:
        shape = rng.choice(SHAPES)
        axis = rng.choice([None] + list(range(-len(shape), len(shape))))
        return {'fn': 'norm', 'shape': list(shape), 'axis': axis, 'h': h, 'seed': seed,
                'zero_slice': rng.random() < 0.2, 'noaxisarg': rng.random() < 0.5}
    forms = rng.choice([('array', 'array')] * 4 + [('array', 'pyscalar'), ('pyscalar', 'array'),
                                                   ('npscalar', 'npscalar'), ('pyscalar', 'pyscalar'),
                                                   ('0d', 'array'), ('array', 'npscalar')])
    return {'fn': 'arctan2', 'forms': list(forms), 'shape': list(rng.choice(SHAPES)), 'h': h, 'seed': seed,
            'which': rng.choice(['y', 'x', 'both']), 'bcast': rng.random() < 0.2, 'branch': rng.random() < 0.1}


_SMOOTH_SHAPES = [(1,), (4,), (2, 3), (2, 2, 2)]


def _gen_smooth_case(rng, seed):
    fn = rng.choice(['act_tanh', 'smooth_max', 'smooth_min', 'smooth_abs', 'smooth_round'])
    return {'fn': fn, 'shape': list(rng.choice(_SMOOTH_SHAPES)), 'mu': rng.choice(MUS), 'seed': seed,
            'scalar': rng.random() < 0.1, 'defaults': rng.random() < 0.15, 'swap': rng.random() < 0.5}


def shards(tier, seed):
    out = []
    if tier == 'quick':
        ncs, nsm, per_cs, per_sm = 8, 16, 500, 120
    else:
        ncs, nsm, per_cs, per_sm = 16, 32, 5000, 1200
    for k in range(ncs):
        out.append({'kind': 'cs', 'seed': seed * 100000 + k, 'n': per_cs})
    for k in range(nsm):
        out.append({'kind': 'smooth', 'seed': seed * 100000 + 50000 + k, 'n': per_sm})
    return out


def run_shard(shard, acc):
    rng = random.Random(shard['seed'])
    if shard['kind'] == 'cs':
        for i in range(shard['n']):
            case = _gen_cs_case(rng, shard['seed'] * 100003 + i)
            run_case(case, acc)
    else:
        for i in range(shard['n']):
            case = _gen_smooth_case(rng, shard['seed'] * 100003 + i)
            run_case(case, acc)


def run_case(case, acc):
    fn = case['fn']
    if fn == 'abs':
        judge_abs(case, acc)
    elif fn == 'norm':
        judge_norm(case, acc)
    elif fn == 'arctan2':
        judge_arctan2(case, acc)
    else:
        judge_smooth(case, acc)
