"""C05 - Index objects follow NumPy indexing semantics.

Monitor: reference-model comparison at the API boundary of openmdao.utils.indexer.  For every
generated (index spec, source shape, flat_src) the real indexer is built and each observable it
exposes (shaped_array, indexed_src_shape, indexed_val, indexed_val_set, flat(), try_slice variant,
array2slice) is compared with what NumPy does for the same index on an array of that shape.
"""
import itertools
import random

import numpy as np

from omv.core import fingerprint

PROPERTY = 'C05'
LEVEL = 'exploration'
RULE = ('index specs enumerated from a bounded grammar (ints, slices with None/negative parts and steps '
        '+-1,+-2, integer arrays with repeats/negatives, 2-D arrays, tuples, Ellipsis, om.slicer) over '
        'all shapes up to the tier bound, flat_src in {True, False, None}; plus random larger ones; '
        'distinct = distinct (spec, shape, flat_src); non-trivial = accepted by both NumPy and OpenMDAO')
MIN_JUDGED = {'quick': 20000, 'thorough': 200000}
REQUIRED_COUNTERS = ['obs:shaped_array', 'obs:indexed_src_shape', 'obs:indexed_val', 'obs:array2slice',
                     'obs:indexed_val_set', 'obs:try_slice']
ASSUMPTIONS = ['NumPy indexing is the reference semantics',
               'OpenMDAO may reject (raise IndexError/ValueError/TypeError/RuntimeError at construction or '
               'set_src_shape) specs NumPy accepts; a rejected spec is counted, not judged',
               'array2slice is judged only for non-negative arrays (it documents returning None otherwise)']


# ----------------------------------------------------------------------------------------------
# grammar
# ----------------------------------------------------------------------------------------------
def _slices(n, steps, full):
    ends = [None] + list(range(-n, n + 1))
    if not full:
        ends = [None, -n, -1, 0, 1, n] if n > 1 else [None, -1, 0, 1]
        ends = sorted(set(e for e in ends if e is None or -n <= e <= n), key=lambda x: (x is not None, x))
    for a in ends:
        for b in ends:
            for s in steps:
                yield slice(a, b, s)


def _arrays(n, maxlen, two_d):
    vals = list(range(-n, n))
    for L in range(1, maxlen + 1):
        for t in itertools.product(vals, repeat=L):
            yield list(t)
    if two_d and n >= 2:
        for t in itertools.product([0, n - 1, -1], repeat=4):
            yield [[t[0], t[1]], [t[2], t[3]]]


def atoms(n, level):
    """level 0: reduced, 1: full single-atom set."""
    out = list(range(-n, n))
    if level == 0:
        out += list(_slices(n, [None, -1, 2], False))
        out += list(_arrays(n, 2 if n <= 2 else 1, False))
        if n >= 2:
            out.append([0, n - 1, 0])
            out.append([-1, 0])
    else:
        out += list(_slices(n, [None, 1, -1, 2, -2], True))
        out += list(_arrays(n, 3 if n <= 3 else 2, True))
    return out


def enumerate_specs(shape, thorough):
    """Yield index specs for one shape (single atoms, tuples, ellipsis forms)."""
    r = len(shape)
    # single atoms (axis 0)
    for a in atoms(shape[0], 1):
        yield a
    yield Ellipsis
    if r >= 1:
        for a in atoms(shape[0], 0):
            yield (a,)
            yield (a, Ellipsis)
            yield (Ellipsis, a) if r == 1 else (a, Ellipsis)
        for a in atoms(shape[-1], 0):
            yield (Ellipsis, a)
    if r >= 2:
        per_axis = [atoms(n, 0) for n in shape]
        for k in range(2, r + 1):
            for t in itertools.product(*per_axis[:k]):
                yield t
        # ellipsis in the middle / ends
        for a in per_axis[0][:40]:
            for b in per_axis[-1][:40]:
                yield (a, Ellipsis, b)
    if thorough and r >= 2:
        # full atoms on one axis combined with reduced on the others
        full = [atoms(n, 1) for n in shape]
        red = [atoms(n, 0) for n in shape]
        for ax in range(r):
            axes = [full[i] if i == ax else red[i][::3] for i in range(r)]
            for t in itertools.product(*axes):
                yield t


def shapes_for(tier):
    if tier == 'quick':
        ext, rank = 3, 2
    else:
        ext, rank = 4, 3
    out = []
    for r in range(1, rank + 1):
        for s in itertools.product(range(1, ext + 1), repeat=r):
            if r == 3 and tier != 'quick' and max(s) > 2 and sorted(s) != [2, 2, 3]:
                continue
            out.append(s)
    return out


# ----------------------------------------------------------------------------------------------
# spec <-> JSON
# ----------------------------------------------------------------------------------------------
def enc(i):
    if isinstance(i, tuple):
        return {'t': [enc(x) for x in i]}
    if isinstance(i, slice):
        return {'s': [i.start, i.stop, i.step]}
    if i is Ellipsis:
        return '...'
    if isinstance(i, np.ndarray):
        return {'a': i.tolist()}
    if isinstance(i, list):
        return {'l': i}
    return int(i)


def dec(j):
    if isinstance(j, dict):
        if 't' in j:
            return tuple(dec(x) for x in j['t'])
        if 's' in j:
            return slice(*j['s'])
        if 'a' in j:
            return np.array(j['a'], dtype=int)
        if 'l' in j:
            return j['l']
    if j == '...':
        return Ellipsis
    return j


def features(i, top=True):
    f = set()
    if isinstance(i, tuple):
        f.add('tuple%d' % len([x for x in i if x is not Ellipsis]))
        for x in i:
            f |= features(x, False)
    elif isinstance(i, slice):
        st = i.step
        f.add('slice')
        if st is not None and st < 0:
            f.add('negstep')
            if i.start is None:
                f.add('openstart')
            if i.stop is None:
                f.add('openstop')
            elif i.stop >= 0:
                f.add('posstop')
        if (i.start is not None and i.start < 0) or (i.stop is not None and i.stop < 0):
            f.add('negbound')
    elif i is Ellipsis:
        f.add('ellipsis')
    elif isinstance(i, (list, np.ndarray)):
        a = np.asarray(i)
        f.add('array%dd' % a.ndim)
        if a.size and a.min() < 0:
            f.add('negidx')
    else:
        f.add('int')
        if i < 0:
            f.add('negidx')
    return f


def _atoms(idx):
    return list(idx) if isinstance(idx, tuple) else [idx]


def _is_arr(x):
    return isinstance(x, (list, np.ndarray))


def mechanism(idx, shape, flat):
    """Name the mechanism a discrepancy belongs to (used as known-finding key), or None."""
    at = _atoms(idx)
    if not flat and len(shape) > 1 and not isinstance(idx, tuple) and \
            (isinstance(idx, (int, np.integer)) or (_is_arr(idx) and np.asarray(idx).ndim == 1)):
        return 'nd-nonflat-single-int-or-1d-array-first-axis-only'
    if isinstance(idx, tuple) and any(x is Ellipsis for x in at):
        k = [i for i, x in enumerate(at) if x is Ellipsis][0]
        rank = 1 if flat else len(shape)
        width = rank - (len(at) - 1)
        # ints count as advanced indices for NumPy once an array index is present
        def adv(x):
            return _is_arr(x) or isinstance(x, (int, np.integer))
        if width == 0 and any(_is_arr(x) for x in at) and any(adv(x) for x in at[:k]) and \
                any(adv(x) for x in at[k + 1:]):
            return 'zero-width-ellipsis-between-array-indices'
        rest = [x for x in at if x is not Ellipsis]
        if len(rest) == 1 and _is_arr(rest[0]) and np.asarray(rest[0]).ndim > 1 and rank == 1:
            return 'ellipsis-tuple-collapsing-to-single-nd-array'
    for x in at:
        if isinstance(x, slice) and x.step is not None and x.step < 0 and x.start is None \
                and x.stop is not None and x.stop >= 0:
            return 'slice-open-start-neg-step-nonneg-stop'
    return None


def _key(kind, idx, shape, flat):
    m = mechanism(idx, shape, flat)
    base = kind.split('-raises-')[0] + ('-raises' if '-raises-' in kind else '')
    if m is not None:
        return '%s:%s' % (m, base)
    fs = sorted(features(idx))
    return '%s:%s:%s' % (kind, 'flat' if flat else ('nd' if len(shape) > 1 else '1d'), '+'.join(fs))


# ----------------------------------------------------------------------------------------------
# one case
# ----------------------------------------------------------------------------------------------
_REJECT = (IndexError, ValueError, TypeError, RuntimeError)


def judge(idx, shape, flat_src, acc, full=True):
    from openmdao.utils.indexer import indexer
    case = {'idx': enc(idx), 'shape': list(shape), 'flat_src': flat_src}
    size = int(np.prod(shape))
    if isinstance(idx, (list, np.ndarray)) and np.asarray(idx).ndim > 1:
        # OpenMDAO documents (with a deprecation warning) that a non-tuple N-D sequence is treated as
        # a tuple of per-axis indices, i.e. deliberately not NumPy's array-index semantics
        acc.skip('toplevel-nd-sequence-documented-as-tuple')
        return
    eff_flat = flat_src if flat_src is not None else (len(shape) <= 1)
    base = np.arange(size) if eff_flat else np.arange(size).reshape(shape)
    npidx = idx
    if isinstance(idx, tuple):
        npidx = tuple(np.asarray(x) if isinstance(x, list) else x for x in idx)
    elif isinstance(idx, list):
        npidx = np.asarray(idx, dtype=int)
    try:
        ref = base[npidx]
        np_ok = True
    except (IndexError, ValueError):
        np_ok = False
    # --- real code
    try:
        ix = indexer(idx, src_shape=shape, flat_src=flat_src)
    except _REJECT:
        acc.skip('rejected-by-openmdao' if np_ok else 'rejected-by-both')
        return
    if not np_ok:
        # accepted by OpenMDAO but illegal for NumPy: outside the property unless positions are garbage
        try:
            pos = np.asarray(ix.shaped_array())
            if pos.size and (pos.min() < 0 or pos.max() >= size):
                acc.viol(_key('garbage-positions-for-numpy-illegal', idx, shape, eff_flat),
                         'accepted NumPy-illegal index yields out-of-range positions %s' % pos.tolist()[:8],
                         case)
                return
        except Exception:
            pass
        acc.skip('numpy-illegal-accepted')
        return
    refpos = np.asarray(ref).ravel()
    fp = fingerprint(case)
    bad = False
    # 1. shaped_array
    try:
        pos = np.asarray(ix.shaped_array())
        acc.count('obs:shaped_array')
        if pos.shape != refpos.shape or not np.array_equal(pos, refpos):
            acc.viol(_key('shaped_array', idx, shape, eff_flat),
                     'shaped_array()=%s, NumPy positions=%s' % (pos.tolist()[:12], refpos.tolist()[:12]), case, new_case=not bad)
            bad = True
    except Exception as e:
        acc.viol(_key('shaped_array-raises-' + type(e).__name__, idx, shape, eff_flat),
                 'shaped_array() raised %s: %s' % (type(e).__name__, str(e)[:120]), case, new_case=not bad)
        bad = True
    # 2. indexed_src_shape
    try:
        shp = tuple(ix.indexed_src_shape)
        acc.count('obs:indexed_src_shape')
        if shp != tuple(np.shape(ref)):
            acc.viol(_key('indexed_src_shape', idx, shape, eff_flat),
                     'indexed_src_shape=%s, NumPy=%s' % (shp, np.shape(ref)), case, new_case=not bad)
            bad = True
    except Exception as e:
        acc.viol(_key('indexed_src_shape-raises-' + type(e).__name__, idx, shape, eff_flat),
                 'indexed_src_shape raised %s: %s' % (type(e).__name__, str(e)[:120]), case, new_case=not bad)
        bad = True
    if full:
        # 3. indexed_val on data
        data = (np.arange(size) * 7.0 + 3.0).reshape(shape)
        dref = data.ravel()[npidx] if eff_flat else data[npidx]
        try:
            got = ix.indexed_val(data)
            acc.count('obs:indexed_val')
            if not np.array_equal(np.asarray(got).ravel(), np.asarray(dref).ravel()):
                acc.viol(_key('indexed_val', idx, shape, eff_flat),
                         'indexed_val=%s NumPy=%s' % (np.asarray(got).tolist(), np.asarray(dref).tolist()), case, new_case=not bad)
                bad = True
        except Exception as e:
            acc.viol(_key('indexed_val-raises-' + type(e).__name__, idx, shape, eff_flat),
                     'indexed_val raised %s: %s' % (type(e).__name__, str(e)[:120]), case, new_case=not bad)
            bad = True
        # 4. indexed_val_set writes exactly where NumPy writes
        vals = -(np.arange(np.asarray(dref).size, dtype=float).reshape(np.shape(dref)) + 1.0)
        a1 = data.copy()
        a2 = data.copy()
        if eff_flat:
            a2.ravel()[npidx] = vals
        else:
            a2[npidx] = vals
        try:
            ix.indexed_val_set(a1, vals.ravel() if (eff_flat and vals.ndim > 1) else vals)
            acc.count('obs:indexed_val_set')
            if not np.array_equal(a1, a2):
                acc.viol(_key('indexed_val_set', idx, shape, eff_flat),
                         'indexed_val_set wrote %s, NumPy %s' % (a1.tolist(), a2.tolist()), case, new_case=not bad)
                bad = True
        except Exception as e:
            acc.viol(_key('indexed_val_set-raises-' + type(e).__name__, idx, shape, eff_flat),
                     'indexed_val_set raised %s: %s' % (type(e).__name__, str(e)[:120]), case, new_case=not bad)
            bad = True
        # 5. flat() applied to a flat / 1-D source selects the same positions (for a non-flat N-D
        #    source flat() of a single-axis indexer is not a position list and is never used as one)
        if eff_flat or len(shape) == 1:
          try:
            fl = ix.flat()
            got = np.arange(size)[fl]
            acc.count('obs:flat')
            if not np.array_equal(np.asarray(got).ravel(), refpos):
                acc.viol(_key('flat', idx, shape, eff_flat),
                         'flat() selects %s, NumPy positions %s' % (np.asarray(got).ravel().tolist()[:12],
                                                                    refpos.tolist()[:12]), case, new_case=not bad)
                bad = True
          except Exception as e:
            acc.viol(_key('flat-raises-' + type(e).__name__, idx, shape, eff_flat),
                     'flat() raised %s: %s' % (type(e).__name__, str(e)[:120]), case, new_case=not bad)
            bad = True
        # 6. try_slice=True never changes the selected positions
        if isinstance(idx, (list, np.ndarray)):
            try:
                ix2 = indexer(idx, src_shape=shape, flat_src=flat_src, try_slice=True)
                pos2 = np.asarray(ix2.shaped_array())
                acc.count('obs:try_slice')
                pos1 = np.asarray(ix.shaped_array())
                if not np.array_equal(pos2, pos1):
                    acc.viol(_key('try_slice', idx, shape, eff_flat),
                             'try_slice positions %s != plain positions %s' % (pos2.tolist()[:12],
                                                                              pos1.tolist()[:12]), case, new_case=not bad)
                    bad = True
            except _REJECT:
                acc.count('try_slice_rejected')
            except Exception as e:
                acc.viol(_key('try_slice-raises-' + type(e).__name__, idx, shape, eff_flat), str(e)[:120], case, new_case=not bad)
                bad = True
        # 7. copy() behaves identically
        try:
            c = ix.copy()
            if not np.array_equal(np.asarray(c.shaped_array()), np.asarray(ix.shaped_array())):
                acc.viol(_key('copy', idx, shape, eff_flat), 'copy() selects different positions', case, new_case=not bad)
                bad = True
            acc.count('obs:copy')
        except Exception:
            pass
    if not bad:
        acc.ok(fp, sample=case if acc.judged % 5003 == 0 else None)


def judge_array2slice(arr, acc):
    from openmdao.utils.indexer import array2slice
    a = np.asarray(arr, dtype=int)
    case = {'array2slice': a.tolist()}
    try:
        slc = array2slice(a)
    except Exception as e:
        acc.viol('array2slice-raises-' + type(e).__name__, str(e)[:120], case)
        return
    acc.count('obs:array2slice')
    if slc is None:
        acc.ok(fingerprint(case), nontrivial=False)
        return
    n = int(max(a.max(), 0)) + 3 if a.size else 3
    for N in (n, n + 5):
        sel = np.arange(N)[slc]
        if not np.array_equal(sel, a):
            kind = 'neg' if (a.size and a.min() < 0) else ('len%d' % min(a.size, 3))
            acc.viol('array2slice:%s' % kind,
                     'array2slice(%s)=%s selects %s on length %d' % (a.tolist(), slc, sel.tolist(), N), case)
            return
    acc.ok(fingerprint(case))


# ----------------------------------------------------------------------------------------------
# framework entry points
# ----------------------------------------------------------------------------------------------
def shards(tier, seed):
    out = []
    for s in shapes_for(tier):
        sh = {'kind': 'enum', 'shape': list(s), 'tier': tier}
        if len(s) == 3:
            # complete enumeration of the rank-3 tuple grammar is ~1e7 specs per shape (2 h for the tier);
            # take every 29th spec (a prime, so that the sample is not aligned with the product order),
            # shifted by the seed
            sh['stride'] = 29
            sh['phase'] = seed % 29
        out.append(sh)
    nrand = 8 if tier == 'quick' else 32
    for k in range(nrand):
        out.append({'kind': 'random', 'seed': seed * 1000 + k, 'n': 1500 if tier == 'quick' else 8000})
    out.append({'kind': 'a2s', 'maxlen': 4 if tier == 'quick' else 5, 'seed': seed})
    return out


def _rand_atom(rng, n):
    k = rng.random()
    if k < 0.25:
        return rng.randrange(-n, n)
    if k < 0.6:
        def e():
            return None if rng.random() < 0.3 else rng.randrange(-n, n + 1)
        return slice(e(), e(), rng.choice([None, 1, -1, 2, -2, 3, -3]))
    L = rng.randrange(1, 6)
    if rng.random() < 0.15:
        return [[rng.randrange(-n, n) for _ in range(2)] for _ in range(rng.randrange(1, 3))]
    return [rng.randrange(-n, n) for _ in range(L)]


def _rand_spec(rng, shape):
    r = len(shape)
    k = rng.random()
    if k < 0.3:
        return _rand_atom(rng, shape[0])
    nat = rng.randrange(1, r + 1)
    t = [_rand_atom(rng, shape[i]) for i in range(nat)]
    if rng.random() < 0.3:
        pos = rng.randrange(0, nat + 1)
        # atoms after the ellipsis index trailing axes
        tail = nat - pos
        t = t[:pos] + [Ellipsis] + [_rand_atom(rng, shape[r - tail + j]) for j in range(tail)]
    return tuple(t)


def run_shard(shard, acc):
    if shard['kind'] == 'enum':
        shape = tuple(shard['shape'])
        thorough = shard['tier'] == 'thorough'
        seen = set()
        stride = int(shard.get('stride', 1))
        for n, idx in enumerate(enumerate_specs(shape, thorough)):
            if stride > 1 and (n + shard.get('phase', 0)) % stride:
                continue          # rank-3 grammar is ~1e7 specs per shape: a fixed arithmetic sample of it
            k = repr(enc(idx))
            if k in seen:
                continue
            seen.add(k)
            for fs in (False, True, None):
                if fs is None and len(shape) > 1 and not thorough:
                    continue
                judge(idx, shape, fs, acc, full=True)
        acc.count('enumerated_shapes')
    elif shard['kind'] == 'random':
        rng = random.Random(shard['seed'])
        for _ in range(shard['n']):
            r = rng.choice([1, 1, 2, 2, 3, 4])
            shape = tuple(rng.randrange(1, 9) for _ in range(r))
            idx = _rand_spec(rng, shape)
            judge(idx, shape, rng.choice([False, False, True, None]), acc)
    elif shard['kind'] == 'a2s':
        vals = list(range(-3, 7))
        for L in range(0, shard['maxlen'] + 1):
            for t in itertools.product(vals, repeat=L):
                judge_array2slice(list(t), acc)
        rng = random.Random(shard['seed'] + 77)
        for _ in range(3000):
            L = rng.randrange(2, 12)
            st = rng.randrange(0, 20)
            step = rng.randrange(-4, 5)
            a = [st + step * i for i in range(L)]
            if rng.random() < 0.3:
                a[rng.randrange(L)] += rng.choice([-1, 1])
            judge_array2slice(a, acc)


def run_case(case, acc):
    if 'array2slice' in case:
        judge_array2slice(case['array2slice'], acc)
    else:
        judge(dec(case['idx']), tuple(case['shape']), case['flat_src'], acc)


def coverage_extra(tier, agg):
    return {'exhaustive': False,
            'exhaustive_subspace': 'all grammar specs over every rank-1 and rank-2 shape enumerated (%d shape '
                                   'shards incl. rank 3); rank-3 shapes (thorough only): every 29th spec of the '
                                   'grammar; array2slice over all integer arrays of bounded length over [-3,6]'
                                   % agg['counters'].get('enumerated_shapes', 0)}
