"""C33 - Vector arithmetic and scaling round-trips match NumPy.

Monitor: shadow state.  A real problem is built from a generated model spec (omv/gen/models.py: nested groups,
promotions, src_indices, units, ref/ref0/res_ref on outputs incl. IndepVarComp outputs, scalar-shaped variables),
set up (optionally with force_alloc_complex, with a root Newton solver so that the linear vectors are complex too,
with/without allow_post_setup_reorder) and taken to final_setup.  For each of the six root vectors
{input, output, residual} x {nonlinear, linear} the harness keeps ONE flat NumPy shadow array (complex where the
vector allocates complex storage); every real vector of the root and of a few sub-systems is a *handle* onto the
slice of that shadow which the harness computes from the SPEC (variable order = tree order, sorted by subsystem name
when reordering is allowed; sizes from the spec shapes).  A random history of 10-50 operations is applied to
random handles; the same operation is applied to the shadow slice as the plain NumPy expression, and after EVERY
operation EVERY handle's `asarray()` must equal its shadow slice exactly (dtype kind, shape, values): this checks
the operation itself, that a sub-system vector aliases exactly its slice of the root vector (both directions), and
that no other vector is touched.  Named views obtained earlier (`vec[name]`, `_abs_get_val`) are kept and must
keep showing the shadow slice of their variable (alias, never a stale copy); writes through them must arrive.

Scaling: the harness computes its own scaling arrays from the spec (outputs: ref0, ref-ref0; residuals: res_ref
with the documented defaults; inputs: source ref/ref0 at the connected source positions (own NumPy indexing of
the src_indices chain, omv/ref/flatmodel.py) combined with its own unit conversion).  `scale_to_norm` /
`scale_to_phys` must produce the harness formula (tolerance: a few ulp of the operands, derived below) and the
round trip (both orders, fwd and rev, direct calls and System._scaled_context_all / _unscaled_context) must
return the original data within 4 ulp of the largest operand of the affine map.

System._matvec_context restricts the name sets of the linear vectors: inside it `in`, iteration, items()/values()
(zeros for out-of-scope variables) and get_mask() must reflect exactly the scope given; afterwards the full sets.

Keys are '<operation>:<observable>'.  An exception escaping OpenMDAO during setup or an operation on these legal
inputs is a violation ('<operation>:raises:<Type>@<file>:<function>').
"""
import operator
import os
import random

import numpy as np

from omv.core import fingerprint
from omv.kit.gmon import exc_key

PROPERTY = 'C33'
LEVEL = 'exploration'
TECHNIQUE = ('runtime monitoring: NumPy shadow arrays updated next to real DefaultVectors (root and sub-system '
             'views, nonlinear and linear, real and complex-step mode) of generated models; asarray()/named views '
             'compared after every operation; scaling formula and round trip judged against arrays computed from '
             'the spec')
RULE = ('random model specs (nested groups, promotions, src_indices, units, ref/ref0/res_ref scalar and array, '
        'scalar-shaped variables, auto-IVC parameters) x {force_alloc_complex, root Newton, reorder allowed, fwd/rev} '
        'x random histories of 10-50 vector operations on root and sub-system handles; distinct = fingerprint of '
        '(variable layout, configuration, set of operation kinds); non-trivial = the model has a sub-system handle, '
        'scaling arrays exist and the history has >= 10 operations')
MIN_JUDGED = {'quick': 300, 'thorough': 6000}
_OPS_REQUIRED = ['set_val-scalar', 'set_val-array', 'set_val-idx', 'set_vec', 'set_var', 'set_var-idx',
                 'set_var-flat', 'setitem', 'view-write', 'abs_set_val', 'iadd', 'isub', 'imul', 'iadd-idx',
                 'op+=vec', 'op-=vec', 'op*=vec', 'op+=arr', 'op*=scalar', 'add_scal_vec', 'dot', 'get_norm',
                 'get_slice', 'add_to_slice', 'asarray-copy', 'asarray-alias', 'names', 'set_vals',
                 'cs-mode-problem', 'cs-mode-vector', 'scale_to_norm', 'scale_to_phys', 'scale-roundtrip',
                 'scaled-context', 'unscaled-context', 'read_only', 'get_val', 'matvec-context']
REQUIRED_COUNTERS = (['op:' + k for k in _OPS_REQUIRED] +
                     ['obs:asarray-compared', 'obs:root-handle-op', 'obs:subsystem-handle-op', 'obs:nonlinear-op',
                      'obs:linear-op', 'obs:complex-mode-op', 'obs:complex-linear-op', 'obs:named-view-compared',
                      'obs:scale-formula:output', 'obs:scale-formula:residual', 'obs:scale-formula:input',
                      'obs:scale-identity:output', 'obs:scale-identity:residual', 'obs:scale-identity:input',
                      'obs:scale-rev:input', 'obs:scale-with-adder', 'obs:scale-array-ref', 'obs:scale-unit-input',
                      'obs:scale-offset-unit-input', 'obs:scale-src_indices-input', 'obs:layout-compared',
                      'obs:scalar-var', 'obs:promoted-name', 'obs:relative-name', 'obs:declared-order-layout',
                      'obs:hidden-imag-compared', 'obs:empty-vector', 'obs:matvec-restricted'])
ASSUMPTIONS = [
    'the layout (variable order, offsets) is computed from the spec: tree order, children sorted by name when the '
    'Problem option allow_post_setup_reorder is True (documented), declared order otherwise; only the names of the '
    'auto-IVC outputs are read from the model',
    'res_ref defaults: ref for explicit/independent-variable components, 1 for implicit ones (add_output docs)',
    'in real mode on complex-allocated vectors the hidden imaginary part is judged only where the semantics is '
    'documented (set_val/set_vec reset it) or the operation acts on asarray() (imag untouched); after set_var / '
    '__setitem__ / set_vals it is re-read, not judged',
    'scale_to_norm/phys(fwd) of a LINEAR INPUT vector of a sub-system (not the root) is only judged for the round '
    'trip (which of the two scalers a1*factor or factor/a1 is used there depends on internal flags of the sub-system)',
    'mode="rev" scaling is judged by formula for linear input vectors (the only use in OpenMDAO) and by round trip '
    'for the other linear vectors; never applied to nonlinear vectors',
    'mixed-mode binary operations (complex operand into a real-mode vector) are not generated',
]
SHARD_TIMEOUT = {'quick': 900, 'thorough': 3600}

OPTS = dict(p_scaling=0.7, p_units=0.6, p_group=0.8, p_index=0.5, p_chain2=0.3, solver_mix='runonce', p_matfree=0.0,
            p_sparse=0.2, p_param=0.4, max_comps=5, p_implicit=0.35, p_promote=0.5)
EPS = float(np.finfo(float).eps)
KINDS = ('input', 'output', 'residual')
VNAMES = ('nonlinear', 'linear')


def shards(tier, seed):
    n = 16 if tier == 'quick' else 64
    per = 26 if tier == 'quick' else 160
    per = int(os.environ.get('OMV_C33_PER', per))       # development aid (reduced runs end INCONCLUSIVE)
    return [{'seed': seed * 1000000 + i * 1000, 'n': per} for i in range(n)]


def run_shard(shard, acc):
    for k in range(shard['n']):
        run_case({'seed': shard['seed'] + k}, acc)


# ------------------------------------------------------------------------------------------------------------
# spec preparation
# ------------------------------------------------------------------------------------------------------------
def make_spec(seed):
    from omv.gen import models as G
    rng = random.Random(seed)
    spec = G.gen_spec(rng, dict(OPTS))
    cfg = {'cs': rng.random() < 0.6, 'newton': rng.random() < 0.5, 'reorder': rng.random() < 0.7,
           'mode': rng.choice(['fwd', 'rev']), 'nops': rng.randint(10, 50)}
    # scaling on independent-variable outputs as well
    for c in spec['comps']:
        if c['kind'] == 'ivc':
            for oo in c['outputs']:
                if rng.random() < 0.5:
                    G._rand_scaling(rng, oo)
    # scalar-shaped variables: a size-1 output and (independently) the size-1 inputs fed by it
    conns_by_src = {}
    for cn in spec['conns']:
        conns_by_src.setdefault(cn['src'], []).append(cn)
    inputs = {i['name']: i for c in spec['comps'] for i in c['inputs']}
    for c in spec['comps']:
        for oo in c['outputs']:
            if list(oo['shape']) == [1] and rng.random() < 0.5:
                oo['shape'] = []
                for k in ('ref', 'ref0', 'res_ref'):
                    if isinstance(oo.get(k), list):
                        oo[k] = float(np.asarray(oo[k]).ravel()[0])
                for cn in conns_by_src.get(oo['name'], []):
                    if not cn['chain'] and rng.random() < 0.6:
                        inputs[cn['tgt']]['shape'] = []
    if cfg['newton']:
        spec['tree']['nl'] = {'type': 'newton', 'solve_subsystems': False, 'linesearch': None}
        spec['tree']['ln'] = {'type': 'direct', 'assemble_jac': False}
    return spec, cfg


_CLS = {}


def _classes():
    """harness components whose scalar-shaped variables are declared with an explicit shape=()."""
    if _CLS:
        return _CLS
    from omv.gen.comps import HExplicit, HImplicit

    def _omv_add_io(self):
        cs = self._omv_cs
        for i in cs['inputs']:
            kw = {'units': i['units']} if i.get('units') else {}
            if i['shape']:
                self.add_input(i['name'], val=np.ones(i['shape']), **kw)
            else:
                self.add_input(i['name'], val=1.0, shape=(), **kw)
        for o in cs['outputs']:
            kw = {}
            for k in ('units', 'ref', 'ref0', 'res_ref'):
                if o.get(k) is not None:
                    kw[k] = np.asarray(o[k], dtype=float).reshape(o['shape']) if isinstance(o[k], list) else o[k]
            if o['shape']:
                self.add_output(o['name'], val=np.asarray(o.get('val', np.zeros(o['shape'])),
                                                          dtype=float).reshape(o['shape']), **kw)
            else:
                self.add_output(o['name'], val=float(np.asarray(o.get('val', 0.0)).ravel()[0]), shape=(), **kw)

    class SExplicit(HExplicit):
        pass

    class SImplicit(HImplicit):
        pass
    SExplicit._omv_add_io = _omv_add_io
    SImplicit._omv_add_io = _omv_add_io
    _CLS.update(exp=SExplicit, imp=SImplicit)
    return _CLS


def _factory(c, hook):
    """components of the spec; IndepVarComp with ref/ref0/res_ref (G.build's own IVC branch does not pass them)."""
    if c['kind'] != 'ivc':
        return _classes()[c['kind']](c, hook)
    import openmdao.api as om
    ivc = om.IndepVarComp()
    for oo in c['outputs']:
        kw = {}
        for k in ('ref', 'ref0', 'res_ref'):
            if oo.get(k) is not None:
                kw[k] = np.asarray(oo[k], dtype=float).reshape(oo['shape']) if isinstance(oo[k], list) \
                    else float(oo[k])
        if oo['shape']:
            ivc.add_output(oo['name'], val=np.asarray(oo['val'], dtype=float).reshape(oo['shape']),
                           units=oo.get('units'), **kw)
        else:
            ivc.add_output(oo['name'], val=float(np.asarray(oo['val']).ravel()[0]), shape=(),
                           units=oo.get('units'), **kw)
    return ivc


def _size(shape):
    return int(np.prod(shape)) if len(shape) else 1


def comp_order(spec, sorted_):
    """component names in vector order: depth-first over the tree, children by name if sorted_."""
    out = []

    def walk(node):
        kids = list(node['children'])
        if sorted_:
            kids.sort(key=lambda ch: ch['comp'] if 'comp' in ch else ch['group'])
        for ch in kids:
            if 'comp' in ch:
                out.append(ch['comp'])
            else:
                walk(ch)
    walk(spec['tree'])
    return out


def _expand(v, n, default):
    if v is None:
        return np.full(n, float(default))
    a = np.asarray(v, dtype=float).ravel()
    return np.full(n, float(a[0])) if a.size == 1 else a.copy()


class Model:
    """Everything the harness derives from the spec: layouts, names, scaling arrays."""

    def __init__(self, spec, cfg, auto_outs):
        from omv.gen import models as G
        from omv.ref.flatmodel import FlatModel, UNITS
        self.spec = spec
        fm = FlatModel(spec)
        cmap = {c['name']: c for c in spec['comps']}
        order = comp_order(spec, cfg['reorder'])
        owner = {}
        for c in spec['comps']:
            for v in c['outputs'] + c['inputs']:
                owner[v['name']] = c['name']
        conn_of = {cn['tgt']: cn for cn in spec['conns']}
        param_users = {}
        for cn in spec['conns']:
            if cn.get('src_is_param'):
                param_users[cn['src']] = param_users.get(cn['src'], 0) + 1
        self.layout = {'input': [], 'output': []}      # lists of var dicts in root order
        for nm, shp in auto_outs:
            self.layout['output'].append({'abs': nm, 'var': None, 'shape': tuple(shp), 'comp': '_auto_ivc',
                                          'path': '_auto_ivc'})
        for cname in order:
            c = cmap[cname]
            path = spec['path'][cname]
            for io, key in (('output', 'outputs'), ('input', 'inputs')):
                for v in c[key]:
                    self.layout[io].append({'abs': path + '.' + v['name'], 'var': v['name'],
                                            'shape': tuple(v['shape']), 'comp': cname, 'path': path})
        for io in ('input', 'output'):
            off = 0
            for d in self.layout[io]:
                d['lo'] = off
                off += _size(d['shape'])
                d['hi'] = off
        self.n = {'input': self.layout['input'][-1]['hi'] if self.layout['input'] else 0,
                  'output': self.layout['output'][-1]['hi'] if self.layout['output'] else 0}
        self.n['residual'] = self.n['output']
        # promoted names per (group depth)
        self._G = G
        self._owner = owner
        self._conn_of = conn_of
        self._param_users = param_users
        # ---- scaling arrays over the root layout ------------------------------------------------------------
        no = self.n['output']
        self.a0, self.a1, self.rr = np.zeros(no), np.ones(no), np.ones(no)
        self.feat = set()
        src_ref = {}      # output var -> (ref, ref0) flat arrays
        self.out_scaled_paths = []     # abs names of outputs with ref/ref0 scaling
        self.res_scaled_paths = []
        for d in self.layout['output']:
            n = d['hi'] - d['lo']
            if d['var'] is None:
                continue
            o = [x for x in cmap[d['comp']]['outputs'] if x['name'] == d['var']][0]
            kind = cmap[d['comp']]['kind']
            ref = _expand(o.get('ref'), n, 1.0)
            ref0 = _expand(o.get('ref0'), n, 0.0)
            if o.get('res_ref') is not None:
                rr = _expand(o['res_ref'], n, 1.0)
            elif kind == 'imp':
                rr = np.ones(n)
            else:
                rr = ref.copy()
            self.a0[d['lo']:d['hi']] = ref0
            self.a1[d['lo']:d['hi']] = ref - ref0
            self.rr[d['lo']:d['hi']] = rr
            src_ref[d['var']] = (ref, ref0)
            if np.any(ref != 1.0) or np.any(ref0 != 0.0):
                self.out_scaled_paths.append(d['abs'])
            if np.any(rr != 1.0):
                self.res_scaled_paths.append(d['abs'])
            if np.any(ref0 != 0.0):
                self.feat.add('adder')
            if isinstance(o.get('ref'), list) or isinstance(o.get('ref0'), list) or isinstance(o.get('res_ref'), list):
                self.feat.add('array-ref')
        ni = self.n['input']
        self.b0, self.b1, self.lrev, self.bmag = np.zeros(ni), np.ones(ni), np.ones(ni), np.zeros(ni)
        self.unit_conv = False
        for d in self.layout['input']:
            src, pos, fac, offs = fm.wire[d['var']]
            n = d['hi'] - d['lo']
            if src in src_ref:
                ref, ref0 = src_ref[src]
                a0 = ref0[pos]
                a1 = (ref - ref0)[pos]
            else:       # auto-IVC parameter: unscaled
                a0, a1 = np.zeros(n), np.ones(n)
            cn = conn_of[d['var']]
            su, tu = fm.out_units[src], cn.get('tgt_units')
            omag = 0.0
            if su is not None and tu is not None and su != tu:
                self.unit_conv = True
                d['unit_conv'] = True
                fs, os_ = UNITS[su]
                ft, ot = UNITS[tu]
                omag = abs(os_ * fs / ft) + abs(ot)
                if omag:
                    d['offset_conv'] = True
            sl = slice(d['lo'], d['hi'])
            self.b0[sl] = a0 * fac + offs
            self.b1[sl] = a1 * fac
            self.lrev[sl] = fac / a1
            self.bmag[sl] = np.abs(a0 * fac) + omag
            if cn['chain'] and (np.any(a0 != 0) or np.any(a1 != 1)):
                d['indexed_scaled'] = True
        self.has = {'output': bool(self.out_scaled_paths), 'residual': bool(self.res_scaled_paths)}
        self.has['input'] = self.has['output'] or self.unit_conv

    # ---- names -------------------------------------------------------------------------------------------------
    def systems(self):
        """all system paths: '' (root), groups, components (incl. _auto_ivc if it has outputs)."""
        paths = {''}
        for io in ('input', 'output'):
            for d in self.layout[io]:
                parts = d['path'].split('.')
                for k in range(1, len(parts) + 1):
                    paths.add('.'.join(parts[:k]))
        return sorted(paths)

    def is_comp(self, path):
        return path == '_auto_ivc' or path in self.spec['path'].values()

    def local_vars(self, path, io):
        pre = path + '.' if path else ''
        return [d for d in self.layout[io] if d['abs'].startswith(pre)]

    def prom_name(self, path, d, io):
        """promoted name of variable d in the namespace of system `path`, or None if not predictable/unique."""
        if d['var'] is None:
            return None
        if self.is_comp(path):
            return d['var']
        depth = len(path.split('.')) if path else 0
        if io == 'input':
            cn = self._conn_of[d['var']]
            if cn.get('how') == 'param':
                return cn['src'] if self._param_users.get(cn['src'], 0) == 1 else None
        return self._G.name_at(self.spec, d['var'], d['comp'], depth)

    def sys_has_out_scaling(self, path):
        pre = path + '.' if path else ''
        return any(a.startswith(pre) for a in self.out_scaled_paths)

    def sys_has_res_scaling(self, path):
        pre = path + '.' if path else ''
        return any(a.startswith(pre) for a in self.res_scaled_paths)


# ------------------------------------------------------------------------------------------------------------
# shadow
# ------------------------------------------------------------------------------------------------------------
class Fam:
    def __init__(self, kind, vname, n, alloc):
        self.kind, self.vname, self.alloc = kind, vname, bool(alloc)
        self.S = np.zeros(n, dtype=complex if alloc else float)


class Handle:
    def __init__(self, fam, vec, system, path, off, n, vars_):
        self.fam, self.vec, self.system, self.path, self.off, self.n, self.vars = fam, vec, system, path, off, n, vars_
        self.cs = False

    @property
    def D(self):
        return self.fam.S[self.off:self.off + self.n]

    @property
    def cplx(self):
        return self.fam.alloc and self.cs

    @property
    def A(self):
        d = self.D
        return d if self.cplx else d.real

    @property
    def isroot(self):
        return self.path == ''

    def label(self):
        return '%s/%s/%s' % (self.path or '<root>', self.fam.kind, self.fam.vname)


class Violation(Exception):
    def __init__(self, key, what):
        Exception.__init__(self, what)
        self.key = key
        self.what = what


def _eq(a, b):
    a = np.asarray(a)
    b = np.asarray(b)
    return a.shape == b.shape and a.dtype.kind == b.dtype.kind and bool(np.array_equal(a, b))


class Run:
    def __init__(self, case, acc):
        self.case, self.acc = case, acc
        self.seed = case['seed']
        self.rng = random.Random(self.seed * 7 + 1)
        self.nr = np.random.default_rng(self.seed)
        self.ops_done = []
        self.pviews = []       # persistent named views: (handle, var dict, array, complex?)
        self.deferred = []     # violations that do not invalidate the rest of the history

    # ---- values ------------------------------------------------------------------------------------------------
    def val(self, shape, cplx):
        v = self.nr.uniform(-3, 3, size=shape)
        if cplx:
            v = v + 1j * self.nr.uniform(-1, 1, size=shape)
        k = self.rng.random()
        if k < 0.1 and np.ndim(v):
            v = np.round(v)          # exact zeros / integers now and then
        return v

    def scalar(self, cplx):
        v = self.rng.choice([0.0, 1.0, -1.0, 2.5, -0.375, round(self.rng.uniform(-3, 3), 3), self.rng.uniform(-3, 3)])
        if cplx and self.rng.random() < 0.6:
            v = complex(v, self.rng.uniform(-1, 1))
        return v

    def flat_index(self, n):
        """(label, index) into a flat array of length n > 0."""
        k = self.rng.random()
        if k < 0.25:
            return 'int', self.rng.randrange(-n, n)
        if k < 0.6:
            for _ in range(10):
                s = slice(self.rng.choice([None, None] + list(range(-n, n))),
                          self.rng.choice([None, None] + list(range(-n, n + 1))),
                          self.rng.choice([None, 1, 2, -1, 3]))
                if len(range(*s.indices(n))):
                    return 'slice', s
            return 'slice', slice(None)
        L = self.rng.randint(1, min(n, 5))
        idx = self.rng.sample(range(n), L)          # no repeats: assignment order with repeats is NumPy-defined
        if self.rng.random() < 0.4:                  # but irrelevant to the property
            idx = [i - n if self.rng.random() < 0.5 else i for i in idx]
        return 'array', np.array(idx, dtype=int)

    def nd_index(self, shape):
        """index into an array of `shape` (ndim >= 1), non-flat."""
        atoms = []
        nat = self.rng.randint(1, len(shape))
        for ax in range(nat):
            n = shape[ax]
            k = self.rng.random()
            if k < 0.4:
                atoms.append(self.rng.randrange(-n, n))
            else:
                for _ in range(10):
                    s = slice(self.rng.choice([None, None] + list(range(-n, n))),
                              self.rng.choice([None, None] + list(range(-n, n + 1))), self.rng.choice([None, 1, 2, -1]))
                    if len(range(*s.indices(n))):
                        break
                else:
                    s = slice(None)
                atoms.append(s)
        if len(atoms) == 1 and self.rng.random() < 0.5:
            return atoms[0]
        if nat < len(shape) and self.rng.random() < 0.5:
            atoms.append(Ellipsis)
        return tuple(atoms)

    # ---- building ------------------------------------------------------------------------------------------------
    def build(self):
        from omv.gen import models as G
        spec, cfg = make_spec(self.seed)
        self.spec, self.cfg = spec, cfg
        kw = {} if cfg['reorder'] else {'allow_post_setup_reorder': False}
        prob = G.build(spec, comp_factory=_factory, problem_kwargs=kw)
        self.prob = prob
        prob.setup(force_alloc_complex=cfg['cs'], mode=cfg['mode'])
        prob.final_setup()
        model = prob.model
        auto = model._auto_ivc
        auto_outs = [(n, m['shape']) for n, m in auto._var_abs2meta['output'].items()] if auto is not None else []
        self.M = Model(spec, cfg, auto_outs)
        used = sorted(_size(p['shape']) for p in spec['params'] if any(cn['src'] == p['name'] for cn in spec['conns']))
        if sorted(_size(s) for _, s in auto_outs) != used:
            raise RuntimeError('harness: auto-IVC outputs do not match the used parameters of the spec')
        self.fams = {}
        for kind in KINDS:
            for vn in VNAMES:
                rv = model._vectors[kind][vn]
                self.fams[kind, vn] = fam = Fam(kind, vn, self.M.n[kind], rv._alloc_complex)
                if len(rv) != fam.S.size:
                    raise Violation('layout:len', 'root %s/%s vector has length %d, the spec gives %d' %
                                    (kind, vn, len(rv), fam.S.size))
                fam.S[:] = rv._data          # initial content (set_initial_values) is not judged here
        if self.fams['output', 'nonlinear'].alloc != cfg['cs']:
            raise RuntimeError('harness: nonlinear complex allocation differs from force_alloc_complex')
        # systems: root + a few others
        paths = [p for p in self.M.systems() if p]
        groups = [p for p in paths if not self.M.is_comp(p)]
        comps = [p for p in paths if self.M.is_comp(p)]
        chosen = ['']
        if groups:
            chosen.append(self.rng.choice(groups))
        if comps:
            chosen.append(self.rng.choice(comps))
        rest = [p for p in paths if p not in chosen]
        self.rng.shuffle(rest)
        chosen += rest[:self.rng.randint(0, 2)]
        self.paths = chosen
        self.handles = []
        for path in chosen:
            system = model if not path else model._get_subsystem(path)
            for kind in KINDS:
                io = 'input' if kind == 'input' else 'output'
                lv = self.M.local_vars(path, io)
                off = lv[0]['lo'] if lv else 0
                n = (lv[-1]['hi'] - off) if lv else 0
                pre = len(path) + 1 if path else 0
                vars_ = []
                for d in lv:
                    vars_.append(dict(d, rel=d['abs'][pre:], prom=self.M.prom_name(path, d, io),
                                      llo=d['lo'] - off, lhi=d['hi'] - off))
                for vn in VNAMES:
                    self.handles.append(Handle(self.fams[kind, vn], system._vectors[kind][vn], system, path, off, n,
                                               vars_))
        self.scaling_missing = []
        for kind in KINDS:
            for vn in VNAMES:
                rv = model._vectors[kind][vn]
                if self.M.has[kind] and rv._scaling is None:
                    self.scaling_missing.append('%s-%s' % (kind, vn))

    # ---- comparison ---------------------------------------------------------------------------------------------
    def check_all(self, op, h, imag_judged=True):
        """after operation `op` on handle `h`: every handle must show its shadow slice."""
        acc = self.acc
        for g in [h] + [x for x in self.handles if x is not h]:
            got = g.vec.asarray()
            exp = g.A
            acc.count('obs:asarray-compared')
            if not _eq(got, exp):
                if g is h:
                    obs = 'asarray'
                elif g.fam is h.fam:
                    obs = 'aliasing-root-view' if g.isroot else 'aliasing-subsystem-view'
                else:
                    obs = 'other-vector-modified'
                raise Violation('%s:%s' % (op, obs),
                                '%s on %s: %s.asarray() = %r, NumPy shadow = %r' % (op, h.label(), g.label(), got, exp))
            if g.fam.alloc and not g.cs:
                if imag_judged:
                    acc.count('obs:hidden-imag-compared')
                    if not np.array_equal(g.vec._data.imag, g.D.imag):
                        raise Violation('%s:hidden-imag' % op,
                                        '%s on %s: imaginary storage of %s (real mode) = %r, expected %r' %
                                        (op, h.label(), g.label(), g.vec._data.imag, g.D.imag))
        for (g, d, arr, cplx) in self.pviews:
            exp = g.D[d['llo']:d['lhi']]
            if not cplx:
                exp = exp.real
            acc.count('obs:named-view-compared')
            if not _eq(np.asarray(arr).ravel(), exp):
                raise Violation('%s:named-view-stale' % op,
                                '%s on %s: view of %s obtained earlier from %s shows %r, shadow %r' %
                                (op, h.label(), d['abs'], g.label(), np.asarray(arr).ravel(), exp))

    def resync_imag(self, fam):
        """re-read the hidden imaginary storage of a family (real mode, semantics not documented)."""
        if fam.alloc:
            root = [g for g in self.handles if g.fam is fam and g.isroot][0]
            fam.S.imag[:] = root.vec._data.imag
            self.acc.count('unjudged:hidden-imag-reread')

    def close(self, got, exp, tol):
        got = np.asarray(got)
        exp = np.asarray(exp)
        if got.shape != exp.shape:
            return False
        if not np.all(np.isfinite(got)):
            return False
        return bool(np.all(np.abs(got - exp) <= tol))

    # ---- name helpers -------------------------------------------------------------------------------------------
    def pick_var(self, h):
        return self.rng.choice(h.vars) if h.vars else None

    def pick_name(self, h, d):
        names = [('relative-name', d['rel'])]
        if d['prom'] is not None:
            names.append(('promoted-name', d['prom']))
            names.append(('promoted-name', d['prom']))
        lab, nm = self.rng.choice(names)
        self.acc.count('obs:' + lab)
        return nm

    def others(self, h):
        """vectors that may serve as the second operand of a binary operation on h."""
        out = []
        for g in self.handles:
            if g.path != h.path or g.n != h.n:
                continue
            if (g.fam.kind == 'input') != (h.fam.kind == 'input'):
                continue
            if g.cplx and not h.cplx:
                continue
            out.append(g)
        return out

    # ---- operations ----------------------------------------------------------------------------------------------
    def run_history(self):
        acc = self.acc
        # layout first (read-only observation)
        self.op_layout()
        # define every family by a full-array set_val on the root vector
        for (kind, vn), fam in self.fams.items():
            h = [g for g in self.handles if g.fam is fam and g.isroot][0]
            v = self.val((h.n,), False)
            h.vec.set_val(v)
            fam.S[:] = v
            self.tick('set_val-array', h)
            self.check_all('set_val-array', h)
        if self.cfg['cs'] and self.rng.random() < 0.5:
            # start in complex-step mode with genuinely complex content (so that later real-mode operations
            # meet a non-zero hidden imaginary part)
            self.prob.set_complex_step_mode(True)
            lin_alloc = self.fams['output', 'linear'].alloc
            for g in self.handles:
                if g.fam.vname == 'nonlinear' or lin_alloc:
                    g.cs = True
            for (kind, vn), fam in self.fams.items():
                h = [g for g in self.handles if g.fam is fam and g.isroot][0]
                if h.cplx:
                    v = self.val((h.n,), True)
                    h.vec.set_val(v)
                    fam.S[:] = v
                    self.tick('set_val-array', h)
            self.tick('cs-mode-problem', h)
            self.check_all('cs-mode-problem', h)
        ops = self.op_table()
        names = [o[0] for o in ops]
        weights = [(o[1] * 2 if (o[0] == 'cs' and self.cfg['cs']) else o[1]) for o in ops]
        for step in range(self.cfg['nops']):
            name = self.rng.choices(names, weights)[0]
            fn = dict((o[0], o[2]) for o in ops)[name]
            h = self.rng.choice(self.handles)
            self.cur = (step, name, h.label())
            fn(h)

    def tick(self, op, h):
        acc = self.acc
        acc.count('op:' + op)
        self.ops_done.append(op)
        acc.count('obs:root-handle-op' if h.isroot else 'obs:subsystem-handle-op')
        acc.count('obs:%s-op' % h.fam.vname)
        if h.cplx:
            acc.count('obs:complex-mode-op')
            if h.fam.vname == 'linear':
                acc.count('obs:complex-linear-op')
        if h.n == 0:
            acc.count('obs:empty-vector')

    def op_table(self):
        return [
            ('set_val', 5, self.op_set_val), ('set_vec', 3, self.op_set_vec), ('set_var', 6, self.op_set_var),
            ('setitem', 3, self.op_setitem), ('view-write', 4, self.op_view_write),
            ('abs_set_val', 3, self.op_abs_set_val), ('imeth', 5, self.op_imeth), ('iop', 6, self.op_iop),
            ('add_scal_vec', 3, self.op_add_scal_vec), ('dot', 2, self.op_dot), ('get_norm', 2, self.op_norm),
            ('slices', 3, self.op_slices), ('asarray', 2, self.op_asarray), ('names', 2, self.op_names),
            ('set_vals', 1, self.op_set_vals), ('cs', 4, self.op_cs), ('scale', 5, self.op_scale),
            ('roundtrip', 4, self.op_roundtrip), ('context', 3, self.op_context), ('read_only', 1, self.op_read_only),
            ('get_val', 2, self.op_get_val), ('matvec', 2, self.op_matvec),
        ]

    # .. layout / names (read only)
    def op_layout(self):
        acc = self.acc
        for h in self.handles:
            v = h.vec
            exp_abs = [d['abs'] for d in h.vars]
            exp_rng = [(d['abs'], d['llo'], d['lhi']) for d in h.vars]
            got = {'_abs_iter': list(v._abs_iter()), 'ranges': list(v.ranges()), 'len': len(v), 'nvars': v.nvars(),
                   'iter': list(v), 'keys': list(v.keys()),
                   'get_range': [(d['abs'],) + tuple(v.get_range(d['abs'])) for d in h.vars]}
            exp = {'_abs_iter': exp_abs, 'ranges': exp_rng, 'len': h.n, 'nvars': len(h.vars),
                   'iter': [d['rel'] for d in h.vars], 'keys': [d['rel'] for d in h.vars], 'get_range': exp_rng}
            acc.count('obs:layout-compared')
            for k in exp:
                if got[k] != exp[k]:
                    raise Violation('layout:%s' % k, '%s: %s = %r, the spec gives %r' % (h.label(), k, got[k], exp[k]))
        if not self.cfg['reorder']:
            acc.count('obs:declared-order-layout')

    def op_names(self, h):
        acc = self.acc
        v = h.vec
        self.tick('names', h)
        io = 'input' if h.fam.kind == 'input' else 'output'
        other_io = [g for g in self.handles if g.path == h.path and g.fam.vname == h.fam.vname and
                    (g.fam.kind == 'input') != (io == 'input')]
        for d in h.vars:
            for nm in (d['rel'], d['prom']):
                if nm is None:
                    continue
                if not (nm in v):
                    raise Violation('contains:own-name-false', '%s: %r in vec is False' % (h.label(), nm))
            if not v._contains_abs(d['abs']):
                raise Violation('contains_abs:own-name-false', '%s: _contains_abs(%r) False' % (h.label(), d['abs']))
        for bogus in ['no_such_var', 'x.y.z'] + [d['rel'] for g in other_io[:1] for d in g.vars
                                                if d['rel'] not in [e['rel'] for e in h.vars]]:
            try:
                r = bogus in v
            except Exception as e:
                raise Violation(exc_key('contains:foreign-name', e), '%s: %r in vec raised %r' % (h.label(), bogus, e))
            if r:
                raise Violation('contains:foreign-name-true', '%s: %r in vec is True' % (h.label(), bogus))
        # items / values / _abs_item_iter / _get_local_views agree with the shadow
        A = h.A
        items = list(v.items())
        vals = list(v.values())
        aflat = list(v._abs_item_iter(flat=True))
        ashaped = list(v._abs_item_iter(flat=False))
        lviews = v._get_local_views()
        if [k for k, _ in items] != [d['rel'] for d in h.vars] or [k for k, _ in aflat] != [d['abs'] for d in h.vars] \
                or [k for k, _ in ashaped] != [d['abs'] for d in h.vars] or list(lviews) != [d['rel'] for d in h.vars]:
            raise Violation('items:names', '%s: item iteration names differ from the layout' % h.label())
        if len(vals) != len(h.vars):
            raise Violation('values:count', '%s: %d values for %d variables' % (h.label(), len(vals), len(h.vars)))
        for k, d in enumerate(h.vars):
            exp = A[d['llo']:d['lhi']]
            shp = d['shape']
            for lab, gotv in (('items', items[k][1]), ('values', vals[k]), ('_abs_item_iter-shaped', ashaped[k][1]),
                              ('getitem', v[d['rel']]), ('_abs_get_val-shaped', v._abs_get_val(d['abs'], flat=False))):
                g_ = np.asarray(gotv)
                if g_.shape != tuple(shp) or g_.dtype.kind != exp.dtype.kind or not np.array_equal(g_.ravel(), exp):
                    raise Violation('%s:value' % lab, '%s: %s of %s = %r, shadow %r shape %r' %
                                    (h.label(), lab, d['abs'], gotv, exp, shp))
                if shp == () and isinstance(gotv, np.ndarray):
                    raise Violation('%s:scalar-type' % lab, '%s: scalar variable %s returned as ndarray' %
                                    (h.label(), d['abs']))
            for lab, gotv in (('_abs_item_iter-flat', aflat[k][1]), ('_abs_get_val-flat', v._abs_get_val(d['abs'])),
                              ('_get_local_views', lviews[d['rel']][0].ravel())):
                if not _eq(gotv, exp):
                    raise Violation('%s:value' % lab, '%s: %s of %s = %r, shadow %r' % (h.label(), lab, d['abs'], gotv, exp))
            if lviews[d['rel']][1] != (shp == ()):
                raise Violation('_get_local_views:is_scalar', '%s: is_scalar flag wrong for %s' % (h.label(), d['abs']))
            if shp == ():
                acc.count('obs:scalar-var')
        if v.iscomplex() != h.cplx or (np.dtype(v.dtype).kind == 'c') != h.cplx:
            raise Violation('iscomplex:value', '%s: iscomplex()=%r dtype=%r, complex mode=%r' %
                            (h.label(), v.iscomplex(), v.dtype, h.cplx))
        self.check_all('names', h)

    def op_get_val(self, h):
        """Vector.get_val(name, flat): documented to take a promoted or relative name."""
        d = self.pick_var(h)
        if d is None:
            return
        self.tick('get_val', h)
        v = h.vec
        exp = h.A[d['llo']:d['lhi']]
        for lab, nm in (('absolute', d['abs']), ('relative', d['rel']), ('promoted', d['prom'])):
            if nm is None or (lab == 'absolute' and not h.isroot and nm == d['rel']):
                continue
            if lab == 'absolute' and not h.isroot:
                continue        # the documented argument is a promoted or relative name
            for flat in (True, False):
                try:
                    got = v.get_val(nm, flat=flat)
                except KeyError as e:
                    # deferred: the rest of the history is still judged
                    self.deferred.append((exc_key('get_val-non-absolute-name' if nm != d['abs'] else 'get_val', e),
                                          '%s: get_val(%r, flat=%r) raised KeyError %s although %r is a %s name of the '
                                          'owning system (vec[%r] works)' % (h.label(), nm, flat, e, nm, lab, nm)))
                    break
                except Exception as e:
                    raise Violation(exc_key('get_val-%s-name' % lab, e),
                                    '%s: get_val(%r, flat=%r) raised %s: %s' % (h.label(), nm, flat, type(e).__name__, e))
                g_ = np.asarray(got)
                if not np.array_equal(g_.ravel(), exp) or (not flat and g_.shape != tuple(d['shape'])):
                    raise Violation('get_val-%s-name:value' % lab, '%s: get_val(%r, flat=%r) = %r, shadow %r' %
                                    (h.label(), nm, flat, got, exp))
        self.check_all('get_val', h)

    # .. whole-vector setters
    def op_set_val(self, h):
        k = self.rng.random()
        D = h.D
        if k < 0.25 or h.n == 0:
            val = self.scalar(h.cplx)
            op = 'set_val-scalar'
            h.vec.set_val(val)
            D[:] = val
        elif k < 0.5:
            val = self.val((h.n,), h.cplx)
            op = 'set_val-array'
            h.vec.set_val(val)
            D[:] = val
        else:
            lab, idx = self.flat_index(h.n)
            m = np.empty(h.n)[idx]
            val = self.scalar(h.cplx) if (np.ndim(m) == 0 or self.rng.random() < 0.4) else self.val(m.shape, h.cplx)
            op = 'set_val-idx'
            self.acc.count('op:set_val-idx-' + lab)
            h.vec.set_val(val, idx)
            D[idx] = val
        self.tick(op, h)
        self.check_all(op, h)

    def op_set_vec(self, h):
        o = self.rng.choice(self.others(h))
        self.tick('set_vec', h)
        src = o.A.copy()
        h.vec.set_vec(o.vec)
        h.D[:] = src
        self.check_all('set_vec', h)

    def op_set_vals(self, h):
        self.tick('set_vals', h)
        vals = []
        A = h.A
        for d in h.vars:
            x = self.val(d['shape'], h.cplx) if d['shape'] != () else self.scalar(h.cplx)
            vals.append(x)
        h.vec.set_vals(iter(vals))
        for d, x in zip(h.vars, vals):
            if h.fam.alloc and not h.cs:
                h.D[d['llo']:d['lhi']] = np.asarray(x).ravel()
            else:
                A[d['llo']:d['lhi']] = np.asarray(x).ravel()
        judged = not (h.fam.alloc and not h.cs)
        if not judged:
            self.resync_imag(h.fam)
        self.check_all('set_vals', h, imag_judged=judged)

    # .. named setters
    def _var_target(self, h, d):
        """writable shadow view of variable d in the active array, shaped."""
        a = h.A[d['llo']:d['lhi']]
        return a.reshape(d['shape'])      # a view: slices of 1-D arrays are contiguous in the strided sense

    def _assign_var(self, h, d, idx, val, flat, full_complex_write):
        """shadow of `view[idx] = val` for variable d; idx None = whole variable."""
        tgt_arr = h.D if (full_complex_write and h.fam.alloc and not h.cs) else h.A
        a = tgt_arr[d['llo']:d['lhi']]
        if flat:
            if idx is None:
                a[:] = np.asarray(val).ravel() if np.ndim(val) else val
            else:
                a[idx] = np.asarray(val).ravel() if np.ndim(val) else val
            return
        if d['shape'] == ():
            a[0] = np.asarray(val).ravel()[0]
            return
        sh = a.reshape(d['shape'])
        if not np.shares_memory(sh, a):
            raise RuntimeError('harness: reshape copied')
        if idx is None:
            sh[...] = np.asarray(val).reshape(sh.shape) if np.size(val) == sh.size and np.ndim(val) else val
        else:
            res = sh[idx]
            sh[idx] = np.asarray(val).reshape(np.shape(res)) if (np.ndim(val) and np.size(val) == np.size(res)) else val

    def _rand_var_value(self, shape_of_result, cplx, allow_reshape=True):
        n = int(np.prod(shape_of_result)) if len(shape_of_result) else 1
        k = self.rng.random()
        if len(shape_of_result) == 0 or k < 0.3:
            return self.scalar(cplx)
        v = self.val(shape_of_result, cplx)
        if allow_reshape and len(shape_of_result) > 1 and shape_of_result[0] > 1 and k > 0.75:
            return v.ravel()          # same size, flat: set_var documents reshaping on failure
        return v

    def op_set_var(self, h):
        d = self.pick_var(h)
        if d is None:
            return
        nm = self.pick_name(h, d)
        shape = d['shape']
        n = d['lhi'] - d['llo']
        k = self.rng.random()
        judged = not (h.fam.alloc and not h.cs)
        if k < 0.35:
            op = 'set_var'
            val = self._rand_var_value(shape, h.cplx)
            h.vec.set_var(nm, val)
            self._assign_var(h, d, None, val, False, True)
        elif k < 0.7 and shape != ():
            op = 'set_var-idx'
            idx = self.nd_index(shape)
            res = np.empty(shape)[idx]
            val = self._rand_var_value(np.shape(res), h.cplx)
            h.vec.set_var(nm, val, idxs=idx)
            self._assign_var(h, d, idx, val, False, True)
        else:
            op = 'set_var-flat'
            if self.rng.random() < 0.4:
                val = self._rand_var_value((n,), h.cplx, False)
                h.vec.set_var(nm, val, flat=True)
                self._assign_var(h, d, None, val, True, True)
            else:
                lab, idx = self.flat_index(n)
                res = np.empty(n)[idx]
                val = self._rand_var_value(np.shape(res), h.cplx, False)
                h.vec.set_var(nm, val, idxs=idx, flat=True)
                self._assign_var(h, d, idx, val, True, True)
        self.tick(op, h)
        if shape == ():
            self.acc.count('obs:scalar-var')
        if not judged:
            self.resync_imag(h.fam)
        self.check_all(op, h, imag_judged=judged)

    def op_setitem(self, h):
        d = self.pick_var(h)
        if d is None:
            return
        nm = self.pick_name(h, d)
        val = self._rand_var_value(d['shape'], h.cplx)
        judged = not (h.fam.alloc and not h.cs)
        h.vec[nm] = val
        self._assign_var(h, d, None, val, False, True)
        self.tick('setitem', h)
        if not judged:
            self.resync_imag(h.fam)
        self.check_all('setitem', h, imag_judged=judged)

    def op_abs_set_val(self, h):
        d = self.pick_var(h)
        if d is None:
            return
        shape = d['shape']
        if shape == () or self.rng.random() < 0.4:
            val = self._rand_var_value(shape, h.cplx, False)
            if shape == ():
                h.vec._abs_set_val(d['abs'], val, Ellipsis)
            else:
                h.vec._abs_set_val(d['abs'], val)
            self._assign_var(h, d, None, val, False, False)
        else:
            idx = self.nd_index(shape)
            res = np.empty(shape)[idx]
            val = self._rand_var_value(np.shape(res), h.cplx, False)
            h.vec._abs_set_val(d['abs'], val, idx)
            self._assign_var(h, d, idx, val, False, False)
        self.tick('abs_set_val', h)
        self.check_all('abs_set_val', h)

    def op_view_write(self, h):
        """obtain a named view, keep it, write through it."""
        d = self.pick_var(h)
        if d is None:
            return
        v = h.vec
        how = self.rng.choice(['getitem', '_abs_get_val-flat', '_abs_get_val-shaped'])
        if how == 'getitem':
            arr = v[self.pick_name(h, d)]
        elif how == '_abs_get_val-flat':
            arr = v._abs_get_val(d['abs'], flat=True)
        else:
            arr = v._abs_get_val(d['abs'], flat=False)
        self.tick('view-write', h)
        exp = h.A[d['llo']:d['lhi']]
        if not np.array_equal(np.asarray(arr).ravel(), exp):
            raise Violation('view-%s:value' % how, '%s: %s of %s = %r, shadow %r' % (h.label(), how, d['abs'], arr, exp))
        if d['shape'] == () and how != '_abs_get_val-flat':
            self.acc.count('obs:scalar-var')
            if isinstance(arr, np.ndarray):
                raise Violation('view-%s:scalar-type' % how, '%s: scalar variable %s returned as ndarray' %
                                (h.label(), d['abs']))
            self.check_all('view-write', h)
            return
        if not isinstance(arr, np.ndarray):
            raise Violation('view-%s:type' % how, '%s: %s of %s is %r' % (h.label(), how, d['abs'], type(arr)))
        if len(self.pviews) < 8:
            self.pviews.append((h, d, arr, h.cplx))
        # write through the view
        if arr.ndim == 0:
            return
        if self.rng.random() < 0.5:
            val = self._rand_var_value(arr.shape, h.cplx, False)
            arr[...] = val
            self._assign_var(h, d, None, val, arr.ndim == 1 and len(d['shape']) != 1, False)
        else:
            if arr.ndim == 1:
                lab, idx = self.flat_index(arr.size)
                flat = True
            else:
                idx = self.nd_index(arr.shape)
                flat = False
            res = np.empty(arr.shape)[idx]
            val = self._rand_var_value(np.shape(res), h.cplx, False)
            arr[idx] = val
            self._assign_var(h, d, idx, val, flat, False)
        self.check_all('view-write', h)

    # .. arithmetic
    def op_imeth(self, h):
        which = self.rng.choice(['iadd', 'isub', 'imul'])
        f = {'iadd': operator.iadd, 'isub': operator.isub, 'imul': operator.imul}[which]
        A = h.A
        if h.n and self.rng.random() < 0.5:
            lab, idx = self.flat_index(h.n)
            res = np.empty(h.n)[idx]
            val = self.scalar(h.cplx) if (np.ndim(res) == 0 or self.rng.random() < 0.3) else self.val(res.shape, h.cplx)
            getattr(h.vec, which)(val, idx)
            if which == 'iadd':
                A[idx] += val
            elif which == 'isub':
                A[idx] -= val
            else:
                A[idx] *= val
            self.tick('iadd-idx' if which == 'iadd' else which + '-idx', h)
            op = which + '-idx'
        else:
            val = self.val((h.n,), h.cplx) if self.rng.random() < 0.7 else np.asarray(self.scalar(h.cplx))
            getattr(h.vec, which)(val)
            if which == 'iadd':
                A[:] += val
            elif which == 'isub':
                A[:] -= val
            else:
                A[:] *= val
            self.tick(which, h)
            op = which
        self.check_all(op, h)

    def op_iop(self, h):
        sym = self.rng.choice(['+=', '-=', '*='])
        f = {'+=': operator.iadd, '-=': operator.isub, '*=': operator.imul}[sym]
        A = h.A
        k = self.rng.random()
        if k < 0.45:
            o = self.rng.choice(self.others(h))
            rhs_real, rhs_sh, kind = o.vec, o.A.copy(), 'vec'
        elif k < 0.75:
            rhs_real = self.val((h.n,), h.cplx)
            rhs_sh, kind = rhs_real, 'arr'
        else:
            rhs_real = self.scalar(h.cplx)
            rhs_sh, kind = rhs_real, 'scalar'
        op = 'op%s%s' % (sym, kind)
        ret = f(h.vec, rhs_real)
        A[:] = f(A[:], rhs_sh)
        self.tick(op, h)
        if ret is not h.vec:
            raise Violation('%s:return' % op, '%s: in-place operator did not return the vector itself' % h.label())
        self.check_all(op, h)

    def op_add_scal_vec(self, h):
        o = self.rng.choice(self.others(h))
        alpha = self.scalar(h.cplx)
        rhs = o.A.copy()
        h.vec.add_scal_vec(alpha, o.vec)
        A = h.A
        A += (alpha * rhs)
        self.tick('add_scal_vec', h)
        self.check_all('add_scal_vec', h)

    def op_dot(self, h):
        cands = [g for g in self.handles if g.path == h.path and g.n == h.n and
                 (g.fam.kind == 'input') == (h.fam.kind == 'input')]
        o = self.rng.choice(cands)
        got = h.vec.dot(o.vec)
        a, b = h.A, o.A
        exp = np.dot(a, b)
        tol = (h.n + 2) * EPS * float(np.dot(np.abs(a), np.abs(b)))
        self.tick('dot', h)
        if not (abs(got - exp) <= tol):
            raise Violation('dot:value', '%s . %s = %r, NumPy %r (tol %.2e)' % (h.label(), o.label(), got, exp, tol))
        if np.iscomplexobj(got) != (h.cplx or o.cplx):
            raise Violation('dot:dtype', '%s . %s: result %r, complex modes %r/%r' % (h.label(), o.label(), got, h.cplx,
                                                                                    o.cplx))
        self.check_all('dot', h)

    def op_norm(self, h):
        got = h.vec.get_norm()
        exp = np.linalg.norm(h.A)
        self.tick('get_norm', h)
        if not (abs(got - exp) <= (h.n + 2) * EPS * exp) or np.iscomplexobj(got):
            raise Violation('get_norm:value', '%s: get_norm() = %r, NumPy %r' % (h.label(), got, exp))
        self.check_all('get_norm', h)

    def op_slices(self, h):
        if h.n == 0:
            return
        a, b = sorted(self.rng.sample(range(h.n + 1), 2)) if h.n >= 1 else (0, 0)
        slc = slice(a, b, self.rng.choice([None, None, 2]))
        A = h.A
        if self.rng.random() < 0.5:
            got = h.vec.get_slice(slc)
            self.tick('get_slice', h)
            if not _eq(got, A[slc]):
                raise Violation('get_slice:value', '%s: get_slice(%r) = %r, shadow %r' % (h.label(), slc, got, A[slc]))
            op = 'get_slice'
        else:
            m = A[slc].shape[0]
            val = self.val((m,), h.cplx)
            if self.rng.random() < 0.3 and m > 1 and m % 2 == 0:
                val = val.reshape(2, m // 2)       # the API flattens val (val.flat)
            h.vec.add_to_slice(slc, val)
            A[slc] += val.ravel()
            self.tick('add_to_slice', h)
            op = 'add_to_slice'
        self.check_all(op, h)

    def op_asarray(self, h):
        A = h.A
        if self.rng.random() < 0.5:
            c = h.vec.asarray(copy=True)
            self.tick('asarray-copy', h)
            if not _eq(c, A):
                raise Violation('asarray-copy:value', '%s: asarray(copy=True) = %r, shadow %r' % (h.label(), c, A))
            if h.n:
                c += 1.0          # must not write through
            op = 'asarray-copy'
        else:
            arr = h.vec.asarray()
            self.tick('asarray-alias', h)
            if h.n:
                lab, idx = self.flat_index(h.n)
                res = np.empty(h.n)[idx]
                val = self.scalar(h.cplx) if np.ndim(res) == 0 else self.val(res.shape, h.cplx)
                arr[idx] = val
                A[idx] = val
            op = 'asarray-alias'
        self.check_all(op, h)

    def op_read_only(self, h):
        d = self.pick_var(h)
        if d is None:
            return
        self.tick('read_only', h)
        h.vec.read_only = True
        try:
            try:
                h.vec[d['rel']] = 1.0
            except ValueError:
                pass
            else:
                raise Violation('read_only:setitem-accepted', '%s: __setitem__ on a read_only vector did not raise' %
                                h.label())
        finally:
            h.vec.read_only = False
        self.check_all('read_only', h)

    # .. matvec context (restricted name sets of the linear vectors)
    def op_matvec(self, h):
        acc = self.acc
        mine = {(g.fam.kind, g.fam.vname): g for g in self.handles if g.path == h.path}
        di, do, dr = mine['input', 'linear'], mine['output', 'linear'], mine['residual', 'linear']
        mode = self.rng.choice(['fwd', 'rev'])

        def subset(vars_):
            if self.rng.random() < 0.2:
                return None
            names = [d['abs'] for d in vars_ if self.rng.random() < 0.6]
            if self.rng.random() < 0.3:
                names.append('not.in.this.system')
            return frozenset(names)
        so, si = subset(do.vars), subset(di.vars)
        self.tick('matvec-context', h)
        with h.system._matvec_context(so, si, mode) as vecs:
            if vecs[0] is not di.vec or vecs[1] is not do.vec or vecs[2] is not dr.vec:
                raise Violation('matvec-context:yielded-vectors', '%s: _matvec_context does not yield the linear vectors'
                                % h.label())
            if mode == 'fwd':
                dr.D[:] = 0.0
            else:
                di.D[:] = 0.0
                do.D[:] = 0.0
            self.check_all('matvec-context:enter-' + mode, h)
            restricted = not (so is None and si is None)
            for g, scope in ((di, si), (do, so)):
                if not restricted:
                    scope = None
                ins = [d for d in g.vars if scope is None or d['abs'] in scope]
                if len(ins) != len(g.vars):
                    acc.count('obs:matvec-restricted')
                self._names_view(g, ins, 'matvec-context')
        for g in (di, do):
            self._names_view(g, g.vars, 'matvec-context:after')
        self.check_all('matvec-context:after', h)

    def _names_view(self, g, ins, op):
        """name-set observables of vector g when exactly the variables `ins` are in scope."""
        v = g.vec
        inabs = set(d['abs'] for d in ins)
        if list(v) != [d['rel'] for d in ins] or list(v.keys()) != [d['rel'] for d in ins]:
            raise Violation('%s:iter' % op, '%s: iteration gives %r, in scope are %r' %
                            (g.label(), list(v), [d['rel'] for d in ins]))
        A = g.A
        items = list(v.items())
        vals = list(v.values())
        if [k for k, _ in items] != [d['rel'] for d in g.vars] or len(vals) != len(g.vars):
            raise Violation('%s:items-names' % op, '%s: items() names %r' % (g.label(), [k for k, _ in items]))
        expmask = np.zeros(g.n, dtype=bool)
        for k, d in enumerate(g.vars):
            isin = d['abs'] in inabs
            for nm in (d['rel'], d['prom']):
                if nm is not None and (nm in v) != isin:
                    raise Violation('%s:contains' % op, '%s: (%r in vec) is %r, variable in scope: %r' %
                                    (g.label(), nm, nm in v, isin))
            if v._contains_abs(d['abs']) != isin:
                raise Violation('%s:contains_abs' % op, '%s: _contains_abs(%r) is %r, in scope: %r' %
                                (g.label(), d['abs'], not isin, isin))
            exp = A[d['llo']:d['lhi']] if isin else np.zeros(d['lhi'] - d['llo'], dtype=A.dtype)
            if not isin:
                expmask[d['llo']:d['lhi']] = True
            for lab, gotv in (('items', items[k][1]), ('values', vals[k])):
                g_ = np.asarray(gotv)
                if g_.shape != tuple(d['shape']) or g_.dtype.kind != exp.dtype.kind or \
                        not np.array_equal(g_.ravel(), exp):
                    raise Violation('%s:%s-value' % (op, lab), '%s: %s of %s (in scope: %r) = %r, expected %r' %
                                    (g.label(), lab, d['abs'], isin, gotv, exp))
        m = v.get_mask()
        got = np.zeros(g.n, dtype=bool)
        if m is not None:
            got[m] = True
        if not np.array_equal(got, expmask):
            raise Violation('%s:get_mask' % op, '%s: get_mask() = %r, out-of-scope elements are %r' %
                            (g.label(), m, np.nonzero(expmask)[0]))
        if v._in_matvec_context() != (len(ins) != len(g.vars)):
            raise Violation('%s:_in_matvec_context' % op, '%s: _in_matvec_context() = %r' %
                            (g.label(), v._in_matvec_context()))

    # .. complex-step mode
    def op_cs(self, h):
        if self.rng.random() < 0.5:
            if not self.cfg['cs']:
                return
            active = self.rng.random() < 0.6
            self.prob.set_complex_step_mode(active)
            lin_alloc = self.fams['output', 'linear'].alloc
            for g in self.handles:
                if g.fam.vname == 'nonlinear' or lin_alloc:
                    g.cs = active
            self.tick('cs-mode-problem', h)
            op = 'cs-mode-problem'
        else:
            if not h.fam.alloc:
                return
            active = not h.cs
            h.vec.set_complex_step_mode(active)
            h.cs = active
            self.tick('cs-mode-vector', h)
            op = 'cs-mode-vector'
        self.check_all(op, h)

    # .. scaling
    def scalers(self, h, mode):
        """(B0, B1, mag0, judged_formula, judged_kind) for `norm`: x -> (x - B0) / B1 on handle h."""
        M = self.M
        kind, vn = h.fam.kind, h.fam.vname
        sl = slice(h.off, h.off + h.n)
        judged = True
        if kind == 'output':
            B0, B1, mag0 = M.a0[sl], M.a1[sl], np.abs(M.a0[sl])
        elif kind == 'residual':
            B0, B1, mag0 = np.zeros(h.n), M.rr[sl], np.zeros(h.n)
        else:
            B0, B1, mag0 = M.b0[sl], M.b1[sl], M.bmag[sl]
        if vn == 'linear':
            B0 = np.zeros(h.n)
            mag0 = np.zeros(h.n)
            if mode == 'rev':
                if kind == 'input':
                    B1 = 1.0 / M.lrev[sl]         # norm(rev): x * (fac / a1)
                else:
                    B1 = 1.0 / B1                 # norm(rev): x * scaler; judged by round trip only
                    judged = False
            elif kind == 'input' and not h.isroot:
                # a sub-system's linear input vector divides either by the nonlinear scaler (a1*factor) or by its
                # own rev-mode scaler (factor/a1), depending on the sub-system's internal scaling flags; OpenMDAO
                # only ever applies it around the sub-system's own transfers, where both agree (a1 == 1 for
                # every internally connected input).  Internal convention -> round trip only.
                judged = False
        return B0, B1, mag0, judged

    def _scale_call(self, h, which, mode):
        """call scale_to_<which>(mode) on the real vector and judge the formula; returns nothing."""
        B0, B1, mag0, judged = self.scalers(h, mode)
        A = h.A
        x = A.copy()
        if which == 'norm':
            h.vec.scale_to_norm(mode) if mode == 'rev' or self.rng.random() < 0.5 else h.vec.scale_to_norm()
            e = (x - B0) / B1
            tol = 16 * EPS * ((np.abs(x) + mag0) / np.abs(B1) + np.abs(e))
        else:
            h.vec.scale_to_phys(mode) if mode == 'rev' or self.rng.random() < 0.5 else h.vec.scale_to_phys()
            e = x * B1 + B0
            tol = 16 * EPS * (np.abs(x * B1) + mag0 + np.abs(e))
        self._judge_scaled(h, 'scale_to_%s-%s' % (which, mode), e, tol, judged)

    def _judge_scaled(self, h, op, e, tol, judged):
        acc = self.acc
        got = h.vec.asarray()
        kind = h.fam.kind
        if got.shape != e.shape or got.dtype.kind != h.A.dtype.kind:
            raise Violation('%s:asarray' % op, '%s: asarray() shape/dtype changed by scaling' % h.label())
        if judged:
            acc.count('obs:scale-formula:' + kind)
            self._scale_feature_counts(h)
            if not self.close(got, e, tol):
                raise Violation('%s:formula:%s-%s' % (op, kind, h.fam.vname),
                                '%s: %s gives %r, formula from the spec gives %r (max excess %.3e)' %
                                (h.label(), op, got, e, float(np.max(np.abs(got - e) - tol))))
        else:
            acc.count('unjudged:scale-formula-internal-convention')
        # adopt the actual values (judged within a few ulp) so that later comparisons stay exact
        h.A[:] = got
        self.check_all(op, h)

    def _scale_feature_counts(self, h):
        acc = self.acc
        M = self.M
        sl = slice(h.off, h.off + h.n)
        kind = h.fam.kind
        if h.fam.vname == 'nonlinear' and ((kind == 'output' and np.any(M.a0[sl])) or
                                           (kind == 'input' and np.any(M.b0[sl]))):
            acc.count('obs:scale-with-adder')
        if 'array-ref' in M.feat:
            acc.count('obs:scale-array-ref')
        if kind == 'input':
            for d in h.vars:
                if d.get('unit_conv'):
                    acc.count('obs:scale-unit-input')
                if d.get('offset_conv'):
                    acc.count('obs:scale-offset-unit-input')
                if d.get('indexed_scaled'):
                    acc.count('obs:scale-src_indices-input')

    def _scalable(self, h):
        return self.M.has[h.fam.kind] and not self.scaling_missing

    def _mode_for(self, h):
        if h.fam.vname == 'linear' and self.rng.random() < 0.5:
            return 'rev'
        return 'fwd'

    def op_scale(self, h):
        if not self._scalable(h):
            return
        which = self.rng.choice(['norm', 'phys'])
        mode = self._mode_for(h)
        self.tick('scale_to_' + which, h)
        if mode == 'rev' and h.fam.kind == 'input':
            self.acc.count('obs:scale-rev:input')
        self._scale_call(h, which, mode)

    def _identity_tol(self, h, x0, mode, first):
        B0, B1, mag0, _ = self.scalers(h, mode)
        if first == 'norm':
            m = np.maximum(np.maximum(np.abs(x0), np.abs(B0)), np.abs(x0 - B0))
            return 4 * EPS * m
        t = x0 * B1
        m = np.maximum(np.maximum(np.abs(t), np.abs(B0)), np.abs(t + B0))
        return 4 * EPS * m / np.abs(B1)

    def op_roundtrip(self, h):
        if not self._scalable(h):
            return
        mode = self._mode_for(h)
        first = self.rng.choice(['norm', 'phys'])
        second = 'phys' if first == 'norm' else 'norm'
        x0 = h.A.copy()
        tol = self._identity_tol(h, x0, mode, first)
        self.tick('scale-roundtrip', h)
        if mode == 'rev' and h.fam.kind == 'input':
            self.acc.count('obs:scale-rev:input')
        self._scale_call(h, first, mode)
        self._scale_call(h, second, mode)
        got = h.vec.asarray()
        self.acc.count('obs:scale-identity:' + h.fam.kind)
        if not self.close(got, x0, tol):
            raise Violation('scale-roundtrip-%s-first-%s:identity:%s-%s' % (first, mode, h.fam.kind, h.fam.vname),
                            '%s: scale_to_%s then scale_to_%s (%s) returns %r for %r (max excess %.3e)' %
                            (h.label(), first, second, mode, got, x0, float(np.max(np.abs(got - x0) - tol))))

    def op_context(self, h):
        """System._scaled_context_all / _unscaled_context on the handle's system."""
        M = self.M
        if self.scaling_missing:
            return
        path = h.path
        which = self.rng.choice(['scaled-context', 'unscaled-context'])
        mine = {(g.fam.kind, g.fam.vname): g for g in self.handles if g.path == path}
        act = []
        if M.sys_has_out_scaling(path):
            act += [mine['output', 'nonlinear'], mine['output', 'linear']]
        if M.sys_has_res_scaling(path):
            act += [mine['residual', 'nonlinear'], mine['residual', 'linear']]
        if which == 'unscaled-context':
            # the caller names the vectors
            act = [g for g in act if self.rng.random() < 0.7]
        if not act:
            return
        self.tick(which, h)
        first, second = ('norm', 'phys') if which == 'scaled-context' else ('phys', 'norm')
        x0 = [g.A.copy() for g in act]
        tols = [self._identity_tol(g, x, 'fwd', first) for g, x in zip(act, x0)]
        pre = [self._expected_scaled(g, first) for g in act]
        if which == 'scaled-context':
            ctx = h.system._scaled_context_all()
        else:
            ctx = h.system._unscaled_context(outputs=[g.vec for g in act if g.fam.kind == 'output'],
                                             residuals=[g.vec for g in act if g.fam.kind == 'residual'])
        with ctx:
            for g, (e, tol, judged) in zip(act, pre):
                self._judge_scaled_noresync(g, which + ':inside', e, tol, judged)
            for g in act:
                g.A[:] = g.vec.asarray()
            self.check_all(which + ':inside', h)
        for g, x, tol in zip(act, x0, tols):
            got = g.vec.asarray()
            self.acc.count('obs:scale-identity:' + g.fam.kind)
            if not self.close(got, x, tol):
                raise Violation('%s:identity:%s-%s' % (which, g.fam.kind, g.fam.vname),
                                '%s: after %s the data is %r, was %r' % (g.label(), which, got, x))
            g.A[:] = got
        self.check_all(which + ':after', h)

    def _expected_scaled(self, g, which):
        B0, B1, mag0, judged = self.scalers(g, 'fwd')
        x = g.A.copy()
        if which == 'norm':
            e = (x - B0) / B1
            tol = 16 * EPS * ((np.abs(x) + mag0) / np.abs(B1) + np.abs(e))
        else:
            e = x * B1 + B0
            tol = 16 * EPS * (np.abs(x * B1) + mag0 + np.abs(e))
        return e, tol, judged

    def _judge_scaled_noresync(self, g, op, e, tol, judged):
        got = g.vec.asarray()
        if judged:
            self.acc.count('obs:scale-formula:' + g.fam.kind)
            if not self.close(got, e, tol):
                raise Violation('%s:formula:%s-%s' % (op, g.fam.kind, g.fam.vname),
                                '%s: %s gives %r, formula from the spec gives %r' % (g.label(), op, got, e))


def _structure(run):
    M = run.M
    return [[(d['shape'], d['path'].count('.')) for d in M.layout['input']],
            [(d['shape'], d['path'].count('.')) for d in M.layout['output']],
            run.cfg['cs'], run.cfg['newton'], run.cfg['reorder'], sorted(M.feat), sorted(set(run.ops_done)),
            [p.count('.') + 1 if p else 0 for p in run.paths]]


def _setup_key(spec, e):
    """mechanism key of an exception escaping setup/final_setup on a legal model."""
    from omv.kit.gmon import exc_where
    where = exc_where(e)
    if spec is not None and where in ('group.py:_compute_root_scale_factors', 'default_vector.py:_set_scaling') \
            and isinstance(e, ValueError) and 'broadcast' in str(e):
        outs = {o['name']: o for c in spec['comps'] for o in c['outputs']}
        for cn in spec['conns']:
            o = outs.get(cn['src'])
            if o is not None and cn['chain'] and isinstance(o.get('ref0'), list) and not isinstance(o.get('ref'), list):
                return 'setup:scalar-ref+array-ref0+src_indices:raises:ValueError'
    return exc_key('setup', e)


def run_case(case, acc):
    run = Run(case, acc)
    try:
        run.build()
    except Violation as v:
        acc.viol(v.key, v.what[:600], case)
        return
    except Exception as e:
        if isinstance(e, RuntimeError) and str(e).startswith('harness:'):
            raise
        if os.environ.get('OMV_DEBUG'):
            import traceback
            traceback.print_exc()
        acc.viol(_setup_key(getattr(run, 'spec', None), e), '%s: %s' % (type(e).__name__, str(e)[:300]), case)
        return
    try:
        if run.scaling_missing:
            acc.viol('setup:scaling-arrays-missing:' + run.scaling_missing[0],
                     'the spec declares scaling but root vectors %r have no scaling arrays' % run.scaling_missing, case)
            return
        try:
            run.run_history()
        except Violation as v:
            acc.viol(v.key, '%s [step %r]' % (v.what[:600], getattr(run, 'cur', None)), case)
            return
        except RuntimeError as e:
            if str(e).startswith('harness:'):
                raise
            if os.environ.get('OMV_DEBUG'):
                import traceback
                traceback.print_exc()
            acc.viol(exc_key('%s' % (getattr(run, 'cur', (0, 'init', ''))[1]), e),
                     '%s: %s [step %r]' % (type(e).__name__, str(e)[:300], getattr(run, 'cur', None)), case)
            return
        except Exception as e:
            if os.environ.get('OMV_DEBUG'):
                import traceback
                traceback.print_exc()
            from omv.kit.gmon import exc_where
            if exc_where(e) == '?':
                raise          # not raised inside openmdao: a harness error
            acc.viol(exc_key('%s' % (getattr(run, 'cur', (0, 'init', ''))[1]), e),
                     '%s: %s [step %r]' % (type(e).__name__, str(e)[:300], getattr(run, 'cur', None)), case)
            return
        M = run.M
        if run.deferred:
            seen = set()
            for key, what in run.deferred:
                if key not in seen:
                    acc.viol(key, what[:600], case, new_case=not seen)
                    seen.add(key)
            return
        nontriv = len(run.paths) > 1 and any(M.has.values()) and len(run.ops_done) >= 10
        acc.ok(fingerprint(_structure(run)), nontrivial=nontriv,
               sample={'seed': case['seed'], 'cfg': run.cfg, 'systems': run.paths,
                       'sizes': M.n, 'scaling': M.has, 'ops': run.ops_done[:60]})
    finally:
        try:
            if getattr(run, 'cfg', {}).get('cs'):
                run.prob.set_complex_step_mode(False)
        except Exception:
            pass
        try:
            run.prob.cleanup()
        except Exception:
            pass


def coverage_extra(tier, agg):
    return {'note': 'histories are random; no sub-space is enumerated exhaustively', 'exhaustive': False}
