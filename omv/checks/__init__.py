import importlib
import pkgutil


def load(prop):
    """Import the check module for a property id (file name starts with the lower-cased id)."""
    import omv.checks as pkg
    want = prop.lower()
    for m in pkgutil.iter_modules(pkg.__path__):
        if m.name.split('_')[0] == want:
            return importlib.import_module('omv.checks.' + m.name)
    raise SystemExit('no check module for %s' % prop)


def all_ids():
    import omv.checks as pkg
    return sorted(m.name.split('_')[0].upper() for m in pkgutil.iter_modules(pkg.__path__)
                  if m.name[0] == 'c' and m.name[1:3].isdigit())
