"""C02 - Forward and reverse linear operators are exact adjoints.

Monitor: the dot-product identity <w, A v> = <A^T w, v> evaluated on the real operators a user can drive:
  * Problem.compute_jacvec_product fwd (problem set up in fwd mode) vs rev (same spec set up in rev mode);
  * System.run_apply_linear('fwd') vs ('rev') on the root model and on every sub-group (includes the data
    transfers: forward scatter vs reverse gather with repeated src_indices);
  * System.run_solve_linear('fwd') vs ('rev') on the root model and every sub-group.
The identity needs no reference values; J v is additionally compared with R (omv/ref/flatmodel.py).
"""
import random

import numpy as np

from omv.core import fingerprint
from omv.kit.gmon import FailureMonitor, exc_key, spec_features, tree_solvers, conn_features
from omv.kit.poison import poison

PROPERTY = 'C02'
LEVEL = 'exploration'
TECHNIQUE = 'runtime monitoring: dot-product (adjoint) identity checked on the real fwd/rev operators of generated models'
RULE = ('random model specs (see C01) x random seed vectors; operators: total jacvec products, apply_linear and '
        'solve_linear of the root and of every sub-group; distinct = (wiring features, solver stack, operator); '
        'non-trivial = operator is not the identity (model has connections with indices/units or a loop); every '
        'third spec carries random ref/ref0/res_ref solver scaling (total operator judged only)')
MIN_JUDGED = {'quick': 120, 'thorough': 3000}
REQUIRED_COUNTERS = ['obs:jacvec-duality', 'obs:apply_linear-duality', 'obs:solve_linear-duality',
                     'obs:subgroup-operators', 'obs:repeated-src_indices-model', 'obs:matfree-model',
                     'obs:assembled-model', 'obs:scaled-model-total-operator']
ASSUMPTIONS = ['linear solves are judged only when no linear solver reported non-convergence',
               'tolerance: 1e-10 * (|w||Av| + |A^T w||v|) for products, 1e-7 relative for iterative solves']
SHARD_TIMEOUT = {'quick': 1200, 'thorough': 5400}
OPTS = dict(p_index=0.7, p_units=0.5, p_chain2=0.3, p_param=0.4, p_matfree=0.2, p_sparse=0.6, p_cycle=0.45,
            p_implicit=0.35)


def shards(tier, seed):
    n = 16 if tier == 'quick' else 64
    per = 12 if tier == 'quick' else 60
    return [{'seed': seed * 100000 + i * 1000, 'n': per} for i in range(n)]


def run_shard(shard, acc):
    for k in range(shard['n']):
        run_case({'seed': shard['seed'] + k}, acc)


def _groups(model):
    import openmdao.api as om
    return [s for s in model.system_iter(include_self=True, recurse=True) if isinstance(s, om.Group)]


def run_case(case, acc):
    from omv.gen import models as G
    from omv.ref.flatmodel import FlatModel
    rng = random.Random(case['seed'])
    scaled = case['seed'] % 3 == 0
    spec = G.gen_spec(rng, dict(OPTS, p_scaling=0.6) if scaled else dict(OPTS))
    feats = spec_features(spec)
    if scaled:
        feats = feats + ['solver-scaling']
    cfs = [conn_features(spec, cn) for cn in spec['conns']]
    tainted = any('KNOWN-nd-nonflat-single-index' in f for f in cfs)
    nr = np.random.default_rng(case['seed'])
    fm = FlatModel(spec)

    def K(what):
        if tainted:
            return 'nd-nonflat-single-index-model:' + what.split(':')[0]
        return '%s:%s' % (what, '+'.join(feats))
    of, wrt = spec['of'], spec['wrt']
    of_names = [G.top_name(spec, o) for o in of]
    wrt_names = [G.top_name(spec, w) for w in wrt]
    probs = {}
    with FailureMonitor() as fmon, poison():
        try:
            for mode in ('fwd', 'rev'):
                p = G.build(spec)
                p.setup(mode=mode)
                p.run_model()
                probs[mode] = p
        except Exception as e:
            acc.viol(K(exc_key('setup-or-run', e)), '%s: %s' % (type(e).__name__, str(e)[:200]), case)
            return
        if fmon.failures:
            acc.skip('nonlinear-solver-nonconvergence')
            return
        bad = []
        try:
            # ---- total operator ---------------------------------------------------------------
            for _ in range(2):
                v = [nr.uniform(-1, 1, fm.out_shape[w]) for w in wrt]
                w_ = [nr.uniform(-1, 1, fm.out_shape[o]) for o in of]
                fmon.clear()
                jv = probs['fwd'].compute_jacvec_product(of_names, wrt_names, 'fwd', v, linearize=True)
                vj = probs['rev'].compute_jacvec_product(of_names, wrt_names, 'rev', w_, linearize=True)
                if fmon.failures:
                    acc.count('skipped:linear-nonconvergence-total')
                    continue
                Jv = np.concatenate([np.asarray(jv[o]).ravel() for o in of_names])
                JTw = np.concatenate([np.asarray(vj[w]).ravel() for w in wrt_names])
                vv = np.concatenate([x.ravel() for x in v])
                ww = np.concatenate([x.ravel() for x in w_])
                lhs, rhs = ww @ Jv, JTw @ vv
                # relative to the products; the floor covers responses whose derivative (nearly) vanishes: both
                # products are then pure solver noise (iterative linear solvers stop at an absolute residual of
                # 1e-13..1e-14 on systems with O(1) entries), which is bounded relative to |w||v|, not to |Jv|
                tol = 1e-7 * (np.linalg.norm(ww) * np.linalg.norm(Jv) + np.linalg.norm(JTw) * np.linalg.norm(vv)) \
                    + 1e-9 * np.linalg.norm(ww) * np.linalg.norm(vv) + 1e-13
                acc.count('obs:jacvec-duality')
                if not abs(lhs - rhs) <= tol:
                    bad.append(('jacvec', abs(lhs - rhs), tol))
            # ---- group operators (rev-mode problem has both transfer directions) ---------------
            # (not with solver scaling: run_apply_linear/run_solve_linear take and return vectors in the
            #  forward scaling convention, in which the rev operator is not the plain transpose; the total
            #  operator above is the scaling-independent observable)
            p = probs['rev']
            p.model.run_linearize()
            if scaled:
                acc.count('obs:scaled-model-total-operator')
            for g in ([] if scaled else _groups(p.model)):
                label = 'root' if g.pathname == '' else 'subgroup'
                # a parent's DirectSolver does not linearize the linear solvers below it: linearize the
                # group itself before driving its own solve_linear
                g.run_linearize()
                do, dr, di = g._doutputs, g._dresiduals, g._dinputs
                n = do.asarray().size
                if n == 0:
                    continue
                for _ in range(2):
                    v = nr.uniform(-1, 1, n)
                    w = nr.uniform(-1, 1, n)
                    # apply_linear
                    di.asarray()[:] = 0.0
                    do.asarray()[:] = v
                    dr.asarray()[:] = 0.0
                    g.run_apply_linear('fwd')
                    Av = dr.asarray().copy()
                    do.asarray()[:] = 0.0
                    di.asarray()[:] = 0.0
                    dr.asarray()[:] = w
                    g.run_apply_linear('rev')
                    ATw = do.asarray().copy()
                    lhs, rhs = w @ Av, ATw @ v
                    tol = 1e-10 * (np.linalg.norm(w) * np.linalg.norm(Av) + np.linalg.norm(ATw) * np.linalg.norm(v)) \
                        + 1e-14
                    acc.count('obs:apply_linear-duality')
                    if label == 'subgroup':
                        acc.count('obs:subgroup-operators')
                    if not abs(lhs - rhs) <= tol:
                        bad.append(('apply_linear:%s' % label, abs(lhs - rhs), tol))
                    # solve_linear
                    fmon.clear()
                    do.asarray()[:] = 0.0
                    di.asarray()[:] = 0.0
                    dr.asarray()[:] = v
                    g.run_solve_linear('fwd')
                    x = do.asarray().copy()
                    dr.asarray()[:] = 0.0
                    di.asarray()[:] = 0.0
                    do.asarray()[:] = w
                    g.run_solve_linear('rev')
                    y = dr.asarray().copy()
                    if fmon.failures:
                        acc.count('skipped:linear-nonconvergence-group')
                        continue
                    lhs, rhs = w @ x, y @ v
                    tol = 1e-7 * (np.linalg.norm(w) * np.linalg.norm(x) + np.linalg.norm(y) * np.linalg.norm(v)) + 1e-13
                    acc.count('obs:solve_linear-duality')
                    if not abs(lhs - rhs) <= tol:
                        bad.append(('solve_linear:%s:ln=%s' % (label, type(g.linear_solver).__name__),
                                    abs(lhs - rhs), tol))
                do.asarray()[:] = 0.0
                dr.asarray()[:] = 0.0
                di.asarray()[:] = 0.0
        except Exception as e:
            acc.viol(K(exc_key('linear-operator-api', e)), '%s: %s' % (type(e).__name__, str(e)[:200]), case)
            return
        finally:
            for p in probs.values():
                p.cleanup()
    if any('array' in f and ('chain1' in f or 'chain2' in f) for f in cfs):
        acc.count('obs:repeated-src_indices-model')
    if any(c.get('matfree') for c in spec['comps']):
        acc.count('obs:matfree-model')
    if 'assembled' in feats:
        acc.count('obs:assembled-model')
    if bad:
        first = True
        seen = set()
        for what, err, tol in bad:
            if what in seen:
                continue
            seen.add(what)
            acc.viol(K('not-adjoint:' + what), '%s: |<w,Av> - <A^T w,v>| = %.3e > tol %.1e' % (what, err, tol),
                     case, new_case=first)
            first = False
    else:
        acc.ok(fingerprint([feats, tree_solvers(spec)]), nontrivial=bool(spec['conns']),
               sample={'seed': case['seed'], 'features': feats, 'solvers': tree_solvers(spec)})
