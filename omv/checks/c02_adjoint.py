"""C02 - Forward and reverse linear operators are exact adjoints.

Monitor: the dot-product identity <w, A v> = <A^T w, v> evaluated on the real operators a user can drive:
  * Problem.compute_jacvec_product fwd (problem set up in fwd mode) vs rev (same spec set up in rev mode);
  * System.run_apply_linear('fwd') vs ('rev') on the root model and on every sub-group (includes the data
    transfers: forward scatter vs reverse gather with repeated src_indices);
  * System.run_solve_linear('fwd') vs ('rev') on the root model and every sub-group.
The identity needs no reference values.

Two families of models:
  G      random specs of omv/gen/models.py (harness components: explicit / implicit, assembled and matrix-free);
  stock  small chains of OpenMDAO's own matrix-free / cached-linearization components (omv/gen/c02_kit.py):
         JaxExplicitComponent / JaxImplicitComponent (matrix_free True and False), ExplicitFuncComp, ImplicitFuncComp
         (with and without linearize / solve_linear callbacks), ExecComp, BalanceComp, LinearSystemComp, MetaModel
         components; here the operators of every COMPONENT are judged too, with the inputs that are fed from
         outside the system as part of the operator's domain.

History: the identity is judged at the first (converged) point and again after every move of a sequence that
moves ONLY the states (set_val without re-running / a new guess / the other root of a multi-root residual / one
more solver iteration), ONLY the inputs, both, nothing (re-linearization), or an option / a discrete input the jax
components read (see c02_kit.MOVES_*).  A fwd operator that is evaluated at the current point and a rev operator
that is cached from an earlier one are not adjoint; a single linearization point cannot see that.  From the second
step on the FIRST seed vectors are used again (caches keyed on the right-hand side meet the same right-hand side at
a moved point); every fourth G-model and 40% of the stock models carry rhs_checking solvers and declared responses
that depend on each other (that keeps the reverse-mode solution caches alive), and there compute_totals of the
fwd twin is compared with compute_totals of the rev twin (the identity with unit vectors).
"""
import random

import numpy as np

from omv.core import fingerprint
from omv.kit.gmon import FailureMonitor, exc_key, spec_features, tree_solvers, conn_features
from omv.kit.poison import poison
from omv.gen import c02_kit as K2

PROPERTY = 'C02'
LEVEL = 'exploration'
TECHNIQUE = 'runtime monitoring: dot-product (adjoint) identity checked on the real fwd/rev operators of generated models'
RULE = ('random model specs (see C01) x random seed vectors; operators: total jacvec products, apply_linear and '
        'solve_linear of the root and of every sub-group; distinct = (wiring features, solver stack, operator); '
        'non-trivial = operator is not the identity (model has connections with indices/units or a loop); every '
        'third spec carries random ref/ref0/res_ref solver scaling (total operator judged only); second family: '
        'chains of 2-3 stock components (jax explicit/implicit matrix-free and assembled, func comps, ExecComp, '
        'BalanceComp, LinearSystemComp, MetaModel comps) x who owns the solvers x root linear solver, operators of '
        'every group AND component; history: every operator pair is judged at the first point and after each move '
        'of a random sequence (states only: set_val / new guess / other root / one solver iteration; inputs only; '
        'both; re-linearization; changed static option; changed discrete input), all moves in random order, '
        'seed vectors of the first point repeated at every later step; every 4th G-model / 40% of the stock '
        'models with rhs_checking + dependent declared responses, there also compute_totals fwd twin vs rev twin')
MIN_JUDGED = {'quick': 150, 'thorough': 3500}
REQUIRED_COUNTERS = (['obs:jacvec-duality', 'obs:apply_linear-duality', 'obs:solve_linear-duality',
                      'obs:subgroup-operators', 'obs:repeated-src_indices-model', 'obs:matfree-model',
                      'obs:assembled-model', 'obs:scaled-model-total-operator',
                      'obs:component-operators', 'obs:external-input-seeds', 'obs:jacvec-no-relinearize',
                      'obs:other-root-reached', 'obs:history-steps-judged', 'obs:repeated-seed-vectors',
                      'obs:rhs-cache-alive-model', 'obs:compute_totals-fwd-vs-rev'] +
                     ['move:G:' + m for m in K2.MOVES_G] + ['move:stock:' + m for m in K2.MOVES_STOCK] +
                     ['class:' + c for c in sorted(set(K2.CLASS_OF.values()))])
ASSUMPTIONS = ['linear solves are judged only when no linear solver reported non-convergence',
               'tolerance: 1e-10 * (|w||Av| + |A^T w||v|) for products, 1e-7 relative for iterative solves',
               'the identity is a property of the linearization at the CURRENT inputs/outputs, converged or not: after '
               'every move the operators are linearized again (run_linearize / linearize=True) before they are judged',
               'the fwd-mode and the rev-mode twin are moved by the same numbers and the same deterministic nonlinear '
               'solves, so they are linearized at the same point up to round-off',
               'stock family: all residuals keep |dR/dy| >= 1 at every visited point (two-root quadratics, states '
               'perturbed by <= 0.3, independent variables in [0.2, 1]), so no linear system is near singular']
SHARD_TIMEOUT = {'quick': 1200, 'thorough': 5400}
OPTS = dict(p_index=0.7, p_units=0.5, p_chain2=0.3, p_param=0.4, p_matfree=0.2, p_sparse=0.6, p_cycle=0.45,
            p_implicit=0.35)
N_MOVES_G = len(K2.MOVES_G)


def shards(tier, seed):
    n = 16 if tier == 'quick' else 64
    per = 12 if tier == 'quick' else 60
    stock = 3 if tier == 'quick' else 12
    return [{'seed': seed * 100000 + i * 1000, 'n': per, 'stock': stock} for i in range(n)]


def run_shard(shard, acc):
    for k in range(shard['n']):
        run_case({'seed': shard['seed'] + k}, acc)
    for k in range(shard.get('stock', 0)):
        run_case({'seed': shard['seed'] + k, 'family': 'stock'}, acc)


def _groups(model):
    import openmdao.api as om
    return [s for s in model.system_iter(include_self=True, recurse=True) if isinstance(s, om.Group)]


# ----------------------------------------------------------------------------------------------------------
# the oracle: dot-product identities
# ----------------------------------------------------------------------------------------------------------
def _judge_total(probs, of_names, wrt_names, of_shapes, wrt_shapes, nr, fmon, acc, bad, step, linearize=True,
                 memo=None):
    # memo: the seed vectors of the first call are used again at every later step (a linear-solution cache that
    # is keyed on the right-hand side, e.g. rhs_checking, then meets the SAME right-hand side at a moved point)
    if memo is not None and 'total' in memo:
        v, w_ = memo['total']
        acc.count('obs:repeated-seed-vectors')
    else:
        v = [nr.uniform(-1, 1, s) for s in wrt_shapes]
        w_ = [nr.uniform(-1, 1, s) for s in of_shapes]
        if memo is not None:
            memo['total'] = (v, w_)
    fmon.clear()
    jv = probs['fwd'].compute_jacvec_product(of_names, wrt_names, 'fwd', v, linearize=linearize)
    vj = probs['rev'].compute_jacvec_product(of_names, wrt_names, 'rev', w_, linearize=linearize)
    if fmon.failures:
        acc.count('skipped:linear-nonconvergence-total')
        return
    Jv = np.concatenate([np.asarray(jv[o]).ravel() for o in of_names])
    JTw = np.concatenate([np.asarray(vj[w]).ravel() for w in wrt_names])
    vv = np.concatenate([x.ravel() for x in v])
    ww = np.concatenate([x.ravel() for x in w_])
    lhs, rhs = ww @ Jv, JTw @ vv
    # relative to the products; the floor covers responses whose derivative (nearly) vanishes: both
    # products are then pure solver noise (iterative linear solvers stop at an absolute residual of
    # 1e-13..1e-14 on systems with O(1) entries), which is bounded relative to |w||v|, not to |Jv|
    tol = 1e-7 * (np.linalg.norm(ww) * np.linalg.norm(Jv) + np.linalg.norm(JTw) * np.linalg.norm(vv)) \
        + 1e-9 * np.linalg.norm(ww) * np.linalg.norm(vv) + 1e-13
    acc.count('obs:jacvec-duality')
    if not linearize:
        acc.count('obs:jacvec-no-relinearize')
    if not abs(lhs - rhs) <= tol:
        bad.append(('jacvec' if linearize else 'jacvec-linearize=False', None, step, abs(lhs - rhs), tol))


def _judge_totals(probs, of_names, wrt_names, fmon, acc, bad, step):
    """the identity with unit seed vectors, through the operator users drive most: compute_totals of the fwd-mode
    twin against compute_totals of the rev-mode twin (this is where the reverse-mode solution caches live)."""
    fmon.clear()
    from omv.kit.gmon import SolverAbort
    fmon.abort = True      # a non-convergence report makes the step unjudgeable: stop at the first one
    try:
        Jf = np.asarray(probs['fwd'].compute_totals(of=of_names, wrt=wrt_names, return_format='array'))
        Jr = np.asarray(probs['rev'].compute_totals(of=of_names, wrt=wrt_names, return_format='array'))
    except SolverAbort:
        # the problems were left in the middle of a derivative computation: the rest of this history is not judged
        acc.count('skipped:linear-nonconvergence-total')
        acc.count('skipped:history-after-aborted-compute_totals')
        return False
    finally:
        fmon.abort = False
    if fmon.failures:
        acc.count('skipped:linear-nonconvergence-total')
        return
    # entries are <e_i, J e_j>: same tolerance as a jacvec product with unit vectors (|w| = |v| = 1)
    nf = max(np.abs(Jf).max(), np.abs(Jr).max()) if Jf.size else 0.0
    tol = 2e-7 * nf * np.sqrt(max(Jf.shape)) + 1e-9 if Jf.size else 0.0
    err = np.abs(Jf - Jr).max() if Jf.size else 0.0
    acc.count('obs:compute_totals-fwd-vs-rev')
    if not err <= tol:
        bad.append(('compute_totals', None, step, err, tol))


def _judge_systems(systems, nr, fmon, acc, bad, step, reps, memo=None):
    """systems: list of (system, label, scope, mask of external inputs or None); memo: see _judge_total."""
    for g, label, scope, ext in systems:
        # a parent's DirectSolver does not linearize the linear solvers below it: linearize the
        # system itself before driving its own solve_linear
        g.run_linearize()
        do, dr, di = g._doutputs, g._dresiduals, g._dinputs
        n = do.asarray().size
        if n == 0:
            continue
        ne = int(ext.sum()) if ext is not None else 0
        for rep in range(reps):
            if memo is not None and rep == 0 and g.pathname in memo:
                v, w, vi = memo[g.pathname]
            else:
                v = nr.uniform(-1, 1, n)
                w = nr.uniform(-1, 1, n)
                vi = nr.uniform(-1, 1, ne)
                if memo is not None and rep == 0:
                    memo[g.pathname] = (v, w, vi)
            # apply_linear: (d_inputs fed from outside, d_outputs) -> d_residuals and back
            di.asarray()[:] = 0.0
            if ne:
                di.asarray()[ext] = vi
            do.asarray()[:] = v
            dr.asarray()[:] = 0.0
            g.run_apply_linear('fwd')
            Av = dr.asarray().copy()
            do.asarray()[:] = 0.0
            di.asarray()[:] = 0.0
            dr.asarray()[:] = w
            g.run_apply_linear('rev')
            ATw = do.asarray().copy()
            ATwi = di.asarray()[ext].copy() if ne else np.zeros(0)
            lhs, rhs = w @ Av, ATw @ v + ATwi @ vi
            nATw = np.sqrt(ATw @ ATw + ATwi @ ATwi)
            nv = np.sqrt(v @ v + vi @ vi)
            tol = 1e-10 * (np.linalg.norm(w) * np.linalg.norm(Av) + nATw * nv) + 1e-14
            acc.count('obs:apply_linear-duality')
            if label == 'subgroup':
                acc.count('obs:subgroup-operators')
            if label == 'component':
                acc.count('obs:component-operators')
            if ne:
                acc.count('obs:external-input-seeds')
            if not abs(lhs - rhs) <= tol:
                bad.append(('apply_linear:%s' % label, scope, step, abs(lhs - rhs), tol))
            # solve_linear
            fmon.clear()
            do.asarray()[:] = 0.0
            di.asarray()[:] = 0.0
            dr.asarray()[:] = v
            g.run_solve_linear('fwd')
            x = do.asarray().copy()
            dr.asarray()[:] = 0.0
            di.asarray()[:] = 0.0
            do.asarray()[:] = w
            g.run_solve_linear('rev')
            y = dr.asarray().copy()
            if fmon.failures:
                acc.count('skipped:linear-nonconvergence-group')
                continue
            lhs, rhs = w @ x, y @ v
            tol = 1e-7 * (np.linalg.norm(w) * np.linalg.norm(x) + np.linalg.norm(y) * np.linalg.norm(v)) + 1e-13
            acc.count('obs:solve_linear-duality')
            if not abs(lhs - rhs) <= tol:
                ln = getattr(g, '_linear_solver', None)
                bad.append(('solve_linear:%s:ln=%s' % (label, type(ln).__name__ if ln is not None else 'own'),
                            scope, step, abs(lhs - rhs), tol))
        do.asarray()[:] = 0.0
        dr.asarray()[:] = 0.0
        di.asarray()[:] = 0.0


def _live_rhs_caches(p):
    """number of linear solvers of the problem whose reverse-mode solution cache (rhs_checking) is alive."""
    n = 0
    for s in p.model.system_iter(include_self=True, recurse=True):
        chk = getattr(s._linear_solver, '_lin_rhs_checker', None)
        if chk is not None and chk._caches.maxlen:
            n += 1
    return n


def _finite(p):
    return bool(np.all(np.isfinite(p.model._outputs.asarray())) and np.all(np.isfinite(p.model._inputs.asarray())))


# ----------------------------------------------------------------------------------------------------------
# family G
# ----------------------------------------------------------------------------------------------------------
def run_case(case, acc):
    if case.get('family') == 'stock':
        return run_stock_case(case, acc)
    from omv.gen import models as G
    from omv.ref.flatmodel import FlatModel
    rng = random.Random(case['seed'])
    scaled = case['seed'] % 3 == 0
    opts = dict(OPTS, p_scaling=0.6) if scaled else dict(OPTS)
    cached = case['seed'] % 4 == 1
    if cached:
        # DirectSolver / ScipyKrylov cache reverse-mode solutions by right-hand side (rhs_checking); the cache is
        # only alive when declared responses depend on each other: scaled copies of states, all `of` declared
        opts['p_rhs_checking'] = 0.8
        opts['p_scaled_copy'] = 0.7
    spec = G.gen_spec(rng, opts)
    feats = spec_features(spec)
    if scaled:
        feats = feats + ['solver-scaling']
    cfs = [conn_features(spec, cn) for cn in spec['conns']]
    tainted = any('KNOWN-nd-nonflat-single-index' in f for f in cfs)
    nr = np.random.default_rng(case['seed'])
    fm = FlatModel(spec)
    # the history: own random streams, so that the first point sees the same numbers as before
    hrng = random.Random(case['seed'] + 7919)
    hnr = np.random.default_rng(case['seed'] + 7919)
    moves = list(K2.MOVES_G)
    hrng.shuffle(moves)
    moves = moves[:N_MOVES_G]

    def K(what):
        if tainted:
            return 'nd-nonflat-single-index-model:' + what.split(':')[0]
        return '%s:%s' % (what, '+'.join(feats))
    of, wrt = spec['of'], spec['wrt']
    of_names = [G.top_name(spec, o) for o in of]
    wrt_names = [G.top_name(spec, w) for w in wrt]
    of_shapes = [fm.out_shape[o] for o in of]
    wrt_shapes = [fm.out_shape[w] for w in wrt]
    state_shapes, abs_states, indep_shapes, top_indeps = {}, {}, {}, {}
    for c in spec['comps']:
        for oo in c['outputs']:
            if c['kind'] == 'ivc':
                indep_shapes[oo['name']] = tuple(oo['shape'])
                top_indeps[G.top_name(spec, oo['name'])] = oo['name']
            else:
                state_shapes[oo['name']] = tuple(oo['shape'])
                abs_states[G.abs_name(spec, oo['name'])] = oo['name']
    used = set(cn['src'] for cn in spec['conns'])
    for pp in spec['params']:
        if pp['name'] in used:
            indep_shapes[pp['name']] = tuple(pp['shape'])
            top_indeps[pp['name']] = pp['name']
    probs = {}
    steps_done = 0
    with FailureMonitor() as fmon, poison():
        try:
            for mode in ('fwd', 'rev'):
                p = G.build(spec)
                if cached:
                    for w in wrt_names:
                        p.model.add_design_var(w)
                    for o in of_names:
                        p.model.add_constraint(o, upper=1e3)
                p.setup(mode=mode)
                p.run_model()
                probs[mode] = p
        except Exception as e:
            acc.viol(K(exc_key('setup-or-run', e)), '%s: %s' % (type(e).__name__, str(e)[:200]), case)
            return
        if fmon.failures:
            acc.skip('nonlinear-solver-nonconvergence')
            return
        bad = []
        memo = {}
        step = 'initial'
        n_cache = _live_rhs_caches(probs['rev'])
        try:
            p = probs['rev']
            # (group operators not with solver scaling: run_apply_linear/run_solve_linear take and return vectors
            #  in the forward scaling convention, in which the rev operator is not the plain transpose; the total
            #  operator is the scaling-independent observable)
            systems = [] if scaled else [(g, 'root' if g.pathname == '' else 'subgroup', None, None)
                                         for g in _groups(p.model)]
            for k, move in enumerate(['initial'] + moves):
                step = move
                if k > 0:
                    d = K2.draw_move(hnr, move, state_shapes, indep_shapes)
                    for pr in probs.values():
                        K2.apply_move_g(pr, d, abs_states, top_indeps)
                    fmon.clear()     # the identity does not need a converged point
                    if not all(_finite(pr) for pr in probs.values()):
                        acc.count('skipped:history-nonfinite-state')
                        break
                    acc.count('move:G:' + move)
                # ---- total operator -----------------------------------------------------------------
                for rep in range(2 if k == 0 else 1):
                    _judge_total(probs, of_names, wrt_names, of_shapes, wrt_shapes, nr if k == 0 else hnr, fmon, acc,
                                 bad, step, memo=memo if rep == 0 else None)
                if move == 'relin':
                    _judge_total(probs, of_names, wrt_names, of_shapes, wrt_shapes, hnr, fmon, acc, bad, step,
                                 linearize=False, memo=memo)
                if cached and k % 2 == 0:
                    # (every column is a linear solve: only in the models built for the solution caches)
                    if _judge_totals(probs, of_names, wrt_names, fmon, acc, bad, step) is False:
                        break
                # ---- group operators (rev-mode problem has both transfer directions) -------------------
                p.model.run_linearize()
                if scaled and k == 0:
                    acc.count('obs:scaled-model-total-operator')
                _judge_systems(systems, nr if k == 0 else hnr, fmon, acc, bad, step, 2 if k == 0 else 1, memo=memo)
                if k > 0:
                    acc.count('obs:history-steps-judged')
                steps_done = k
        except Exception as e:
            what = 'linear-operator-api' if step == 'initial' else 'linear-operator-api@' + step
            acc.viol(K(exc_key(what, e)), '%s: %s' % (type(e).__name__, str(e)[:200]), case)
            return
        finally:
            for p in probs.values():
                p.cleanup()
    if any('array' in f and ('chain1' in f or 'chain2' in f) for f in cfs):
        acc.count('obs:repeated-src_indices-model')
    if any(c.get('matfree') for c in spec['comps']):
        acc.count('obs:matfree-model')
    if 'assembled' in feats:
        acc.count('obs:assembled-model')
    if n_cache:
        acc.count('obs:rhs-cache-alive-model')
    if bad:
        first = True
        seen = set()
        for what, _, step, err, tol in bad:
            if what in seen:
                continue
            seen.add(what)      # an operator is reported once, at the first step it fails
            key = what if step == 'initial' else '%s@%s' % (what, step)
            acc.viol(K('not-adjoint:' + key), '%s after %s: |<w,Av> - <A^T w,v>| = %.3e > tol %.1e'
                     % (what, step, err, tol), case, new_case=first)
            first = False
    else:
        acc.ok(fingerprint([feats, tree_solvers(spec), moves[:steps_done]]), nontrivial=bool(spec['conns']),
               sample={'seed': case['seed'], 'features': feats, 'solvers': tree_solvers(spec), 'moves': moves})


# ----------------------------------------------------------------------------------------------------------
# family stock
# ----------------------------------------------------------------------------------------------------------
OWN_LINEAR_CODE = ['JaxExplicitComponent/matrix_free', 'JaxImplicitComponent/matrix_free',
                   'ImplicitFuncComp/solve_linear', 'LinearSystemComp']


def _suspects(classes):
    """classes a whole-model failure (an exception) is named after: those with own linear code, else all."""
    return '+'.join([c for c in OWN_LINEAR_CODE if c in classes] or classes)     # fixed order: prefix-matchable


def _stock_systems(p, spec, info):
    """every group and every component (but the IndepVarComp) of the rev-mode problem."""
    import openmdao.api as om
    kind_of = {info['paths'][b['name']]: b['kind'] for b in spec['blocks']}
    out = []
    for s in p.model.system_iter(include_self=True, recurse=True):
        if isinstance(s, om.IndepVarComp):
            continue
        path = s.pathname
        blk = [k for pth, k in kind_of.items() if path == pth or path.startswith(pth + '.')]
        if isinstance(s, om.Group):
            label = 'root' if path == '' else 'subgroup'
            if blk:
                scope = K2.CLASS_OF[blk[0]]
            else:
                scope = None        # g / root: whatever is below
        else:
            label = 'component'
            scope = K2.CLASS_OF[blk[0]] if blk and path in kind_of else type(s).__name__
        out.append((s, label, scope, K2.external_inputs(p.model, s)))
    return out


def run_stock_case(case, acc):
    rng = random.Random(case['seed'] + 104729)
    # coverage grid: shard i, case k -> kind 3 i + k (every class leads a model in every 4 shards)
    lead = K2.KINDS[(case['seed'] // 1000 * 3 + case['seed'] % 1000) % len(K2.KINDS)]
    spec = K2.gen_stock_spec(rng, lead)
    nr = np.random.default_rng(case['seed'] + 104729)
    classes = K2.stock_classes(spec)
    n = spec['n']
    probs, infos = {}, {}
    with FailureMonitor() as fmon, poison():
        try:
            for mode in ('fwd', 'rev'):
                p, info = K2.build_stock(spec)
                if spec.get('rhs_checking'):
                    # responses that depend on each other keep the rhs_checking caches alive
                    for w in info['wrt']:
                        p.model.add_design_var(w)
                    p.model.add_constraint(info['paths'][spec['blocks'][0]['name']] + '.y', upper=1e3)
                    p.model.add_objective(info['of'][0], index=0)
                p.setup(mode=mode)
                K2.init_stock(p, spec, info)
                p.run_model()
                probs[mode], infos[mode] = p, info
        except Exception as e:
            acc.viol('stock:%s:with=%s' % (exc_key('setup-or-run', e), _suspects(classes)),
                     '%s: %s' % (type(e).__name__, str(e)[:200]), case)
            for p in probs.values():
                p.cleanup()
            return
        if fmon.failures:
            acc.skip('stock:nonlinear-solver-nonconvergence')
            for p in probs.values():
                p.cleanup()
            return
        info = infos['rev']
        of_names, wrt_names = info['of'], info['wrt']
        # compute_totals: the first block's output too (with rhs_checking it is a declared response post.f depends on)
        tot_of = [info['paths'][spec['blocks'][0]['name']] + '.y'] + of_names
        state_shapes = {st: (n,) for st, _, _ in info['states']}
        indep_shapes = {w: (n,) for w in wrt_names}
        bad = []
        memo = {}
        step = 'initial'
        steps_done = 0
        n_cache = _live_rhs_caches(probs['rev'])
        try:
            p = probs['rev']
            systems = _stock_systems(p, spec, info)
            multi = [st for st, _, m in info['states'] if m]
            for k, move in enumerate(['initial'] + spec['moves']):
                step = move
                if k > 0:
                    before = {st: np.asarray(p.get_val(st)).copy() for st in multi}
                    d = K2.draw_move(nr, move, state_shapes, indep_shapes, indep_range=K2.A_RANGE)
                    for mode in ('fwd', 'rev'):
                        K2.apply_move_stock(probs[mode], spec, infos[mode], d)
                    if move == 'other-root':
                        if fmon.failures:
                            # the other root was not reached: the point is still legal, but do not count it
                            acc.count('skipped:other-root-not-converged')
                        else:
                            for st in multi:
                                vtx = K2.vertex(p, spec, info, st)
                                if np.all((np.asarray(p.get_val(st)) - vtx) * (before[st] - vtx) < 0):
                                    acc.count('obs:other-root-reached')
                    fmon.clear()
                    if not all(_finite(pr) for pr in probs.values()):
                        acc.count('skipped:history-nonfinite-state')
                        break
                    acc.count('move:stock:' + move)
                for rep in range(2 if k == 0 else 1):
                    _judge_total(probs, of_names, wrt_names, [(n,)], [(n,), (n,)], nr, fmon, acc, bad, step,
                                 memo=memo if rep == 0 else None)
                if move == 'relin':
                    _judge_total(probs, of_names, wrt_names, [(n,)], [(n,), (n,)], nr, fmon, acc, bad, step,
                                 linearize=False, memo=memo)
                if _judge_totals(probs, tot_of, wrt_names, fmon, acc, bad, step) is False:
                    break
                p.model.run_linearize()
                _judge_systems(systems, nr, fmon, acc, bad, step, 2 if k == 0 else 1, memo=memo)
                if k > 0:
                    acc.count('obs:history-steps-judged')
                steps_done = k
        except Exception as e:
            what = 'linear-operator-api' if step == 'initial' else 'linear-operator-api@' + step
            acc.viol('stock:%s:with=%s' % (exc_key(what, e), _suspects(classes)),
                     '%s: %s' % (type(e).__name__, str(e)[:200]), case)
            return
        finally:
            for p in probs.values():
                p.cleanup()
    for c in classes:
        acc.count('class:' + c)
    if n_cache:
        acc.count('obs:rhs-cache-alive-model')
    if bad:
        # Mechanism keys.  A stock component whose OWN operator pair (run_apply_linear / run_solve_linear on the
        # component) fails is the culprit: it is reported once, with the first operator and the first step that
        # fail; the failures of the groups around it and of the total operator in the same case are its
        # consequences (counted, not keyed).  Without such a culprit every failing operator is reported, named
        # after the classes with own linear code in the model (else all classes).
        comp_bad = [b for b in bad if b[0].split(':')[1:2] == ['component'] and b[1] in K2.CLASS_OF.values()]
        first = True
        if comp_bad:
            seen = set()
            for what, scope, step, err, tol in comp_bad:
                if scope in seen:
                    continue
                seen.add(scope)
                op = what.split(':')[0]
                key = op if step == 'initial' else '%s@%s' % (op, step)
                acc.viol('stock:not-adjoint:%s:%s' % (scope, key),
                         '%s of %s after %s: |<w,Av> - <A^T w,v>| = %.3e > tol %.1e' % (what, scope, step, err, tol),
                         case, new_case=first)
                first = False
            acc.count('obs:consequence-failures', len(bad) - len(comp_bad))
        else:
            who = _suspects(classes)
            seen = set()
            for what, scope, step, err, tol in bad:
                if what in seen:
                    continue
                seen.add(what)
                key = what if step == 'initial' else '%s@%s' % (what, step)
                acc.viol('stock:not-adjoint:with=%s:%s' % (who, key),
                         '%s (model with %s) after %s: |<w,Av> - <A^T w,v>| = %.3e > tol %.1e'
                         % (what, '+'.join(classes), step, err, tol), case, new_case=first)
                first = False
    else:
        acc.ok(fingerprint([[b['kind'] for b in spec['blocks']], spec['cfg'], spec['root_ln'], spec.get('g_ln'),
                            [b.get('ln') for b in spec['blocks']]]), nontrivial=True,
               sample={'seed': case['seed'], 'family': 'stock', 'blocks': [b['kind'] for b in spec['blocks']],
                       'cfg': spec['cfg'], 'root_ln': spec['root_ln'], 'moves': spec['moves'][:steps_done]})
