"""C09 - Iterative solvers honour their termination contract.

Monitor: trace specification over one `solve`.  The solver INSTANCE gets three observers/failpoints
(`_iter_get_norm`, `_single_iteration`, `report_failure`); the iteration loop, the failure
classification, the recording contexts and `report_failure` itself stay the real code.  The observed
norm sequence, the number of iteration bodies, the failure reports and an escaping AnalysisError are
handed to the reference trace checker `omv/ref/termination.py`, which recomputes convergence of every
iterate and the stall counter on its own.

 (a) scripted histories: `_iter_get_norm` answers from a script (failpoint), `_single_iteration` only
     counts.  Histories are enumerated as a tree over a symbolic alphabet; a prefix is extended only when
     the solver asked for one more norm.
 (b) random histories with random option values.
 (c) organic runs: real cyclic models (convergent, slowly convergent, divergent, NaN-producing), observers
     are passive.
"""
import math
import random

import numpy as np

from omv.core import fingerprint
from omv.ref.termination import check_trace

PROPERTY = 'C09'
LEVEL = 'exploration'
TECHNIQUE = 'runtime monitoring: reference trace automaton over the norm sequence the solver observed'
RULE = ('tree enumeration of norm histories over the alphabet {0, below atol, just below/above atol, below '
        'rtol*n0 only, x0.7, x1.6, equal, x(1+1e-9), x(1+1e-3), NaN, +inf} x first norm {1, 4, 0.25, 0, '
        'below atol, just above atol, NaN, inf}; a prefix is extended only if the solver consumed it; x option '
        'grid maxiter x atol{0,1e-3} x rtol{0,1e-2} x stall_limit{0..3} x stall_tol{1e-6,0.5} x '
        'stall_tol_type x err_on_non_converge x solver configuration (Newton, Broyden, NLBGS with/without '
        'use_apply_nonlinear, NLBJ, Newton/NLBGS under complex step, LNBGS/LNBJ fwd/rev); plus random '
        'histories/options and organic runs of real cyclic models; distinct = distinct (configuration, '
        'options, consumed norm sequence); all judged cases are non-trivial (a real solve loop ran)')
LEVEL_TEXT = ('every history of the bounded alphabet the solver can distinguish up to the tier depth was driven '
              'through the real loop for each option cell listed; random/organic runs sample beyond that')
ASSUMPTIONS = ['the norm the solver acts on is the value returned by its own _iter_get_norm',
               'maxiter=0 is excluded (the code substitutes a fictitious norm)',
               'block linear solvers with maxiter=1 do not evaluate the initial norm; the trace is judged with '
               'the fictitious initial norm 1.0 they use',
               'NLBGS without use_apply_nonlinear and maxiter>=2 performs its first sweep inside _run_apply; it '
               'is counted as one iteration (extra_iters=1)',
               'stall rule: stall_limit consecutive iterates within stall_tol of the iterate that started the '
               'plateau, iterate 0 included, compared in the norm type selected by stall_tol_type',
               'after a NaN/inf norm the property does not say whether iterating continues; only the report is '
               'judged']
MIN_JUDGED = {'quick': 100000, 'thorough': 1500000}
CLASSES = ['newton', 'broyden', 'nlbgs', 'nlbj', 'lnbgs', 'lnbj']
REQUIRED_COUNTERS = (['obs:norm-evals', 'obs:bodies', 'obs:report_failure', 'obs:analysis-error',
                      'obs:stall-fired', 'obs:forced-cs-body', 'obs:nlbgs-first-sweep-in-run-apply',
                      'contract:evaluations', 'organic:judged'] +
                     ['cell:%s/converged' % c for c in CLASSES] +
                     ['cell:%s/fail-maxiter' % c for c in CLASSES] +
                     ['cell:%s/fail-nan' % c for c in CLASSES] +
                     ['cell:%s/fail-inf' % c for c in CLASSES] +
                     ['cell:%s/fail-stall' % c for c in ('newton', 'broyden', 'nlbgs', 'nlbj')] +
                     ['organic:%s' % c for c in CLASSES])
SHARD_TIMEOUT = {'quick': 900, 'thorough': 3000}

CONFIGS = {
    'newton': dict(cls='newton'),
    'broyden': dict(cls='broyden'),
    'nlbgs-apply': dict(cls='nlbgs', use_apply=True),
    'nlbgs-noapply': dict(cls='nlbgs', use_apply=False),
    'nlbj': dict(cls='nlbj'),
    'newton-cs': dict(cls='newton', cs=True),
    'nlbgs-noapply-cs': dict(cls='nlbgs', use_apply=False, cs=True),
    'lnbgs-fwd': dict(cls='lnbgs', mode='fwd'),
    'lnbgs-rev': dict(cls='lnbgs', mode='rev'),
    'lnbj-fwd': dict(cls='lnbj', mode='fwd'),
    'lnbj-rev': dict(cls='lnbj', mode='rev'),
}


def is_linear(cls):
    return cls in ('lnbgs', 'lnbj')


# ----------------------------------------------------------------------------------------------
# harness: one tiny cyclic model per solver configuration
# ----------------------------------------------------------------------------------------------
class Harness(object):
    def __init__(self, cfgname, coefs=(0.3, 0.4, 0.05), organic=False, nan_after=None):
        import openmdao.api as om
        self.om = om
        cfg = CONFIGS[cfgname]
        self.cfgname = cfgname
        self.cls = cfg['cls']
        self.lin = is_linear(self.cls)
        self.mode = cfg.get('mode', 'fwd')
        self.cs = cfg.get('cs', False)
        a, c, e = coefs
        p = om.Problem()
        m = p.model
        if nan_after is None:
            m.add_subsystem('c1', om.ExecComp('y=%r*x+1.0' % a))
        else:
            m.add_subsystem('c1', _make_nan_comp(om, a, nan_after))
        m.add_subsystem('c2', om.ExecComp('y=%r*x-0.5+%r*sin(x)' % (c, e)))
        m.connect('c1.y', 'c2.x')
        m.connect('c2.y', 'c1.x')
        cls = self.cls
        if cls == 'newton':
            m.nonlinear_solver = om.NewtonSolver(solve_subsystems=False)
            m.linear_solver = om.DirectSolver()
        elif cls == 'broyden':
            m.nonlinear_solver = om.BroydenSolver()
            m.linear_solver = om.DirectSolver()
        elif cls == 'nlbgs':
            m.nonlinear_solver = om.NonlinearBlockGS(use_apply_nonlinear=bool(cfg.get('use_apply')))
        elif cls == 'nlbj':
            m.nonlinear_solver = om.NonlinearBlockJac()
        elif cls == 'lnbgs':
            m.nonlinear_solver = om.NonlinearBlockGS(maxiter=50, atol=1e-12, rtol=1e-12)
            m.linear_solver = om.LinearBlockGS()
        elif cls == 'lnbj':
            m.nonlinear_solver = om.NonlinearBlockGS(maxiter=50, atol=1e-12, rtol=1e-12)
            m.linear_solver = om.LinearBlockJac()
        p.setup(force_alloc_complex=True)
        p.set_solver_print(-1)
        self.prob = p
        self.solver = m.linear_solver if self.lin else m.nonlinear_solver
        self.solver.options['iprint'] = -1
        self.log = {'n': [], 'b': 0, 'f': [], 'over': False}
        self._orig_report = self.solver.report_failure
        self.solver.report_failure = self._report
        if not organic:
            p.run_model()
            if self.lin:
                m.run_linearize()
            self.script = []
            self.solver._iter_get_norm = self._scripted_norm
            self.solver._single_iteration = self._count_body
        else:
            self._real_norm = self.solver._iter_get_norm
            self._real_body = self.solver._single_iteration
            self.solver._iter_get_norm = self._passive_norm
            self.solver._single_iteration = self._passive_body

    # observers ------------------------------------------------------------------------------
    def _report(self, msg):
        self.log['f'].append(msg)
        return self._orig_report(msg)

    def _scripted_norm(self):
        k = len(self.log['n'])
        if k < len(self.script):
            v = self.script[k]
        else:
            self.log['over'] = True
            prev = self.log['n'][-1] if self.log['n'] else 1.0
            v = prev * 0.7 if (math.isfinite(prev) and prev > 0) else 1.0
        self.log['n'].append(v)
        return v

    def _count_body(self):
        self.log['b'] += 1

    def _passive_norm(self):
        v = self._real_norm()
        self.log['n'].append(float(v))
        return v

    def _passive_body(self):
        self.log['b'] += 1
        return self._real_body()

    # one solve ------------------------------------------------------------------------------
    def set_opts(self, opts):
        o = self.solver.options
        o['maxiter'] = opts['maxiter']
        o['atol'] = opts['atol']
        o['rtol'] = opts['rtol']
        o['err_on_non_converge'] = opts['err_on_non_converge']
        if not self.lin:
            o['stall_limit'] = opts['stall_limit']
            o['stall_tol'] = opts['stall_tol']
            o['stall_tol_type'] = opts['stall_tol_type']

    def solve(self):
        """Run one solve of the owning group; return (raised, other_exception)."""
        self.log['n'] = []
        self.log['b'] = 0
        self.log['f'] = []
        self.log['over'] = False
        m = self.prob.model
        raised = False
        other = None
        try:
            if self.lin:
                m.run_solve_linear(self.mode)
            else:
                m.run_solve_nonlinear()
        except self.om.AnalysisError:
            raised = True
        except Exception as e:   # noqa
            other = e
        return raised, other

    def close(self):
        try:
            self.prob.cleanup()
        except Exception:
            pass


def _make_nan_comp(om, a, nan_after):
    class NanComp(om.ExplicitComponent):
        def setup(self):
            self.add_input('x', 1.0)
            self.add_output('y', 1.0)
            self.declare_partials('y', 'x', val=a)
            self._ncalls = 0

        def compute(self, inputs, outputs):
            self._ncalls += 1
            outputs['y'] = a * inputs['x'] + 1.0
            if self._ncalls > nan_after:
                outputs['y'] = np.nan
    return NanComp()


# ----------------------------------------------------------------------------------------------
# judging one observed trace
# ----------------------------------------------------------------------------------------------
def extra_iters_for(h, opts):
    cfg = CONFIGS[h.cfgname]
    if h.cls == 'nlbgs' and not cfg.get('use_apply') and opts['maxiter'] >= 2:
        return 1
    return 0


def judge(h, opts, raised, other, acc, case, organic=False):
    cls = h.cls
    norms = [float(v) for v in h.log['n']]
    bodies = h.log['b']
    reports = len(h.log['f'])
    acc.count('obs:norm-evals', len(norms))
    acc.count('obs:bodies', bodies)
    acc.count('obs:report_failure', reports)
    if raised:
        acc.count('obs:analysis-error')
    if other is not None:
        acc.viol('raises:%s:%s' % (type(other).__name__, cls),
                 'solve raised %s: %s' % (type(other).__name__, str(other)[:200]), case)
        return
    if h.lin and opts['maxiter'] == 1:
        norms = [1.0] + norms          # fictitious initial norm used by BlockLinearSolver._iter_initialize
        acc.count('obs:ln-maxiter1-fictitious-n0')
    if norms and norms[0] != norms[0] and bodies >= 1:
        # only reachable through the forced iteration under complex step: every relative norm is NaN, the
        # property does not say what rtol means then
        acc.skip('nan-initial-norm-then-forced-cs-iteration')
        return
    extra = extra_iters_for(h, opts)
    if extra:
        acc.count('obs:nlbgs-first-sweep-in-run-apply')
    acc.count('contract:evaluations')
    res = check_trace(norms, bodies, reports, raised, opts, nonlinear=not h.lin, extra_iters=extra,
                      forced_first=h.cs)
    viol, fired, cv = res
    if h.cs and bodies >= 1 and cv and cv[0]:
        acc.count('obs:forced-cs-body')
    if fired is not None:
        acc.count('obs:stall-fired')
    # the solver's own iteration counter must agree with what was observed
    ic = h.solver._iter_count
    if ic != bodies + extra:
        viol = list(viol) + [('iteration-count-inconsistent',
                              '_iter_count=%d but %d bodies (+%d first sweep) were executed' % (ic, bodies, extra))]
    # evidence cells
    last = norms[-1] if norms else float('nan')
    if reports:
        if last != last:
            kind = 'fail-nan'
        elif math.isinf(last):
            kind = 'fail-inf'
        elif any('stalled' in m for m in h.log['f']):
            kind = 'fail-stall'
        else:
            kind = 'fail-maxiter'
    else:
        kind = 'converged'
    acc.count('cell:%s/%s' % (cls, kind))
    if organic:
        acc.count('organic:%s' % cls)
        acc.count('organic:judged')
    if not viol:
        fp = fingerprint([h.cfgname, opts, [repr(v) for v in norms]])
        acc.ok(fp, sample=case if acc.judged % 200003 == 0 else None)
        return
    # ---- classify by mechanism ---------------------------------------------------------------
    qviol = None
    n0 = norms[0] if norms else 1.0
    norm0 = n0 if n0 != 0.0 else 1.0
    if (not h.lin) and opts.get('stall_limit', 0) > 0 and opts.get('stall_tol_type') == 'rel' and norm0 != 1.0:
        qviol, qfired, _ = check_trace(norms, bodies, reports, raised, opts, nonlinear=True, extra_iters=extra,
                                       forced_first=h.cs, anchor0_abs_quirk=True)
    else:
        qfired = fired
    qids = None if qviol is None else set(c for c, _ in qviol)
    first = True
    K = len(norms) - 1
    for cid, text in viol:
        if qids is not None and cid not in qids:
            key = 'stall-rel-first-reference-is-abs-norm0:%s:%s' % (cid, cls)
        elif cid == 'failure-reported-although-converged' and (fired == K or qfired == K) and K >= 1 \
                and any('stalled' in m for m in h.log['f']):
            key = 'stall-and-converged-same-iterate:reported-failure:%s' % cls
        else:
            key = '%s:%s' % (cid, cls)
        acc.viol(key, '%s [%s] norms=%s opts=%s' % (text, h.cfgname, norms[:8], _short(opts)), case,
                 new_case=first)
        first = False


def _short(o):
    return ' '.join('%s=%s' % (k[:9], o[k]) for k in sorted(o))


# ----------------------------------------------------------------------------------------------
# alphabet / enumeration
# ----------------------------------------------------------------------------------------------
EPS_J = 4e-7


def first_symbols(opts):
    atol = opts['atol']
    vals = [1.0, 4.0, 0.25, 0.0, float('nan'), float('inf')]
    if atol > 0:
        vals += [0.5 * atol, atol + EPS_J]
    return vals


def next_symbols(prev, n0, opts):
    atol, rtol = opts['atol'], opts['rtol']
    norm0 = n0 if n0 != 0.0 else 1.0
    vals = [0.0]
    if atol > 0:
        vals += [0.5 * atol, atol - EPS_J, atol + EPS_J]
    if rtol > 0 and math.isfinite(norm0):
        r = 0.5 * rtol * norm0
        if r > atol:
            vals.append(r)
    if math.isfinite(prev) and prev > 0:
        vals += [prev * 0.7, prev * 1.6, prev, prev * (1 + 1e-9), prev * (1 + 1e-3)]
    else:
        vals += [1.0]
    vals += [float('nan'), float('inf')]
    out, seen = [], set()
    for v in vals:
        r = repr(float(v))
        if r not in seen:
            seen.add(r)
            out.append(float(v))
    return out


def option_cells(cls, maxiters):
    cells = []
    for maxiter in maxiters:
        for atol in (0.0, 1e-3):
            for rtol in (0.0, 1e-2):
                for err in (False, True):
                    base = dict(maxiter=maxiter, atol=atol, rtol=rtol, err_on_non_converge=err)
                    if is_linear(cls):
                        cells.append(base)
                        continue
                    cells.append(dict(base, stall_limit=0, stall_tol=1e-12, stall_tol_type='rel'))
                    for lim in (1, 2, 3):
                        for typ in ('rel', 'abs'):
                            for tol in (1e-6, 0.5):
                                cells.append(dict(base, stall_limit=lim, stall_tol=tol, stall_tol_type=typ))
    return cells


def explore(h, opts, prefix, acc):
    """DFS over histories: extend a prefix only if the solver consumed all of it and asked for more."""
    h.script = prefix
    raised, other = h.solve()
    over = h.log['over']
    if over and len(prefix) <= opts['maxiter'] + 1 and other is None:
        if not prefix:
            syms = first_symbols(opts)
        else:
            syms = next_symbols(prefix[-1], prefix[0], opts)
        for v in syms:
            explore(h, opts, prefix + [v], acc)
        return
    case = {'kind': 'scripted', 'config': h.cfgname, 'opts': opts, 'script': [repr(v) for v in prefix]}
    judge(h, opts, raised, other, acc, case)


def run_scripted(cfgname, cells, acc):
    h = Harness(cfgname)
    if h.cs:
        h.prob.set_complex_step_mode(True)
    try:
        for opts in cells:
            h.set_opts(opts)
            explore(h, opts, [], acc)
    finally:
        if h.cs:
            try:
                h.prob.set_complex_step_mode(False)
            except Exception:
                pass
        h.close()


# ----------------------------------------------------------------------------------------------
# random histories
# ----------------------------------------------------------------------------------------------
def random_opts(rng, cls):
    o = dict(maxiter=rng.choice([1, 2, 3, 4, 5, 6, 8]),
             atol=rng.choice([0.0, 1e-10, 1e-3, 1e-2, 0.3]),
             rtol=rng.choice([0.0, 1e-10, 1e-3, 0.1, 0.6]),
             err_on_non_converge=rng.random() < 0.5)
    if not is_linear(cls):
        o.update(stall_limit=rng.choice([0, 1, 1, 2, 3, 4]),
                 stall_tol=rng.choice([1e-12, 1e-9, 1e-6, 1e-3, 0.1, 1.0]),
                 stall_tol_type=rng.choice(['rel', 'abs']))
    return o


def random_script(rng, opts):
    n = opts['maxiter'] + 2
    v = rng.choice([1.0, 1.0, 0.5, 2.0, 10.0, 1e-4, 0.0, rng.uniform(0.01, 5.0)])
    out = [v]
    for _ in range(n):
        k = rng.random()
        prev = out[-1]
        if not (math.isfinite(prev) and prev > 0):
            prev = 1.0
        if k < 0.30:
            v = prev * rng.uniform(0.05, 0.95)
        elif k < 0.42:
            v = prev * rng.uniform(1.05, 3.0)
        elif k < 0.56:
            v = prev
        elif k < 0.66:
            v = prev * (1 + rng.choice([-1, 1]) * rng.choice([1e-13, 1e-10, 1e-7, 1e-4, 1e-2]))
        elif k < 0.74:
            v = opts['atol'] * rng.choice([0.5, 1.0, 1.0 + 1e-9]) if opts['atol'] > 0 else prev * 0.5
        elif k < 0.82:
            v = opts['rtol'] * (out[0] if out[0] else 1.0) * rng.choice([0.5, 1.0, 1.0 + 1e-9])
            if not math.isfinite(v):
                v = prev * 0.5
        elif k < 0.88:
            v = 0.0
        elif k < 0.94:
            v = float('nan')
        else:
            v = float('inf')
        out.append(float(v))
    return out


def run_random(seed, n, acc):
    rng = random.Random(seed)
    names = sorted(CONFIGS)
    hs = {}
    try:
        for i in range(n):
            cfgname = names[i % len(names)]
            if cfgname not in hs:
                hs[cfgname] = Harness(cfgname)
            h = hs[cfgname]
            opts = random_opts(rng, h.cls)
            script = random_script(rng, opts)
            run_one_scripted(h, opts, script, acc, kind='random')
    finally:
        for h in hs.values():
            h.close()


def run_one_scripted(h, opts, script, acc, kind='scripted'):
    h.set_opts(opts)
    h.script = list(script)
    if h.cs:
        h.prob.set_complex_step_mode(True)
    try:
        raised, other = h.solve()
    finally:
        if h.cs:
            h.prob.set_complex_step_mode(False)
    case = {'kind': 'scripted', 'config': h.cfgname, 'opts': opts, 'script': [repr(v) for v in script]}
    judge(h, opts, raised, other, acc, case)


# ----------------------------------------------------------------------------------------------
# organic runs
# ----------------------------------------------------------------------------------------------
def organic_case(rng, cfgname):
    cls = CONFIGS[cfgname]['cls']
    regime = rng.choice(['convergent', 'slow', 'divergent', 'nan'])
    if regime == 'convergent':
        a, c = rng.uniform(-0.6, 0.6), rng.uniform(-0.6, 0.6)
    elif regime == 'slow':
        a, c = rng.choice([-1, 1]) * rng.uniform(0.93, 0.99), rng.choice([-1, 1]) * rng.uniform(0.95, 1.0)
    elif regime == 'divergent':
        a, c = rng.choice([-1, 1]) * rng.uniform(1.1, 2.5), rng.choice([-1, 1]) * rng.uniform(1.1, 2.5)
    else:
        a, c = rng.uniform(-0.6, 0.6), rng.uniform(-0.6, 0.6)
    e = rng.choice([0.0, 0.05, 0.3])
    opts = dict(maxiter=rng.choice([1, 2, 3, 5, 8, 15]), atol=rng.choice([1e-12, 1e-8, 1e-3]),
                rtol=rng.choice([1e-12, 1e-8, 1e-3, 0.2]), err_on_non_converge=rng.random() < 0.5)
    if not is_linear(cls):
        opts.update(stall_limit=rng.choice([0, 0, 1, 2, 3]), stall_tol=rng.choice([1e-12, 1e-6, 1e-2]),
                    stall_tol_type=rng.choice(['rel', 'abs']))
    return {'kind': 'organic', 'config': cfgname, 'regime': regime,
            'coefs': [round(a, 6), round(c, 6), e], 'opts': opts,
            'nan_after': rng.choice([1, 2, 3, 5]) if regime == 'nan' else None,
            'x0': round(rng.uniform(-2, 2), 6)}


def run_organic_case(case, acc):
    cfgname = case['config']
    h = Harness(cfgname, coefs=tuple(case['coefs']), organic=True, nan_after=case['nan_after'])
    opts = case['opts']
    try:
        p = h.prob
        h.set_opts(opts)
        if not h.lin:
            p.set_val('c1.x', case['x0'])
            p.final_setup()
            raised, other = h.solve()
            judge(h, opts, raised, other, acc, case, organic=True)
        else:
            # bring the nonlinear state somewhere (its own solver may fail: irrelevant), linearize, then
            # observe the block linear solver on a unit right-hand side
            m = p.model
            p.set_val('c1.x', case['x0'])
            try:
                p.run_model()
            except Exception:
                pass
            try:
                m.run_linearize()
            except Exception:
                acc.skip('organic-linearize-failed')
                return
            vec = m._dresiduals if h.mode == 'fwd' else m._doutputs
            vec.set_val(1.0)
            if case['regime'] == 'nan':
                vec.set_val(np.nan)
            raised, other = h.solve()
            judge(h, opts, raised, other, acc, case, organic=True)
    finally:
        h.close()


def run_organic(seed, n, cfgnames, acc):
    rng = random.Random(seed)
    for i in range(n):
        case = organic_case(rng, cfgnames[i % len(cfgnames)])
        try:
            run_organic_case(case, acc)
        except Exception as e:   # harness trouble on one case must not kill the shard silently
            acc.viol('organic-harness-raises:%s:%s' % (type(e).__name__, CONFIGS[case['config']]['cls']),
                     str(e)[:300], case)


# ----------------------------------------------------------------------------------------------
# framework entry points
# ----------------------------------------------------------------------------------------------
def _slices(lst, k):
    return [lst[i::k] for i in range(k)]


def shards(tier, seed):
    out = []
    rng = random.Random(seed)
    for cfgname in sorted(CONFIGS):
        cls = CONFIGS[cfgname]['cls']
        if tier == 'quick':
            # depth 3: a seeded eighth of the option cells (all cells for linear solvers: they are few)
            frac = 1 if is_linear(cls) else 8
            out.append({'kind': 'enum', 'config': cfgname, 'maxiters': [1, 2], 'part': [0, 1],
                        'more': {'maxiters': [3], 'part': [rng.randrange(frac), frac]}})
        else:
            out.append({'kind': 'enum', 'config': cfgname, 'maxiters': [1, 2], 'part': [0, 1]})
            k3 = 1 if is_linear(cls) else 6
            for i in range(k3):
                out.append({'kind': 'enum', 'config': cfgname, 'maxiters': [3], 'part': [i, k3]})
            if is_linear(cls):
                out.append({'kind': 'enum', 'config': cfgname, 'maxiters': [4], 'part': [0, 1]})
            else:
                # depth 4: a seeded quarter of the cells, in 4 shards
                off = rng.randrange(4)
                for i in range(4):
                    out.append({'kind': 'enum', 'config': cfgname, 'maxiters': [4], 'part': [off * 4 + i, 16]})
    nr = 4 if tier == 'quick' else 24
    for k in range(nr):
        out.append({'kind': 'random', 'seed': seed * 1000 + k, 'n': 10000 if tier == 'quick' else 40000})
    no = 3 if tier == 'quick' else 12
    names = sorted(c for c in CONFIGS if not CONFIGS[c].get('cs'))
    for k in range(no):
        out.append({'kind': 'organic', 'seed': seed * 1000 + 500 + k, 'n': 90 if tier == 'quick' else 330,
                    'configs': names})
    return out


def run_shard(shard, acc):
    if shard['kind'] == 'enum':
        cfgname = shard['config']
        cells = option_cells(CONFIGS[cfgname]['cls'], shard['maxiters'])
        i, k = shard['part']
        cells = cells[i::k]
        if shard.get('more'):
            i, k = shard['more']['part']
            cells = cells + option_cells(CONFIGS[cfgname]['cls'], shard['more']['maxiters'])[i::k]
        run_scripted(cfgname, cells, acc)
        acc.count('enumerated-option-cells', len(cells))
    elif shard['kind'] == 'random':
        run_random(shard['seed'], shard['n'], acc)
    elif shard['kind'] == 'organic':
        run_organic(shard['seed'], shard['n'], shard['configs'], acc)


def run_case(case, acc):
    if case['kind'] == 'organic':
        run_organic_case(case, acc)
        return
    h = Harness(case['config'])
    try:
        run_one_scripted(h, case['opts'], [float(v) for v in case['script']], acc)
    finally:
        h.close()


def coverage_extra(tier, agg):
    return {'exhaustive': False,
            'exhaustive_subspace': 'for every enumerated option cell (%d cells x solver configurations) ALL norm '
                                   'histories over the alphabet that the solver can distinguish (tree pruned only '
                                   'where the solver itself stopped asking for norms) up to maxiter+1 norms; '
                                   'quick: maxiter 1-2 all cells + maxiter 3 on 1/8 of the nonlinear cells; thorough: '
                                   'maxiter 1-3 all cells + maxiter 4 on 1/4 of the nonlinear cells'
                                   % agg['counters'].get('enumerated-option-cells', 0)}
