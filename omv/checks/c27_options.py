"""C27 - Option declarations are enforced and temporary values always restored.

Monitor: shadow-state comparison.  A random history of operations (declare with valid/invalid default,
__setitem__/set/update with single and multiple items, temporary() contexts - nested, left normally, by an
exception in the body, by an exception caught between two levels, or failing while being entered -,
undeclare, reads of unset options) is applied to a real OptionsDictionary and to a shadow built from the
reference model omv/ref/options.py.  After EVERY operation every option is read back through __getitem__
and compared with the shadow, and `_context_cache` must be empty outside of contexts.

One judged case = one history (about 25 operations, each of them observed).  After a discrepancy has been
recorded the shadow is re-synchronised with the real object (and `_context_cache` cleared) so that the rest
of the history stays judgeable and one mechanism cannot hide another.
"""
import random

import numpy as np

from omv.core import fingerprint
from omv.ref.options import Decl, same

PROPERTY = 'C27'
LEVEL = 'exploration'
TECHNIQUE = 'runtime monitoring: shadow dictionary + reference validator compared after every operation'
RULE = ('random histories over 2-5 declared options; declarations drawn from {unconstrained, values '
        '(tuple/list/set of ints, strs, mixed), types (single and tuple), bool, bounds with/without types, '
        'types=list+values} x allow_none x check_valid x default {valid, None, absent} x deprecation '
        '{none, message, alias, alias to a missing option} x read_only dictionaries; candidate values are '
        'members/near misses of values, instances of right/wrong types, bounds and their floating-point '
        'neighbours, None, numpy scalars, containers; distinct = distinct (declaration features, operation '
        'kinds) sequences; non-trivial = history with >= 1 accepted and >= 1 rejected assignment or a '
        'temporary() context')
LEVEL_TEXT = ('every operation of every generated history was compared with a reference validator and a shadow '
              'dictionary; the declaration grammar and the exit paths of temporary() are covered by '
              'construction (see monitor counters), not all values of all types')
ASSUMPTIONS = ['the reference semantics are those documented in OptionsDictionary.declare (values: Python `in`; '
               'types: isinstance; bounds inclusive; allow_none; default=None implies allow_none; check_valid '
               'consulted for every value)',
               'corners the documentation leaves open are counted (ambiguous:*) and not judged: types=bool with a '
               'non-bool equal to True/False, bounds against unordered values or NaN, types=list+values with a '
               'non-list value; `types` given as a list/set (only type or tuple is documented) is not generated',
               'set()/update() with several items: only the rejected item and the items after it must keep their '
               'value; items before it may hold either value',
               'set_function is only generated idempotent and type preserving (abs) with non-negative defaults',
               'a temporary() whose entering fails (rejected value or unset option among its keywords) is held to '
               'the same restore requirement as one left by an exception; it has its own mechanism key '
               '(temporary:not-restored:enter-failed:<why>); a rejected/undeclared/read-only keyword must make '
               'temporary() raise, for an option that was never set both outcomes (entered / refused) are '
               'accepted and "restored" means unset again',
               'mechanism keys of temporary() are temporary:<observable>:<how the context was left>[:alias-and-'
               'target-in-one-call][:nested] - observable and exit path first, variants last',
               'entries left in the private _context_cache are counted (note:context-cache-entries-left) and cleared by the harness, they are not a violation by themselves (the property is about option values)']
MIN_JUDGED = {'quick': 3000, 'thorough': 100000}
_FEATS = ['values', 'values+list', 'types', 'types-bool', 'lower', 'upper', 'check_valid']
REQUIRED_COUNTERS = (['obs:reject:' + f for f in _FEATS] +
                     ['obs:accept:' + f for f in _FEATS + ['allow_none']] +
                     ['obs:reject:read_only', 'obs:reject:undeclared', 'obs:reject:alias-missing',
                      'obs:alias:forwarded', 'obs:rejected:value-unchanged', 'obs:accepted:stored',
                      'obs:temporary:normal', 'obs:temporary:raise', 'obs:temporary:raise-mid',
                      'obs:temporary:enter-bad', 'obs:temporary:nested', 'obs:temporary:inside-values',
                      'obs:declare:invalid-default', 'obs:declare:valid-default', 'hook:check_valid',
                      'obs:api:setitem', 'obs:api:set', 'obs:api:update', 'obs:multi-item'])
SHARD_TIMEOUT = {'quick': 600, 'thorough': 2400}


class _Boom(Exception):
    pass


# ----------------------------------------------------------------------------------------------
# generators (pure functions of the rng)
# ----------------------------------------------------------------------------------------------
_GENERIC = [None, True, False, 0, 1, 2, 7, -3, 12, 2.5, -0.5, 7.0, 'a', 'b', 'foo', '', [], [1], ['a'],
            ['a', 'b'], (1, 2), {}, np.int64(3), np.float64(2.5), np.float32(1.5), np.bool_(True),
            float('nan'), 1e308, 3 + 0j, 'a much longer string value']

_TYPE_SAMPLES = {
    int: [0, 1, -3, 7, 12, True],
    float: [0.0, 2.5, -0.5, 7.0, 1e308, np.float64(2.5)],
    str: ['a', 'b', 'foo', ''],
    list: [[], [1], ['a', 'b']],
    dict: [{}, {'k': 1}],
    tuple: [(), (1, 2)],
    bool: [True, False],
    object: [0, 'a', [], None],
}


def _gen_decl(rng, name):
    kind = rng.choice(['free', 'values', 'values', 'types', 'types', 'bounds', 'typedbounds', 'listvalues', 'bool'])
    kw = {}
    if kind in ('values', 'listvalues'):
        base = rng.choice([(1, 2, 3), ('a', 'b', 'foo'), (0, 'x', 2.5), (7, 8), (True, 'a')])
        kw['values'] = rng.choice([tuple, list, set])(base)
        if kind == 'listvalues':
            kw['types'] = list
    elif kind == 'types':
        kw['types'] = rng.choice([int, float, str, list, dict, tuple, (int, float), (str, list), (int, str),
                                  object])
    elif kind == 'bool':
        kw['types'] = bool
    if kind in ('bounds', 'typedbounds'):
        lo = rng.choice([None, 0, -2, 1.5])
        up = rng.choice([None, 10, 3, 2.5])
        if lo is None and up is None:
            lo = 0
        kw['lower'], kw['upper'] = lo, up
        if kind == 'typedbounds':
            kw['types'] = rng.choice([int, float, (int, float)])
    kw['allow_none'] = rng.random() < 0.3
    if rng.random() < 0.25:
        kw['check_valid'] = rng.choice(['not7', 'shortrepr', 'notnone'])
    if kind in ('free', 'types') and rng.random() < 0.2:
        kw['set_abs'] = True
    d = Decl(name, **kw)
    # default
    r = rng.random()
    if r < 0.6:
        for _ in range(30):
            v = _candidate(rng, d, aim='valid')
            if d.accepts(v)[0] is True and not (d.set_abs and _neg(v)):
                d.has_default, d.default = True, v
                break
    elif r < 0.7:
        d.has_default, d.default = True, None
        d.allow_none = True
        if d.accepts(None)[0] is not True:      # e.g. check_valid 'notnone': keep it declarable
            d.check_valid = None
    if rng.random() < 0.1:
        d.deprecation = 'option %s is deprecated' % name
    return d


def _neg(v):
    try:
        return bool(v < 0)
    except Exception:
        return False


def _candidate(rng, d, aim=None):
    """A candidate value; aim in {'valid','invalid',None}: bias only, the reference decides."""
    aim = aim or rng.choice(['valid', 'valid', 'invalid', 'any'])
    if aim == 'any' or rng.random() < 0.1:
        return rng.choice(_GENERIC)
    if d.allow_none and rng.random() < 0.15:
        return None
    if d.values is not None:
        vals = sorted(d.values, key=repr)
        if d.types is list:
            n = rng.randrange(0, 4)
            out = [rng.choice(vals) for _ in range(n)]
            if aim == 'invalid':
                out.insert(rng.randrange(0, n + 1), rng.choice([99, 'zz', None, 2.0001]))
            return out
        if aim == 'valid':
            v = rng.choice(vals)
            if rng.random() < 0.15 and isinstance(v, int) and not isinstance(v, bool):
                v = rng.choice([float(v), np.int64(v)])      # equal under ==, hence `in values`
            return v
        return rng.choice([99, 'zz', 2.0001, 'A', 'fo', [1], None, 4, 0])
    if d.lower is not None or d.upper is not None:
        pts = []
        for b in (d.lower, d.upper):
            if b is not None:
                pts += [b, b - 1, b + 1, float(np.nextafter(float(b), -np.inf)), float(np.nextafter(float(b), np.inf)),
                        float(b), np.float64(b)]
        lo = d.lower if d.lower is not None else d.upper - 5
        up = d.upper if d.upper is not None else d.lower + 5
        pts += [(lo + up) / 2.0, int((lo + up) // 2)]
        v = rng.choice(pts)
        if d.types is int and rng.random() < 0.7:
            v = int(round(v))
        elif d.types is float and rng.random() < 0.7:
            v = float(v)
        return v
    if d.types is not None:
        ts = d.types if isinstance(d.types, tuple) else (d.types,)
        if aim == 'valid':
            return rng.choice(_TYPE_SAMPLES[rng.choice(ts)])
        other = [t for t in _TYPE_SAMPLES if t not in ts and t is not object]
        return rng.choice(_TYPE_SAMPLES[rng.choice(other)] + [np.int64(3), np.float32(1.5), None])
    return rng.choice(_GENERIC)


def gen_history(seed):
    rng = random.Random(seed)
    read_only = rng.random() < 0.06
    nopt = rng.randrange(2, 6)
    decls = [_gen_decl(rng, 'o%d' % i) for i in range(nopt)]
    if read_only:
        for d in decls:             # a read-only dictionary only makes sense with defaults
            if not d.has_default:
                for _ in range(30):
                    v = _candidate(rng, d, aim='valid')
                    if d.accepts(v)[0] is True and not (d.set_abs and _neg(v)):
                        d.has_default, d.default = True, v
                        break
    r = rng.random()
    if r < 0.3:
        tgt = rng.choice(decls).name
        decls.append(Decl('old', deprecation=('old is deprecated, use %s' % tgt, tgt)))
    elif r < 0.36:
        decls.append(Decl('old', deprecation=('old is deprecated, use ghost', 'ghost')))
    names = [d.name for d in decls]
    byname = {d.name: d for d in decls}

    def target(n):
        d = byname.get(n)
        if d is not None and isinstance(d.deprecation, tuple):
            return byname.get(d.deprecation[1])
        return d

    def valid_value(n):
        d = target(n)
        if d is None:
            return None, False
        for _ in range(30):
            v = _candidate(rng, d, aim='valid')
            if d.accepts(v)[0] is True:
                return v, True
        return None, False

    def invalid_value(n):
        d = target(n)
        if d is None:
            return 1, True           # anything is rejected
        for _ in range(30):
            v = _candidate(rng, d, aim='invalid')
            if d.accepts(v)[0] is False:
                return v, True
        return None, False

    ops = []
    # declarations with an invalid default first (must raise), then the real declaration
    for d in decls:
        if d.deprecation is None or isinstance(d.deprecation, str):
            if rng.random() < 0.15:
                v, okv = invalid_value(d.name)
                if okv and v is not None:
                    ops.append(('declare-bad', d.name, v))
        ops.append(('declare', d.name))
    nops = rng.randrange(12, 30)
    for _ in range(nops):
        r = rng.random()
        if r < 0.55:
            api = rng.choice(['setitem', 'setitem', 'set', 'update'])
            nitems = 1 if api == 'setitem' or rng.random() < 0.5 else rng.randrange(2, 4)
            ns = rng.sample(names, min(nitems, len(names)))
            items = [(n, _candidate(rng, target(n)) if target(n) is not None else rng.choice(_GENERIC)) for n in ns]
            ops.append(('assign', api, items))
        elif r < 0.9:
            mode = rng.choice(['normal', 'normal', 'raise', 'raise', 'raise-mid', 'enter-bad'])
            depth = rng.choice([1, 1, 2, 2, 3])
            if mode == 'raise-mid':
                depth = max(depth, 2)
            levels = []
            okall = True
            for lv in range(depth):
                ns = rng.sample(names, rng.randrange(1, min(3, len(names)) + 1))
                kw = []
                for n in ns:
                    v, okv = valid_value(n)
                    okall = okall and okv
                    kw.append((n, v))
                levels.append(kw)
            if mode == 'enter-bad':
                n = rng.choice(names)
                v, okv = invalid_value(n)
                okall = okall and okv
                last = [kv for kv in levels[-1] if kv[0] != n]
                pos = rng.randrange(0, len(last) + 1)
                last.insert(pos, (n, v))
                levels[-1] = last
            if okall:
                ops.append(('temp', mode, levels))
        elif r < 0.915:
            ops.append(('undeclare', rng.choice(names)))
        else:
            ops.append(('assign', 'setitem', [('nosuch', 1)]))
    return read_only, decls, ops


# ----------------------------------------------------------------------------------------------
# execution against the real OptionsDictionary
# ----------------------------------------------------------------------------------------------
_UNSET = ('unset',)
_UNDECL = ('undeclared',)


def _read(opts, name):
    try:
        return ('set', opts[name])
    except KeyError:
        return _UNDECL
    except RuntimeError:
        return _UNSET
    except Exception as e:  # noqa
        return ('error', type(e).__name__)


def _state_eq(a, b):
    if a[0] != b[0]:
        return False
    if a[0] == 'set':
        return same(a[1], b[1])
    return True


def _short(st):
    return '%s' % (st,) if st[0] != 'set' else 'set(%r:%s)' % (st[1], type(st[1]).__name__)


class _Run(object):
    def __init__(self, seed, acc, upto=None):
        from openmdao.utils.options_dictionary import OptionsDictionary
        self.seed = seed
        self.acc = acc
        self.read_only, self.decls, self.ops = gen_history(seed)
        if upto is not None:
            self.ops = self.ops[:upto + 1]
        self.byname = {d.name: d for d in self.decls}
        self.opts = OptionsDictionary(parent_name='C27', read_only=self.read_only)
        self.declared = {}          # name -> Decl (currently declared)
        self.shadow = {}            # name (non-alias) -> state
        self.nviol = 0
        self.opi = -1
        self.n_acc = self.n_rej = self.n_temp = 0
        self.cv_names = []

    # -- helpers ---------------------------------------------------------------------------------
    def fp(self):
        return fingerprint([self.read_only, [d.features() + [bool(d.deprecation)] for d in self.decls],
                            [_opkind(o) for o in self.ops]])

    def viol(self, key, what):
        self.acc.viol(key, 'op %d %s: %s' % (self.opi, _opdesc(self.ops[self.opi]), what),
                      {'seed': self.seed, 'upto': self.opi}, fp=self.fp(), new_case=(self.nviol == 0))
        self.nviol += 1

    def target(self, name):
        """-> (declared?, resolved Decl or None, via_alias)."""
        d = self.declared.get(name)
        if d is None:
            return False, None, False
        if isinstance(d.deprecation, tuple):
            return True, self.declared.get(d.deprecation[1]), True
        return True, d, False

    def expected(self, name, value):
        """-> (verdict True/False/None, feature, resolved decl)."""
        declared, d, via = self.target(name)
        if not declared:
            return False, 'undeclared', None
        if self.read_only:
            return False, 'read_only', d
        if d is None:
            return False, 'alias-missing', None
        if isinstance(d.deprecation, tuple):       # alias of an alias: not generated
            return None, 'alias-chain', d
        v, f = d.accepts(value)
        return v, f, d

    def compare(self, ctx, focus=(), lenient=()):
        """Read every option back and compare with the shadow; resync on discrepancy."""
        okall = True
        for n, d in self.declared.items():
            if isinstance(d.deprecation, tuple):
                tgt = self.declared.get(d.deprecation[1])
                if tgt is None or isinstance(tgt.deprecation, tuple):
                    continue
                got = _read(self.opts, n)
                exp = self.shadow[tgt.name]
                if exp[0] == 'set':
                    self.acc.count('obs:alias:forwarded')
                if not _state_eq(got, exp) and tgt.name not in lenient:
                    self.viol('alias:get-not-forwarded:' + ctx, 'opts[%r]=%s but opts[%r] should be %s' %
                              (n, _short(got), tgt.name, _short(exp)))
                    okall = False
                continue
            got = _read(self.opts, n)
            exp = self.shadow[n]
            if n in lenient:
                self.shadow[n] = got
                continue
            if not _state_eq(got, exp):
                which = 'focus' if n in focus else 'other-option'
                self.viol('%s:%s' % (ctx, 'value-differs' if which == 'focus' else 'other-option-changed'),
                          'option %r is %s, expected %s' % (n, _short(got), _short(exp)))
                self.shadow[n] = got
                okall = False
        return okall

    def check_cache(self, ctx):
        # private bookkeeping: the property speaks about option values only, so entries left behind are
        # counted (evidence) but are not a violation by themselves
        cc = self.opts._context_cache
        if cc:
            self.acc.count('note:context-cache-entries-left')
            self.opts._context_cache = {}
            return False
        self.acc.count('obs:context-cache-empty')
        return True

    # -- operations ------------------------------------------------------------------------------
    def do_declare(self, name, bad_default=None):
        d = self.byname[name]
        acc = self.acc
        kw = dict(values=d.values, types=d.types, lower=d.lower, upper=d.upper)
        if d.allow_none and not (d.has_default and d.default is None):
            kw['allow_none'] = True
        if d.check_valid:
            from omv.ref.options import PREDICATES
            pred = PREDICATES[d.check_valid]

            def cv(nm, value, _pred=pred):
                acc.count('hook:check_valid')
                self.cv_names.append(nm)
                if not _pred(value):
                    raise ValueError('check_valid rejects %r' % (value,))
            kw['check_valid'] = cv
        if d.set_abs:
            def sf(meta, value):
                acc.count('hook:set_function')
                return d.stored(value)
            kw['set_function'] = sf
        if d.deprecation is not None:
            kw['deprecation'] = d.deprecation
        if bad_default is not None:
            acc.count('obs:declare:invalid-default')
            try:
                self.opts.declare(name, default=bad_default, **kw)
                raised = None
            except Exception as e:  # noqa
                raised = e
            if raised is None:
                self.viol('declare:invalid-default-accepted:' + d.accepts(bad_default)[1],
                          'declare(%r, default=%r, %s) did not raise' % (name, bad_default, _declstr(d)))
            self.opts.undeclare(name)
            return
        if d.has_default:
            kw['default'] = d.default
            acc.count('obs:declare:valid-default')
        try:
            self.opts.declare(name, **kw)
        except Exception as e:  # noqa
            self.viol('declare:valid-default-rejected:' + '+'.join(d.features()),
                      'declare(%r, %s) raised %s: %s' % (name, _declstr(d), type(e).__name__, str(e)[:120]))
            self.opts.undeclare(name)
            kw.pop('default', None)
            self.opts.declare(name, **kw)
            d = Decl(name, **{k: getattr(d, k) for k in ('values', 'types', 'lower', 'upper', 'allow_none',
                                                          'check_valid', 'set_abs', 'deprecation')})
        self.declared[name] = d
        if not isinstance(d.deprecation, tuple):
            self.shadow[name] = ('set', d.default) if d.has_default else _UNSET
        self.compare('declare')

    def do_assign(self, api, items):
        acc = self.acc
        acc.count('obs:api:' + api)
        if len(items) > 1:
            acc.count('obs:multi-item')
        exps = [self.expected(n, v) for n, v in items]
        first_bad = next((i for i, e in enumerate(exps) if e[0] is False), None)
        first_amb = next((i for i, e in enumerate(exps) if e[0] is None), None)
        self.cv_names = []
        try:
            if api == 'setitem':
                self.opts[items[0][0]] = items[0][1]
            elif api == 'set':
                self.opts.set(**dict(items))
            else:
                self.opts.update(dict(items))
            raised = None
        except Exception as e:  # noqa
            raised = e
        ctx = 'assign[%s]' % api
        if first_amb is not None and (first_bad is None or first_amb < first_bad):
            # documentation leaves the outcome open: not judged, adopt the real state
            acc.count('ambiguous:' + exps[first_amb][1])
            for n, d in self.declared.items():
                if not isinstance(d.deprecation, tuple):
                    self.shadow[n] = _read(self.opts, n)
            return
        if first_bad is None:
            feats = []
            for (n, v), (verd, f, d) in zip(items, exps):
                fs = d.features()
                if v is None and d.allow_none:
                    fs = ['allow_none'] + (['check_valid'] if d.check_valid else [])
                for f_ in fs:
                    acc.count('obs:accept:' + f_)
                feats.append('+'.join(fs) or 'unconstrained')
                self.shadow[d.name] = ('set', d.stored(v))
            self.n_acc += 1
            if raised is not None:
                self.viol('%s:rejected-valid:%s%s' % (ctx, feats[0] if len(items) == 1 else 'multi',
                                                       ':via-alias' if self.target(items[0][0])[2] else ''),
                          'raised %s: %s' % (type(raised).__name__, str(raised)[:160]))
                # adopt real state
                for n, d in self.declared.items():
                    if not isinstance(d.deprecation, tuple):
                        self.shadow[n] = _read(self.opts, n)
                return
            acc.count('obs:accepted:stored')
            self.compare(ctx + ':accepted', focus=[e[2].name for e in exps])
            # check_valid must have been consulted under the resolved option name
            for (n, v), (verd, f, d) in zip(items, exps):
                if d.check_valid and d.name not in self.cv_names:
                    self.viol('check_valid:not-consulted', 'check_valid of %r not called with its name (%r)' %
                              (d.name, self.cv_names))
        else:
            n, v = items[first_bad]
            verd, f, d = exps[first_bad]
            acc.count('obs:reject:' + f)
            self.n_rej += 1
            if raised is None:
                self.viol('%s:accepted-invalid:%s' % (ctx, f), 'opts[%r] = %r (%s) was accepted; %s' %
                          (n, v, type(v).__name__, _declstr(d) if d is not None else 'not declared'))
            # items before the rejected one may have either value
            lenient = [exps[i][2].name for i in range(first_bad) if exps[i][2] is not None]
            focus = [d.name] if d is not None else []
            if self.compare('%s:rejected:%s' % (ctx, f), focus=focus, lenient=lenient) and raised is not None:
                acc.count('obs:rejected:value-unchanged')

    def do_temp(self, mode, levels):
        acc = self.acc
        acc.count('obs:temporary:' + mode)
        if len(levels) > 1:
            acc.count('obs:temporary:nested')
        self.n_temp += 1
        # can every level be entered?  (valid values on declared, set options; nothing read-only)
        flavour = None
        for li, kw in enumerate(levels):
            for n, v in kw:
                declared, d, via = self.target(n)
                verd, f, _ = self.expected(n, v)
                if verd is None:
                    acc.count('ambiguous:temporary')
                    return
                st = self.shadow.get(d.name) if d is not None else None
                if flavour is None:
                    if verd is False:
                        flavour = (li, n, 'rejected-value' if f not in ('undeclared', 'read_only', 'alias-missing')
                                   else f)
                    elif st is not None and st[0] != 'set':
                        flavour = (li, n, 'unset-option')
        before = dict(self.shadow)
        exit_kind = {'normal': 'normal', 'raise': 'exception-in-body', 'enter-bad': 'normal',
                     'raise-mid': 'exception-in-inner-body-caught'}[mode]
        if flavour is not None:
            exit_kind = 'enter-failed:' + flavour[2]
        # one call naming the same option twice (deprecated alias and its target) is its own mechanism:
        # the restore order matters there
        dup = False
        for kw in levels:
            tg = [self.target(n)[1].name for n, _ in kw if self.target(n)[1] is not None]
            dup = dup or len(set(tg)) < len(tg)
        if dup:
            acc.count('obs:temporary:alias-and-target-in-one-call')
        # mechanism key = temporary:<observable>:<how the context was left>[:variants]; the variants come
        # last so that a listed finding can cover them with a narrow prefix
        variant = '%s%s%s' % (exit_kind, ':alias-and-target-in-one-call' if dup else '',
                              ':nested' if len(levels) > 1 else '')

        def key(observable):
            return 'temporary:%s:%s' % (observable, variant)
        if flavour is not None:
            acc.count('obs:temporary:enter-' + flavour[2])
        opts = self.opts
        entered = []
        raised = None
        inside = None
        mid_states = []

        def expected_inside(upto_level):
            st = dict(before)
            for kw in levels[:upto_level + 1]:
                for n, v in kw:
                    d = self.target(n)[1]
                    st[d.name] = ('set', d.stored(v))
            return st

        def body(level):
            nonlocal inside
            if level == len(levels):
                inside = {n: _read(opts, n) for n in before}
                if mode in ('raise', 'raise-mid'):
                    raise _Boom()
                return
            with opts.temporary(**dict(levels[level])):
                entered.append(level)
                if mode == 'raise-mid' and level == len(levels) - 2:
                    try:
                        body(level + 1)
                    except _Boom:
                        pass
                    mid_states.append({n: _read(opts, n) for n in before})
                else:
                    body(level + 1)

        try:
            body(0)
        except _Boom as e:
            raised = e
        except Exception as e:  # noqa
            raised = e
        # -- judge ---------------------------------------------------------------------------------
        if flavour is None:
            if isinstance(raised, _Boom) and mode == 'raise':
                pass
            elif raised is not None:
                self.viol(key('raises-on-valid'), 'raised %s: %s' % (type(raised).__name__, str(raised)[:160]))
            if inside is not None:
                acc.count('obs:temporary:inside-values')
                exp = expected_inside(len(levels) - 1)
                diff = [n for n in exp if not _state_eq(inside[n], exp[n])]
                if diff:
                    n = diff[0]
                    self.viol(key('value-inside-wrong'), 'inside the context option %r is %s, expected %s' %
                              (n, _short(inside[n]), _short(exp[n])))
            if mid_states:
                exp = expected_inside(len(levels) - 2)
                diff = [n for n in exp if not _state_eq(mid_states[0][n], exp[n])]
                if diff:
                    n = diff[0]
                    self.viol(key('inner-not-restored'), 'after the inner context was left by an exception '
                              'option %r is %s, expected %s' % (n, _short(mid_states[0][n]), _short(exp[n])))
        else:
            if flavour[2] == 'unset-option':
                # An option declared without a default and never set: neither the property nor the
                # documentation of temporary() says whether such a context may be entered (today reading
                # the previous value raises).  Both outcomes are accepted; the restore requirement below
                # (every other option as before, this one unset again) is judged in either case.
                acc.count('note:temporary:unset-option:' +
                          ('entered' if raised is None or isinstance(raised, _Boom) else 'refused'))
            elif raised is None or isinstance(raised, _Boom):
                self.viol(key('entered'), 'temporary(%r) was entered although %r cannot be set (%s)' %
                          (dict(levels[flavour[0]]), flavour[1], flavour[2]))
        # after the outermost context is gone everything must be as before
        self.shadow = dict(before)
        now = {n: _read(opts, n) for n in before}
        diff = [n for n in before if not _state_eq(now[n], before[n])]
        if diff:
            n = diff[0]
            self.viol(key('not-restored'), 'after leaving, option %r is %s, before entering it was %s' %
                      (n, _short(now[n]), _short(before[n])))
            for n in diff:
                self.shadow[n] = now[n]
        self.check_cache(key('cache'))
        self.compare(key('after'))

    def do_undeclare(self, name):
        self.acc.count('obs:undeclare')
        self.opts.undeclare(name)
        d = self.declared.pop(name, None)
        if d is not None and not isinstance(d.deprecation, tuple):
            self.shadow.pop(name, None)
        if name in self.opts:
            self.viol('undeclare:still-declared', '%r in options after undeclare' % name)
        # aliases of a removed option now point nowhere
        self.compare('undeclare')

    # -- driver ----------------------------------------------------------------------------------
    def run(self):
        for self.opi, op in enumerate(self.ops):
            if op[0] == 'declare':
                self.do_declare(op[1])
            elif op[0] == 'declare-bad':
                self.do_declare(op[1], bad_default=op[2])
            elif op[0] == 'assign':
                self.do_assign(op[1], op[2])
            elif op[0] == 'temp':
                self.do_temp(op[1], op[2])
            elif op[0] == 'undeclare':
                self.do_undeclare(op[1])
        if self.read_only:
            self.acc.count('obs:read_only-history')
        if self.nviol == 0:
            fp = self.fp()
            nontrivial = (self.n_acc > 0 and self.n_rej > 0) or self.n_temp > 0
            self.acc.ok(fp, nontrivial=nontrivial,
                        sample=({'seed': self.seed, 'decls': [_declstr(d) for d in self.decls],
                                 'ops': [_opdesc(o) for o in self.ops][:12]} if self.seed % 997 == 0 else None))


def _opkind(op):
    if op[0] == 'assign':
        return 'assign:%s:%d' % (op[1], len(op[2]))
    if op[0] == 'temp':
        return 'temp:%s:%s' % (op[1], [len(k) for k in op[2]])
    return op[0]


def _opdesc(op):
    if op[0] == 'assign':
        return '%s(%s)' % (op[1], ', '.join('%s=%r' % kv for kv in op[2]))
    if op[0] == 'temp':
        return 'temporary[%s](%s)' % (op[1], ' / '.join(', '.join('%s=%r' % kv for kv in kw) for kw in op[2]))
    return '%s(%s)' % (op[0], ', '.join(repr(x) for x in op[1:]))


def _declstr(d):
    parts = []
    for k in ('values', 'types', 'lower', 'upper', 'check_valid', 'deprecation'):
        v = getattr(d, k)
        if v is not None:
            if k == 'types':
                v = getattr(v, '__name__', None) or tuple(t.__name__ for t in v)
            parts.append('%s=%r' % (k, v))
    if d.allow_none:
        parts.append('allow_none')
    if d.set_abs:
        parts.append('set_function=abs')
    if d.has_default:
        parts.append('default=%r' % (d.default,))
    return 'declare(%r, %s)' % (d.name, ', '.join(parts))


# ----------------------------------------------------------------------------------------------
# framework entry points
# ----------------------------------------------------------------------------------------------
def shards(tier, seed):
    if tier == 'quick':
        ns, per = 16, 260
    else:
        ns, per = 32, 3400
    return [{'start': seed * 10000000 + k * per, 'n': per} for k in range(ns)]


def run_shard(shard, acc):
    for s in range(shard['start'], shard['start'] + shard['n']):
        _Run(s, acc).run()


def run_case(case, acc):
    _Run(case['seed'], acc, upto=case.get('upto')).run()
