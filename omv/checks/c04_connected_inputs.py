"""C04 - Connected inputs hold their source value with indices and units applied.

Monitor: invariant at a hook + reference model.  Harness components report their input vector at the
entry of every evaluation (compute / apply_nonlinear / solve_nonlinear / linearize); at that instant the
monitor reads the connected source from the live output vector and pushes it through the spec's index
chain with plain NumPy indexing and the harness unit table (independent of indexer.py, conn_graph.py,
units.py).  After run_model the same comparison is made through System.get_val(from_src=False) and
Problem.get_val.
"""
import random

import numpy as np

from omv.core import fingerprint
from omv.kit.gmon import FailureMonitor, exc_key, conn_features, spec_features, tree_solvers

PROPERTY = 'C04'
LEVEL = 'exploration'
TECHNIQUE = 'runtime monitoring: invariant checked at component-entry hooks against an independent NumPy/unit-table model of the connection'
RULE = ('random model specs (hierarchy, connect/promote wiring, index chains of 0-2 links incl. negative ints, '
        'slices, arrays, tuples, ellipsis, flat/non-flat, units incl. offset units, auto-IVC parameters, solver '
        'stacks); distinct = structural fingerprint of the wiring (index forms, units kinds, how connected); '
        'non-trivial = at least one connection with an index chain or a unit conversion, all solvers converged')
MIN_JUDGED = {'quick': 150, 'thorough': 3000}
REQUIRED_COUNTERS = ['obs:entry-input-checks', 'obs:final-input-checks', 'obs:indexed-conn', 'obs:unit-conv-conn',
                     'obs:chain2-conn', 'obs:param-conn']
ASSUMPTIONS = ['NumPy indexing + the harness unit table (omv/ref/flatmodel.py) are the reference',
               'entry-time comparison is skipped for models containing a NonlinearBlockJac solver (Jacobi '
               'sweeps deliberately evaluate on inputs transferred before the sweep)',
               'models whose solvers report non-convergence are not judged after run_model']
SHARD_TIMEOUT = {'quick': 900, 'thorough': 3600}

OPTS = dict(p_index=0.75, p_units=0.6, p_chain2=0.35, p_param=0.5, p_matfree=0.05, p_sparse=0.2)


def shards(tier, seed):
    n = 16 if tier == 'quick' else 64
    per = 20 if tier == 'quick' else 160
    return [{'seed': seed * 100000 + i * 1000, 'n': per} for i in range(n)]


def run_shard(shard, acc):
    for k in range(shard['n']):
        run_case({'seed': shard['seed'] + k}, acc)


def _rel(a, b):
    a = np.asarray(a, dtype=float).ravel()
    b = np.asarray(b, dtype=float).ravel()
    if a.shape != b.shape:
        return np.inf
    return float(np.max(np.abs(a - b) / np.maximum(1.0, np.abs(b)), initial=0.0))


def run_case(case, acc):
    from omv.gen import models as G
    from omv.ref.flatmodel import FlatModel
    rng = random.Random(case['seed'])
    opts = dict(OPTS)
    if rng.random() < 0.15:
        opts['p_known_c05'] = 0.5
    spec = G.gen_spec(rng, opts)
    fm = FlatModel(spec)
    owner = {}
    for c in spec['comps']:
        for v in c['inputs'] + c['outputs']:
            owner[v['name']] = c['name']
    conn = {cn['tgt']: cn for cn in spec['conns']}
    feats = {cn['tgt']: conn_features(spec, cn) for cn in spec['conns']}
    solvers = tree_solvers(spec)
    # a connection hitting the recorded C05 finding (single int / 1-D array index into a non-flat N-D
    # source) corrupts the whole transfer index array of its model: key every discrepancy of such a model
    # under that mechanism
    tainted = any('KNOWN-nd-nonflat-single-index' in f for f in feats.values())

    def K(kind, detail):
        if tainted:
            return 'nd-nonflat-single-index-model:' + kind.split(':')[0]
        return kind + ':' + detail
    has_jac = any(nl == 'nlbj' for nl, _ in solvers)
    cyclic = any(n.get('cyclic') for n in _groups(spec['tree']))
    state = {'prob': None, 'src_abs': {}, 'bad': {}, 'checks': 0, 'armed': False}

    def src_now(name):
        prob = state['prob']
        a = state['src_abs'].get(name)
        if a is None:
            if name in owner:
                a = G.abs_name(spec, name)
            else:
                a = prob.model.get_source(name)
            state['src_abs'][name] = a
        return np.array(prob.model._outputs._abs_get_val(a, flat=True))

    def expected(inp):
        src, pos, fac, off = fm.wire[inp]
        return src_now(src)[pos] * fac + off

    def hook(ev, cname, payload):
        if ev == 'partial' or not state['armed'] or has_jac:
            return
        for k, got in payload.items():
            exp = expected(k)
            state['checks'] += 1
            err = _rel(got, exp)
            if err > 1e-12 and k not in state['bad']:
                state['bad'][k] = (ev, err, np.asarray(got).ravel().tolist(), exp.tolist())

    with FailureMonitor() as fmon:
        try:
            prob = G.build(spec, hook=hook)
            prob.setup()
            prob.final_setup()
        except Exception as e:
            key = K(exc_key('setup', e), '+'.join(spec_features(spec)))
            acc.viol(key, 'setup of a legal model raised %s: %s' % (type(e).__name__, str(e)[:200]), case)
            return
        state['prob'] = prob
        state['armed'] = True
        try:
            prob.run_model()
        except Exception as e:
            key = K(exc_key('run_model', e), '+'.join(spec_features(spec)))
            acc.viol(key, 'run_model raised %s: %s' % (type(e).__name__, str(e)[:200]), case)
            return
        state['armed'] = False
        failed = list(fmon.failures)
    acc.count('obs:entry-input-checks', state['checks'])
    first = True
    for k, (ev, err, got, exp) in state['bad'].items():
        acc.viol(K('entry-mismatch', '+'.join(feats[k])),
                 'input %s at entry of %s: got %s expected %s (rel err %.2e)' % (k, ev, got[:6], exp[:6], err),
                 case, new_case=first)
        first = False
    if failed:
        if first:
            acc.skip('solver-reported-nonconvergence')
        prob.cleanup()
        return
    # after run_model
    tol = 1e-7 if cyclic else 1e-12
    nfinal = 0
    for c in spec['comps']:
        for i in c['inputs']:
            k = i['name']
            a = G.abs_name(spec, k)
            exp = expected(k)
            for label, getter in (('from_src=False', lambda: prob.model.get_val(a, from_src=False)),
                                  ('Problem.get_val', lambda: prob.get_val(a))):
                try:
                    got = getter()
                except Exception as e:
                    acc.viol(K(exc_key('get_val', e), '+'.join(feats[k])),
                             'get_val(%s) raised %s: %s' % (label, type(e).__name__, str(e)[:160]), case,
                             new_case=first)
                    first = False
                    continue
                nfinal += 1
                err = _rel(got, exp)
                if err > tol:
                    acc.viol(K('final-mismatch:%s' % label, '+'.join(feats[k])),
                             'input %s after run_model via %s: got %s expected %s (rel err %.2e)' %
                             (k, label, np.asarray(got).ravel().tolist()[:6], exp.tolist()[:6], err), case,
                             new_case=first)
                    first = False
    acc.count('obs:final-input-checks', nfinal)
    for cn in spec['conns']:
        f = feats[cn['tgt']]
        if cn['chain']:
            acc.count('obs:indexed-conn')
        if 'chain2' in f:
            acc.count('obs:chain2-conn')
        if 'units-scale' in f or 'units-offset' in f:
            acc.count('obs:unit-conv-conn')
        if 'param' in f:
            acc.count('obs:param-conn')
        if 'negidx' in f:
            acc.count('obs:negidx-conn')
        if 'promote+connect' in f:
            acc.count('obs:promoted-conn')
    for nl, ln in solvers:
        acc.count('cell:nl=%s' % nl)
    prob.cleanup()
    if first:
        nontriv = any(cn['chain'] or ('units-scale' in feats[cn['tgt']]) or ('units-offset' in feats[cn['tgt']])
                      for cn in spec['conns'])
        fp = fingerprint(sorted(tuple(feats[cn['tgt']]) for cn in spec['conns']))
        acc.ok(fp, nontrivial=nontriv,
               sample={'seed': case['seed'], 'connections': [dict(cn, features=feats[cn['tgt']])
                                                             for cn in spec['conns']][:4]})


def _groups(node):
    if 'comp' in node:
        return []
    out = [node]
    for ch in node['children']:
        out += _groups(ch)
    return out
